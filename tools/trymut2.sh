#!/bin/bash
# tools/trymut2.sh <patch.diff> <prop> [prop...]  -- apply to a scratch worktree of /repo HEAD (/tmp/wtmut), run the quick
# checks of $KEEPMUT_HOME (default /verif) against it via VERIF_REPO; /repo itself is not touched.
P="$1"; shift
H="${KEEPMUT_HOME:-/verif}"
[ -d /tmp/wtmut ] || git -C /repo worktree add --detach /tmp/wtmut HEAD >/dev/null 2>&1
git -C /tmp/wtmut checkout -q --detach "$(git -C /repo rev-parse HEAD)" && git -C /tmp/wtmut checkout -- . 
git -C /tmp/wtmut apply "$P" || { echo "PATCH DOES NOT APPLY: $P"; exit 3; }
cd "$H"
for c in "$@"; do
  out=$(VERIF_REPO=/tmp/wtmut ${TIERENV} ./check $c --tier quick 2>&1); rc=$?
  echo "== $c rc=$rc  $(echo "$out" | grep -c '^VIOLATION') violations"
  echo "$out" | grep -A2 '^VIOLATION' | head -${LINES_SHOWN:-9} | cut -c1-260
done
git -C /tmp/wtmut checkout -- .
