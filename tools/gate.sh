#!/bin/bash
# tools/gate.sh [tier] -- all 20 checks, one line each with the exit code; exit 1 if any is not 0
cd "$(dirname "$0")/.."
T="${1:-quick}"; bad=0
for c in C01 C02 C03 C04 C05 C06 C07 C08 C09 C10 C11 C12 C13 C14 C15 C16 C17 C18 C19 C20; do
  out=$(./check $c --tier $T 2>&1); rc=$?
  echo "$c rc=$rc $(echo "$out" | tail -1 | cut -c1-170)"
  [ $rc -ne 0 ] && { bad=1; echo "$out" | grep -E "^VIOLATION|^INCONCLUSIVE|sig=" | head -6; }
done
exit $bad
