NOTE = ("trusted: NumPy/SciPy/mpmath/SymPy, the reference models in vmon/ref.py, the domain guards copied from the "
        "property statement; 'held' means held on the executions observed (counts, cells and line reach in the evidence)")
BUILT['C01'] = (
    "runtime contracts: post-conditions with domain guards rebound on every binding of the group-valued base functions "
    "+ object-validity oracle on every constructor / operator result in random expression trees",
    "every value returned by 34 hooked base functions, every public constructor of the five classes and every node of "
    "random expression trees (* / inv ** prod interp, single- and multi-valued) is checked for orthonormality, det, last row, "
    "unit norm to 1e-9 on tens of thousands (quick) to millions (thorough) of executions over the special-value pools; "
    "exploration is the right level because the property quantifies over unbounded real inputs",
    NOTE, "DESIGN.md 4 C01")
