NOTE = ("trusted: NumPy/SciPy/mpmath/SymPy, the reference models in vmon/ref.py, the domain guards copied from the "
        "property statement; 'held' means held on the executions observed (counts, cells and line reach in the evidence), "
        "in two interpreter configurations (default and python -O) and with arguments also presented as frozen, strided, "
        "Fortran-ordered arrays, NumPy scalars and narrow element types (DESIGN.md 10.2a, 10.5 round 5)")
BUILT['C01'] = (
    "runtime contracts: post-conditions with domain guards rebound on every binding of the group-valued base functions "
    "+ object-validity oracle on every constructor / operator result in random expression trees",
    "every value returned by 34 hooked base functions, every public constructor of the five classes and every node of "
    "random expression trees (* / inv ** prod interp, single- and multi-valued) is checked for orthonormality, det, last row, "
    "unit norm to 1e-9 on tens of thousands (quick) to millions (thorough) of executions over the special-value pools; "
    "exploration is the right level because the property quantifies over unbounded real inputs",
    NOTE, "DESIGN.md 4 C01")
BUILT['C02'] = (
    "law monitor (both sides of each group law computed by the real operators on the same operands) + reference-model "
    "monitor comparing every operator application in random expression trees with longdouble group arithmetic",
    "associativity, identity, inverse, anti-homomorphism, division, powers |n|<=8, structured inverse and sequence "
    "division/power are evaluated on operand triples over the whole group (angles at and 1e-12 from 0 and pi, translations "
    "1e-6..1e6) in SO2/SE2/SO3/SE3/UnitQuaternion/Twist2/Twist3, and every * / inv ** inside random trees (depth<=5) is "
    "compared with an independent longdouble evaluation; 1e-9 relative to max(1,|t|), 1e-7 for twists (as motions)",
    NOTE, "DESIGN.md 4 C02")
BUILT['C03'] = (
    "runtime contracts on trexp/trexp2/trlog/trlog2 (rebound on every binding, so internal calls from Exp/log/Twist are "
    "judged too) against a reference exponential; class wrappers judged at their boundary; line-reach requirements",
    "every in-domain call of the four base functions is compared with the reference exponential (closed form in longdouble, "
    "re-validated against mpmath at 50 digits inside each run); logarithms must be finite, real, of algebra form, |w|<=pi "
    "and satisfy exp(L)=T, log(exp S)=S for |w|<=pi-1e-6; rotation magnitudes sweep 1e-12..pi log-uniformly from both ends; "
    "the identity, pure-translation, near-half-turn and general branches of trlog are required line-reach targets",
    NOTE, "DESIGN.md 4 C03")
BUILT['C04'] = (
    "multi-representation evaluator: one random expression tree evaluated independently by the real operators in every "
    "representation and mapped back to a matrix by reference formulas; back-conversion, shared-constructor, double-cover "
    "and embedding monitors",
    "trees over {*, inv} are evaluated in SO3/SE3/UnitQuaternion/Twist3/UnitDualQuaternion (rotation-only in all five, "
    "rigid in three) and SO2/SE2/Twist2; every node must equal the longdouble reference evaluation to 1e-6 max(1,|t|), which "
    "decides round trips and both homomorphism equations at once; every shared named constructor is compared across classes "
    "with all options; q/-q equality and the three embeddings (single- and multi-valued) are checked on points; all three "
    "largest-diagonal branches of r2q are required line-reach targets",
    NOTE, "DESIGN.md 4 C04")
BUILT['C05'] = (
    "runtime contracts on the extraction (tr2rpy/tr2eul/tr2angvec/tr2xyt) and construction (rpy2r/eul2r/angvec2r/xyt2tr) "
    "functions with reconstruction through reference elementary rotations; class accessors judged at their boundary; "
    "required line reach of every singular/argmax branch",
    "every in-domain extraction must rebuild the rotation to 1e-6 through the harness's own Rz/Ry/Rx products in the "
    "documented order, with angle ranges and unit-axis checked, at exactly singular configurations and 1e-12..1e-1 on either "
    "side; constructors are compared with the documented ordered product; deg = rad*180/pi; all 15 pitch formulas of tr2rpy "
    "and all branches of tr2eul are required line-reach targets",
    NOTE, "DESIGN.md 4 C05")
BUILT['C06'] = (
    "boundary monitor on pose*points against an independent R p + t (value and shape), law monitor, route-agreement monitor, "
    "runtime contracts on homtrans/e2h/h2e/qvmul; required line reach of every dispatch branch of SMPose.__mul__",
    "pose objects of six classes holding 1..5 distinct values are applied to points given in six container forms (d x N with "
    "N=1..7 incl. N=d) with coordinates 1e-6..1e6 and structured translations (components cancelling exactly); results are "
    "compared with R p + t evaluated in longdouble to 1e-9 of the data magnitude; composition/inverse/distance/handedness laws "
    "and the matrix / unit-quaternion / dual-quaternion / homogeneous-function routes are compared on the same data",
    NOTE, "DESIGN.md 4 C06")
BUILT['C07'] = (
    "constructor oracle at the class boundary + object-invariant hook on every __init__ + membership and scalar predicates "
    "judged against an independent SVD distance to the group, outside a 1e-6 band only",
    "valid members (library primitives and reference-built) are corrupted by noise 1e-12..1 in one/all entries, scaling, "
    "reflections, column swaps and last-row errors and supplied bare and inside lists/tuples mixed with valid items to every "
    "class constructor and predicate with checking on; anything further than 1e-6 from the group must raise / be False, "
    "unperturbed primitives must be accepted, and no constructed object may hold None or a wrongly shaped element",
    NOTE, "DESIGN.md 4 C07")
BUILT['C08'] = (
    "exhaustive enumeration of the operator table at the expression boundary, checked against a specification table "
    "transcribed from the docstrings; per-dunder tap for dispatch diagnosis",
    "all 16x16 ordered class pairs x {* / + - ** @} x {single, multi}-valued operands (plus == != ^ | for same-class pairs and "
    "class x scalar cells) are executed with random non-identity values: undocumented pairs of different classes must raise "
    "(any return - None, identity, foreign elements - is a violation), documented pairs must return the documented class with "
    "the broadcast length; the space is finite and enumerated completely on every run",
    NOTE, "DESIGN.md 4 C08 + Appendix A")
BUILT['C09'] = (
    "self-consistency monitor: the vectorised operator / accessor on m- and n-valued operands is compared element by element "
    "with the same operation on single-valued objects; exhaustive over classes x operators x all length pairs 1..5 x 1..5",
    "for the eight list-capable classes every operator (* / + - == != ** and pose*point) is run on every length pair with "
    "pairwise distinct elements: length rule, element i equal (bit for bit) to the single-valued result on the corresponding "
    "elements, ValueError exactly for mismatched lengths; every per-value accessor named in the statement is run on objects "
    "holding 1..5 values with options (unit, order); all four length branches and the error branch of binop and _op2 are "
    "required line-reach targets",
    NOTE, "DESIGN.md 4 C09")
BUILT['C10'] = (
    "history + executable model: the object and a plain Python list are driven in lock-step through exhaustively enumerated "
    "short operation sequences and random long ones; complete slice grid; full state comparison after every step",
    "every sequence of up to 2 operations (3 for SE3; 3/4 in thorough) over a 24-operation alphabet (append/extend/insert/pop/"
    "del/setitem/reverse/clear/copy with valid, multi-valued and foreign-class arguments, in- and out-of-range indices) from "
    "start lengths 0..4 in 11 classes, plus random histories up to 60 steps; after each step len and every stored element equal "
    "the list model bit for bit, every index -n-2..n+1, iteration, pop result and copy is a same-class object with the model's "
    "value, IndexError exactly when the list raises; all 1792 slices x lengths 0..5 enumerated on every run",
    NOTE, "DESIGN.md 4 C10")
BUILT['C11'] = (
    "sampling monitor on the real interpolators with a longdouble geodesic oracle R0 exp(s Phi): one arc must explain all "
    "samples of a pair; translation linearity, validity, out-of-range rejection, route agreement, vector-s sequence",
    "slerp, trinterp, trinterp2, SO2/SE2/SO3/SE3.interp and UnitQuaternion.interp are sampled at 13 fixed s values (incl. 1e-12 "
    "from both ends) plus random ones for pose pairs whose relative rotation is 1e-12..pi-1e-6, with/without start, shortest "
    "on/off, both signs of the quaternion dot product; every sample must be a valid member on the constant-rate fixed-axis arc "
    "(shorter arc when requested), translation (1-s)t0+s t1; s outside [0,1] must raise for the 3-D and quaternion functions",
    NOTE, "DESIGN.md 4 C11")
BUILT['C12'] = (
    "symbolic-valued execution of the real quaternion code (SymPy symbols through the library functions, difference "
    "expanded to the zero polynomial) + numeric identity monitor against a longdouble Hamilton reference",
    "13 identities (associativity, both distributive laws, multiplicative norm, conjugate reversal, q q*, integer powers "
    "|n|<=6, 4x4 matrix form, inner product, both rate equations, 3-vector form, dual-quaternion associativity / 8x8 matrix "
    "/ conjugate / unit norm, exp-log inverse pairs) are evaluated by both the base functions and the class operators on "
    "components spanning 1e-6..1e6; residuals 1e-9 relative to the product of operand norms; the polynomial ones are also "
    "discharged symbolically on every run by executing the library on symbols (coverage.symbolic_identities)",
    NOTE, "DESIGN.md 4 C12")
BUILT['C13'] = (
    "identity monitor on the real Lie-algebra / adjoint / differential-motion functions against NumPy and longdouble "
    "references, plus symbolic-valued execution for the linear identities",
    "skew/vex/skewa/vexa inverses and skew(a)b = a x b on vectors of length 1,3,6 with components 1e-6..1e6 (also symbolically); "
    "Ad value, homomorphism, inverse, intertwining with vexa(T[S]T^-1), expm(ad S) = Ad(exp S), tr2jac both modes, "
    "tr2delta/delta2tr round trip, two-argument form, first-order agreement with the logarithm, SE3.Ad/jacob/delta/Delta and "
    "Twist3.ad/Ad on rigid motions with non-zero translation and non-coordinate rotation axes (so a transposed block or sign "
    "slip cannot cancel)",
    NOTE, "DESIGN.md 4 C13")
BUILT['C14'] = (
    "post-condition monitors on the normalisation functions (member, idempotent, direction / translation / plane "
    "preservation against longdouble references) and on angdiff (range + congruence), class methods judged at their boundary",
    "trnorm / pose.norm on members perturbed by 1e-15..1e-2 (member to 1e-12, idempotent, translation bit-identical, approach "
    "axis direction and o in span{o,a} preserved, valid input unchanged); unit / unitvec / Quaternion.unit / UnitQuaternion(v) "
    "on norms 1e-6..1e6 (result equals the longdouble quotient, no sign change); unittwist family incl. rotational parts at "
    "0, 5 eps, 20 eps, 1e-12; angdiff on scalars and arrays within +-1e3 incl. exact multiples of pi",
    NOTE, "DESIGN.md 4 C14")
BUILT['C15'] = (
    "differential monitor at the public boundary of every catalogued callable: the same call in every container form, "
    "element type, wrong length, packed/separate form, unit and misspelt option; reflection guard keeps the catalogue honest",
    "120+ catalogue entries (every name of spatialmath.base.__all__ that takes a vector/angle/unit/order + class constructors, "
    "named constructors, accessors) are each called with list/tuple/1-D/row/column vectors of int and float elements (results "
    "bit-identical to the 1-D float form), with every wrong length 0..8 (must raise, never None), in scalar-triple vs packed "
    "form, with unit='deg' vs 'rad' (1e-12) for inputs and returned angles, and with misspelt order and unit names (must raise)",
    NOTE, "DESIGN.md 4 C15 + Appendix B")
BUILT['C16'] = (
    "differential monitor between the symbolic and the numeric execution of the same real call: every ':SymPy: supported' "
    "entry (found by reflection, guarded) in every call form and symbol/number mask, substituted at pooled points",
    "66 call templates cover the 41 API entries whose docstring says ':SymPy: supported' plus pose operators; each is executed "
    "with symbols in every slot and in every mix with numbers (all 2^n masks up to 4 slots), the output is evaluated at special "
    "and random angles / translations <= 1e3 and compared with the numeric call to 1e-12; entries that are structurally 0 or 1 "
    "must stay exact; a symbolic call may not raise where the numeric form is accepted",
    NOTE, "DESIGN.md 4 C16")
BUILT['C17'] = (
    "boundary snapshotter (deep byte-level snapshots of arguments, operands and receivers before/after every call, also when "
    "it raises), double evaluation for determinism, and a history pool in which results (views included) are fed to later "
    "calls while every live value is re-verified after each call",
    "every catalogued callable of the base package and the classes (180+ entries, list and ndarray forms), every public "
    "member and operator dunder of the 17 classes enumerated by reflection (single- and multi-valued receivers, scalar / "
    "vector / object operands, augmented operators), and random 150-call histories over a pool of arrays, library views and "
    "objects incl. default-constructed ones and the documented list mutators (which may change their receiver only)",
    NOTE, "DESIGN.md 4 C17")
BUILT['C18'] = (
    "boundary monitor on the twist constructors and accessors against a longdouble reference screw motion",
    "Twist3.Revolute(a, q) with axis lengths 1e-3..1e6 and axis points up to 1e3: exp(theta S) must fix three points of the "
    "axis, equal Rodrigues(a^, theta) and move an off-axis point as the reference screw does, for theta in [-2pi, 2pi] incl. 0 "
    "and multiples of pi/2, scalar and vector theta, rad and deg; pitch 0, pole and line on the axis, theta() = 1, isprismatic; "
    "Prismatic translates by theta a^ without rotating; se(n) form, inverse and scalar multiples consistent with exp; same for "
    "planar twists about a point",
    NOTE, "DESIGN.md 4 C18")
BUILT['C19'] = (
    "boundary monitor on every public member of Plucker and Plane against elementary geometry of the defining data computed "
    "independently; predicates judged on exact constructed ground truth only",
    "lines from PQ / PointDir / (v,w) / Planes with non-unit directions 1e-3..1e3 and points up to 1e3: defining points and "
    "point(lambda) on the line, Pluecker constraint, pp and ppd, closest(x) projection / distance / parameter, SE3*line through "
    "transformed points, distance and common perpendicular for general / intersecting / parallel pairs, intersection point, "
    "plane through point+normal and through three points, line-plane intersection with its line parameter; == | ^ contains on "
    "exact configurations (rescaled / reversed / displaced lines)",
    NOTE, "DESIGN.md 4 C19")
BUILT['C20'] = (
    "boundary monitor on the spatial-vector and spatial-inertia operators against reference 6x6 matrices written from the "
    "textbook definitions; guard table for mixed classes / unequal lengths; cross product re-evaluated after list updates",
    "element-wise + - neg bit-exact within each of the four classes (single- and multi-valued), every ordered class pair and "
    "length mismatch must raise, motion and force cross products equal crm(v) m and -crm(v)^T f with the duality identity, also "
    "after the velocity object was changed through setitem/append/pop/in-place writes, SpatialInertia equals the symmetric "
    "parallel-axis matrix, sums and products with acceleration/velocity give force/momentum, SE3 applies Ad to motion and Ad^T "
    "to force vectors (1..7 values); magnitudes 1e-6..1e6",
    NOTE, "DESIGN.md 4 C20")
