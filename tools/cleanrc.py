#!/usr/bin/env python3
"""tools/cleanrc.py Cxx [home]  -- exit code of `./check Cxx --tier quick` on the UNCHANGED tree (/repo HEAD working tree), cached by
(check id, /repo HEAD, hash of the vmon sources).  keepmut / reseed call it before they believe an exit code 1 obtained against a
seeded tree: a check that is not silent on the unchanged tree decides nothing about a seeded change (round 11, section 10.3)."""
import glob, hashlib, json, os, subprocess, sys


def clean_rc(cid, home='/verif'):
    h = hashlib.sha1()
    for f in sorted(glob.glob(os.path.join(home, 'vmon', '**', '*.py'), recursive=True)) + [os.path.join(home, 'known_findings.json')]:
        h.update(open(f, 'rb').read())
    head = subprocess.run('git -C /repo rev-parse --short HEAD', shell=True, capture_output=True, text=True).stdout.strip()
    dirty = subprocess.run('git -C /repo status --porcelain -- spatialmath', shell=True, capture_output=True, text=True).stdout.strip()
    key = '%s-%s-%s%s' % (cid, head, h.hexdigest()[:12], '-dirty' if dirty else '')
    cache = '/tmp/cleanrc_cache'
    os.makedirs(cache, exist_ok=True)
    p = os.path.join(cache, key + '.json')
    if os.path.exists(p) and not dirty:
        return json.load(open(p))['rc']
    env = dict(os.environ)
    env.pop('VERIF_REPO', None)
    r = subprocess.run('cd %s && ./check %s --tier quick' % (home, cid), shell=True, capture_output=True, text=True, env=env)
    json.dump(dict(rc=r.returncode, tail=r.stdout[-300:]), open(p, 'w'))
    return r.returncode


if __name__ == '__main__':
    rc = clean_rc(sys.argv[1], sys.argv[2] if len(sys.argv) > 2 else '/verif')
    print(sys.argv[1], 'unchanged tree rc=%d' % rc)
    sys.exit(rc)
