#!/usr/bin/env python3
"""Regenerate /verif/MANIFEST.json from the table below (kept valid at all times)."""
import json, os
HERE = os.path.dirname(os.path.dirname(os.path.abspath(__file__)))
props = [json.loads(l) for l in open(os.path.join(HERE, 'properties.jsonl'))]

# id -> (technique, level text, level note, DESIGN section)
BUILT = {}
exec(open(os.path.join(HERE, 'tools', 'built.py')).read())

BASE = ("cd /repo && /venv/bin/python -m pytest -ra -q -p no:cacheprovider --timeout=120 "
        "--continue-on-collection-errors --junitxml=/tmp/verif_baseline_off.junit.xml")
man = {
    "version": 1,
    "setup_cmd": "./setup.sh",
    "hooks": {
        "guard": "SPATIALMATH_VERIF",
        "enable": "no instrumentation is committed to /repo: ./check sets SPATIALMATH_VERIF=1 and attaches every "
                  "monitor from /verif at import time (vmon.instrument.rebind_everywhere, hook_method, sys.monitoring); "
                  "PYTHONPATH=/repo so the current working tree is imported, nothing is built or cached",
        "baseline_off_cmd": BASE,
        "source_commits": [],
        "add_only": True,
    },
    "engines": [{
        "name": "vmon", "path": "/verif/vmon", "serves_properties": sorted(BUILT),
        "kind_free_text": "runtime monitoring: contracts (post-conditions with domain guards) rebound on every binding of "
                          "the real functions, object-invariant hooks, operator taps, boundary snapshots, reference-model "
                          "oracles (mpmath 50-digit expm, longdouble group arithmetic, a plain Python list, NumPy geometry, "
                          "SymPy normal forms), sys.monitoring line-reach evidence; seeded hostile workloads sharded over "
                          "processes; three-valued verdicts; mechanism-keyed known findings"}],
    "checks": [],
    "not_applicable": [],
    "notes": "All checks: ./check <id> --tier quick|thorough, replay with ./check <id> --replay <file>. VERIF_SEED selects the "
             "workload seed. Exit 0 held-on-observed (KNOWN-FINDING lines allowed), 1 VIOLATION, 2 INCONCLUSIVE. "
             "Repairs of genuine defects are 'fix:' commits in /repo, listed with replayable witnesses in known_findings.json.",
}
for p in props:
    i = p['id']
    if i in BUILT:
        tech, text, note, ref = BUILT[i]
        man['checks'].append({
            "property_id": i,
            "quick_cmd": "./check %s --tier quick" % i,
            "thorough_cmd": "./check %s --tier thorough" % i,
            "evidence_file": "/verif/evidence/%s.json" % i,
            "replay_cmd_template": "./check %s --replay {path}" % i,
            "engine": "vmon",
            "level_claimed": {"category": "exploration", "text": text, "design_ref": ref},
            "level_note": note,
            "technique": tech,
        })
    else:
        man['not_applicable'].append({"property_id": i, "reason": "check not built yet in this session (runtime monitoring applies; see DESIGN.md section 4)"})
json.dump(man, open(os.path.join(HERE, 'MANIFEST.json'), 'w'), indent=1)
print('checks:', len(man['checks']), 'not_applicable:', len(man['not_applicable']))
