#!/bin/bash
# audit: the repository's tests with the contract monitors on (DESIGN 5.6)
cd /repo && PYTHONPATH=/repo:/verif:/verif/.deps MPLBACKEND=Agg /venv/bin/python -W ignore -m pytest -q -p no:cacheprovider -p vmon.pytest_plugin --timeout=120 tests \
  --deselect tests/base/test_symbolic.py::Test_symbolic::test_constants --deselect tests/base/test_symbolic.py::Test_symbolic::test_functions \
  --deselect tests/base/test_transforms3d.py::Test3D::test_plot --deselect tests/test_pose2d.py::TestSE2::test_graphics 2>&1 | tail -${1:-25}
