#!/usr/bin/env python3
"""tools/anchorcov.py [Cxx ...]  -- which lines of the code each property is anchored in does its check never execute?

For every property: the anchor ranges of properties.jsonl (line numbers of the ORIGINAL commit) are translated into
function / method names (ast of the original file), the quick workload of the property's check is run as one shard under
coverage.py, and the lines of those functions in the CURRENT tree that were never executed are listed (docstrings, blank lines
and comments are not executable and do not count).  A self-audit aid: unexecuted anchored code is where a seeded change
would go unnoticed.  Writes <home>/anchorcov/<id>.txt and prints a summary line per property.
"""
import ast
import json
import os
import re
import subprocess
import sys

HOME = os.environ.get('VERIF_HOME', os.path.dirname(os.path.dirname(os.path.abspath(__file__))))
REPO = os.environ.get('VERIF_REPO', '/repo')
ORIG = '9631893'


def spans(src):
    """[(qualname, first, last)] for every function / method in a source text"""
    out = []
    tree = ast.parse(src)

    def walk(node, prefix):
        for ch in ast.iter_child_nodes(node):
            if isinstance(ch, (ast.FunctionDef, ast.AsyncFunctionDef)):
                first = min([ch.lineno] + [d.lineno for d in ch.decorator_list])
                out.append((prefix + ch.name, first, ch.end_lineno))
                walk(ch, prefix + ch.name + '.')
            elif isinstance(ch, ast.ClassDef):
                walk(ch, prefix + ch.name + '.')
    walk(tree, '')
    return out


def anchored_functions(where):
    """'path:a-b,c-d; path2:e-f' -> {path: set(qualnames)} using the original commit's line numbers"""
    res = {}
    for part in where.split(';'):
        part = part.strip()
        if ':' not in part:
            continue
        path, ranges = part.split(':', 1)
        path = path.strip()
        try:
            src = subprocess.run(['git', '-C', REPO, 'show', '%s:%s' % (ORIG, path)], capture_output=True, text=True, check=True).stdout
        except subprocess.CalledProcessError:
            continue
        sp = spans(src)
        for r in ranges.split(','):
            m = re.match(r'\s*(\d+)\s*-\s*(\d+)', r)
            if not m:
                m1 = re.match(r'\s*(\d+)', r)
                if not m1:
                    continue
                a = b = int(m1.group(1))
            else:
                a, b = int(m.group(1)), int(m.group(2))
            for name, f, l in sp:
                if f <= b and l >= a:        # overlaps the anchored range
                    res.setdefault(path, set()).add(name)
    return res


def main():
    props = {}
    for line in open(os.path.join(HOME, 'properties.jsonl')):
        d = json.loads(line)
        props[d['id']] = d
    ids = sys.argv[1:] or sorted(props)
    os.makedirs(os.path.join(HOME, 'anchorcov'), exist_ok=True)
    for pid in ids:
        funcs = {}
        for m in props[pid]['anchors']['mechanism']:
            for path, names in anchored_functions(m['where']).items():
                funcs.setdefault(path, set()).update(names)
        data = '/tmp/anchorcov_%s.dat' % pid
        env = dict(os.environ, PYTHONPATH='%s:%s:%s/.deps' % (REPO, HOME, HOME), PYTHONHASHSEED='0', MPLBACKEND='Agg', SPATIALMATH_VERIF='1',
                   VERIF_REPO=REPO, VERIF_HOME=HOME, COVERAGE_FILE=data, COVERAGE_CORE='sysmon', PYTHONDONTWRITEBYTECODE='1')
        if os.path.exists(data):
            os.remove(data)
        r = subprocess.run(['/venv/bin/python', '-W', 'ignore', '-m', 'coverage', 'run', '--source', os.path.join(REPO, 'spatialmath'), '-m', 'vmon.cli', pid,
                            '--tier', 'quick', '--shard', '0/1', '--out', '/tmp/anchorcov_%s.json' % pid], cwd=HOME, env=env, capture_output=True, text=True)
        import coverage
        cov = coverage.Coverage(data_file=data)
        cov.load()
        lines_out = []
        tot = miss = 0
        for path, names in sorted(funcs.items()):
            full = os.path.join(REPO, path)
            if not os.path.exists(full):
                continue
            try:
                _, executable, _, missing, _ = cov.analysis2(full)
            except Exception as e:
                lines_out.append('%s: no coverage data (%r)' % (path, e))
                continue
            executable, missing = set(executable), set(missing)
            src = open(full).read().split('\n')
            cur = {n: (f, l) for n, f, l in spans('\n'.join(src))}
            for name in sorted(names):
                if name not in cur:
                    lines_out.append('%s: %s no longer exists' % (path, name))
                    continue
                f, l = cur[name]
                ex = [x for x in range(f, l + 1) if x in executable]
                ms = [x for x in ex if x in missing]
                # nested defs are listed on their own
                tot += len(ex)
                miss += len(ms)
                if ms:
                    lines_out.append('%s: %s  %d of %d executable lines never run' % (path, name, len(ms), len(ex)))
                    for x in ms:
                        lines_out.append('      %5d  %s' % (x, src[x - 1].rstrip()[:150]))
        open(os.path.join(HOME, 'anchorcov', pid + '.txt'), 'w').write('\n'.join(lines_out) + '\n')
        print('%s: %d anchored functions in %d files, %d executable lines, %d never executed by the quick workload (rc=%d)' % (
            pid, sum(len(v) for v in funcs.values()), len(funcs), tot, miss, r.returncode), flush=True)


if __name__ == '__main__':
    main()
