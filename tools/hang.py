import time, sys, faulthandler
faulthandler.dump_traceback_later(int(sys.argv[2]) if len(sys.argv)>2 else 25, exit=True)
import importlib
from vmon.core import Ctx
from vmon.cli import PROPS
p=sys.argv[1]
m=importlib.import_module('vmon.props.'+PROPS[p])
ctx=Ctx(p)
if hasattr(m,'setup'): m.setup(ctx)
t=time.time()
m.run(ctx)
print('done', time.time()-t, ctx.ncases)
