import json, importlib, sys, os
sys.path.insert(0, '/verif'); sys.path.insert(0,'/repo')
from vmon.cli import PROPS
for p, m in sorted(PROPS.items()):
    f='/verif/evidence/%s.json'%p
    if not os.path.exists(f): continue
    try: mod=importlib.import_module('vmon.props.'+m)
    except Exception as e: continue
    e=json.load(open(f)); tier=e['tier']
    for mon, fl in getattr(mod,'MIN_EVALS',{}).items():
        have=e['coverage']['monitors'].get(mon,{}).get('evals',0)
        flo=fl[tier] if isinstance(fl,dict) else fl
        flag = '  <-- TIGHT' if have < 1.6*flo else ''
        print(p, tier, mon, have, flo, flag)
