"""tools/subst2.py -- exact (sub-line) text replacement with an occurrence check"""
def rep(path, old, new, count=1):
    s = open(path).read()
    assert s.count(old) == count, (path, old[:80], s.count(old))
    open(path, 'w').write(s.replace(old, new))
