#!/usr/bin/env python3
"""tools/reseed.py [id ...]   -- re-verify kept seeded changes against the CURRENT /repo HEAD and the CURRENT checks.
For every /verif/seeded/<id>/ (or the ids given): scratch worktree of /repo HEAD, apply patch_ported.diff (if present) or
patch.diff, 228 tests, demo fails with / passes without, quick checks of the properties recorded in meta.json against the
patched worktree (VERIF_REPO).  Updates meta.json in place and prints one line per change; exit 1 if any kept change is
no longer caught by any check (or no longer applies / is no longer confirmed)."""
import json, os, subprocess, sys
from concurrent.futures import ThreadPoolExecutor

ROOT = '/verif/seeded'


def sh(cmd, **kw):
    return subprocess.run(cmd, shell=True, capture_output=True, text=True, **kw)


def one(sid):
    d = os.path.join(ROOT, sid)
    meta = json.load(open(os.path.join(d, 'meta.json')))
    patch = os.path.join(d, 'patch_ported.diff') if os.path.exists(os.path.join(d, 'patch_ported.diff')) else os.path.join(d, 'patch.diff')
    wt = '/tmp/reseed_' + sid
    sh('git -C /repo worktree remove --force %s' % wt)
    r = sh('git -C /repo worktree add --detach %s HEAD' % wt)
    if r.returncode != 0:
        return sid, 'WORKTREE-FAILED', r.stderr[:200]
    try:
        r = sh('git -C %s apply %s' % (wt, patch))
        if r.returncode != 0:
            meta['recheck'] = dict(repo_head=sh('git -C /repo rev-parse --short HEAD').stdout.strip(), applies=False)
            json.dump(meta, open(os.path.join(d, 'meta.json'), 'w'), indent=1)
            return sid, 'DOES-NOT-APPLY', r.stderr[:200].replace('\n', ' ')
        t = sh('/verif/tools/rtests.sh %s' % wt).stdout.strip().split('\n')[-1]
        env = dict(os.environ, PYTHONPATH=wt, MPLBACKEND='Agg')
        d1 = subprocess.run(['/venv/bin/python', '-W', 'ignore', os.path.join(d, 'demo.py')], cwd=wt, env=env, capture_output=True, text=True, timeout=900)
        checks = sorted(set([meta['breaks_property']] + list(meta.get('checks_run', {}).keys())))
        caught = {}
        for c in checks:
            if CLEAN.get(c, 0) != 0:
                caught[c] = 'unchanged tree rc=%d' % CLEAN[c]       # (not silent on the unchanged tree: decides nothing)
                continue
            o = sh('cd %s && VERIF_REPO=%s ./check %s --tier quick' % (os.environ.get('RESEED_HOME', '/verif'), wt, c))      # (RESEED_HOME: a copy of /verif, so that evidence/ of /verif is not overwritten by runs against seeded trees)
            caught[c] = o.returncode
        sh('git -C %s checkout -- .' % wt)
        d0 = subprocess.run(['/venv/bin/python', '-W', 'ignore', os.path.join(d, 'demo.py')], cwd=wt, env=env, capture_output=True, text=True, timeout=900)
    finally:
        sh('git -C /repo worktree remove --force %s' % wt)
    confirmed = '228 passed' in t and d1.returncode != 0 and d0.returncode == 0
    by = [c for c, rc in caught.items() if rc == 1]
    meta['recheck'] = dict(repo_head=sh('git -C /repo rev-parse --short HEAD').stdout.strip(), applies=True, tests_with_patch=t, demo_with_patch_exit=d1.returncode,
                           demo_without_patch_exit=d0.returncode, confirmed=confirmed, check_exit_codes=caught, caught_by=by)
    if confirmed:
        meta['caught_by'] = by
    json.dump(meta, open(os.path.join(d, 'meta.json'), 'w'), indent=1)
    return sid, ('ok' if confirmed and by else 'NOT-CONFIRMED' if not confirmed else 'MISSED'), 'caught_by=%s tests=%s demo=%d/%d' % (by, t[:12], d1.returncode, d0.returncode)


ids = sys.argv[1:] or sorted(x for x in os.listdir(ROOT) if os.path.exists(os.path.join(ROOT, x, 'meta.json')))
# the checks involved must be silent on the unchanged tree first (cached per check, /repo HEAD and vmon sources)
sys.path.insert(0, os.path.dirname(os.path.abspath(__file__)))
from cleanrc import clean_rc
needed = set()
for sid_ in ids:
    m_ = json.load(open(os.path.join(ROOT, sid_, 'meta.json')))
    needed |= set([m_['breaks_property']] + list(m_.get('checks_run', {}).keys()))
CLEAN = {c: clean_rc(c, os.environ.get('RESEED_HOME', '/verif')) for c in sorted(needed)}
for c, rc_ in CLEAN.items():
    if rc_ != 0:
        print('check %s exits %d on the unchanged tree: not used' % (c, rc_), flush=True)
bad = 0
with ThreadPoolExecutor(max_workers=int(os.environ.get("RESEED_WORKERS", "4"))) as ex:
    for sid, status, info in ex.map(one, ids):
        print('%-8s %-15s %s' % (sid, status, info), flush=True)
        bad += status != 'ok'
print('%d seeded changes re-verified, %d need attention' % (len(ids), bad))
sys.exit(1 if bad else 0)
