"""tools/subst.py -- whitespace-tolerant (trailing) block substitution used for /repo fix commits"""
import subprocess
def sub(path, old, new, count=1):
    lines = open(path).read().split('\n')
    o = [l.rstrip() for l in old.split('\n')]
    hits = [i for i in range(len(lines) - len(o) + 1) if [l.rstrip() for l in lines[i:i + len(o)]] == o]
    assert len(hits) == count, (path, old[:80], len(hits))
    for i in reversed(hits):
        lines[i:i + len(o)] = new.split('\n')
    open(path, 'w').write('\n'.join(lines))
def commit(m, repo='/repo'):
    subprocess.run(['git', '-C', repo, 'commit', '-qam', m], check=True)
