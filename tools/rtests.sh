#!/bin/bash
# repository test-suite (4 always-failing tests deselected): 228 must pass
R=${1:-/repo}
cd $R && PYTHONPATH=$R MPLBACKEND=Agg /venv/bin/python -W ignore -m pytest -q -p no:cacheprovider --timeout=120 tests --deselect tests/base/test_symbolic.py::Test_symbolic::test_constants --deselect tests/base/test_symbolic.py::Test_symbolic::test_functions --deselect tests/base/test_transforms3d.py::Test3D::test_plot --deselect tests/test_pose2d.py::TestSE2::test_graphics 2>&1 | tail -2
