"""tools/mkprompts.py <round-dir> <round-number>
Write one sub-agent prompt per property into <round-dir>/prompts_<id>.txt.  The prompt contains only the text of the property
(title, statement, quantifier, code anchors) and the working rules; nothing from /verif.  Worktrees are created separately:
   git -C /repo worktree add --detach <round-dir>/<id> HEAD
"""
import json
import sys

root, rnd = sys.argv[1], int(sys.argv[2])
TESTS = ("cd {wt} && PYTHONPATH={wt} MPLBACKEND=Agg /venv/bin/python -W ignore -m pytest -q -p no:cacheprovider --timeout=120 tests "
         "--deselect tests/base/test_symbolic.py::Test_symbolic::test_constants --deselect tests/base/test_symbolic.py::Test_symbolic::test_functions "
         "--deselect tests/base/test_transforms3d.py::Test3D::test_plot --deselect tests/test_pose2d.py::TestSE2::test_graphics")
ROUND_TEXT = {
    3: ("This is a THIRD round.  Earlier rounds already produced: one-line slips in the main base function named in the anchors; "
        "option-threading slips (unit / order / check / shortest dropped on one path); slips confined to the multi-valued (sequence) "
        "branch of a method; in-place edits of a caller's array that only show on re-use; integer-dtype result buffers; a threshold "
        "compared against the wrong quantity.  Look somewhere different again, for example: state carried inside an object between two "
        "calls (caches, shared default values, views of internal storage handed out and later written); a rarely used but documented "
        "call form or operand order (right-hand operand, reflected operator, augmented assignment, 2D counterpart of a 3D function, "
        "quaternion / twist / dual-quaternion wrapper rather than the matrix function); a numerically subtle change that is only wrong "
        "in a band of inputs (replacing a stable formula by an unstable one near a boundary of the quantifier, loss of accuracy at the "
        "largest or smallest magnitudes the property allows) rather than wrong everywhere; an error path (an exception that is no "
        "longer raised, or an object left modified after a rejected operation); a conversion between two classes that is only wrong for "
        "one hemisphere / sign / handedness; two cooperating edits that are each harmless alone."),
    4: ("This is a FOURTH round.  Earlier rounds already produced: slips in the main base functions and in their option threading; "
        "slips confined to sequence (multi-valued) branches; in-place edits of caller arrays and of an object's own storage through "
        "augmented operators; integer-dtype buffers; thresholds compared with the wrong quantity; caches and memoised values that are "
        "never invalidated; module-level or default-argument arrays shared between results; numerically unstable reformulations near "
        "a half turn, near the identity and for small triangles far from the origin; dropped range / length / class checks.  Find "
        "something those do not cover.  Ideas: a change that is only wrong for a particular COMBINATION of two documented features "
        "(e.g. a unit option together with a sequence argument together with a non-default order); a change in a helper that only "
        "one rarely exercised caller depends on; a result that is right in value but wrong in class, length, shape or dtype in one "
        "branch; a change in exception behaviour (wrong exception type where the property names one, or an exception swallowed and "
        "replaced by a default value); a change that makes two routes that the property says must agree drift apart by slightly more "
        "than the stated tolerance only at the extremes of the stated input range; an off-by-one in an index or slice helper; "
        "something order-dependent (the answer depends on what was called before)."),
    5: ("This is a FIFTH round.  Earlier rounds already produced: slips in base functions, option threading, sequence branches, in-place "
        "edits, dtype buffers, thresholds, caches, shared module-level or default-argument arrays, unstable reformulations, dropped "
        "checks, augmented operators writing into shared storage, wrong class / length / shape in one branch, swallowed exceptions, "
        "stateful iterators, print-option side effects, call-form combinations (unit + sequence + order; t= as ndarray; integer "
        "counts).  Find something those do not cover.  Ideas: arguments that are legal but unusual as OBJECTS -- read-only arrays "
        "(flags.writeable = False), non-contiguous or transposed views, Fortran-ordered arrays, 0-d arrays and NumPy scalars, "
        "Python ints / bools / fractions where floats are usual, nested tuples, generators, a user subclass of a library class; "
        "objects that went through copy.copy / copy.deepcopy / pickle; very long sequences (N = 1000) that take a different "
        "(vectorised or chunked) path; keyword versus positional spelling of the same call; a conversion chain through three "
        "classes (A -> B -> C versus A -> C); behaviour that depends on the ORDER of elements in a sequence or on an element being "
        "repeated (the same object twice in a list); negative zero and denormal values inside the stated range."),
    7: ("This is a SEVENTH round.  Earlier rounds already produced slips in the main lines and in the rarely reached arms of the "
        "anchored functions (options, multi-valued arms, symbolic arms, thresholds, error arms), in-place edits, caches, shared "
        "arrays, dtype handling, unusual argument objects, truthy flags, repeated values, same-object operands, copies, negative "
        "zero, narrow element types.  Find something those do not cover.  Directions that have hardly been used: (1) ACCURACY -- "
        "replace a formula by an algebraically equal one that loses digits only in a band of the stated input range (near but "
        "not at a boundary, at the largest or smallest magnitudes, for particular axis directions, after many compositions), so "
        "that the result stays within the tolerance of the existing tests but leaves the tolerance the property states; "
        "(2) ORDER AND HISTORY -- a result that depends on what was called before (memoisation keyed on id() or on a rounded "
        "value, a module-level scratch buffer, a class attribute used as a default, NumPy error-state / print-option / random-"
        "state changes that leak out of a function); (3) INTERPLAY -- two public functions that are each still correct but no "
        "longer agree with one another in the way the property demands (a convention changed consistently inside one route "
        "only: sign, hemisphere, axis order, frame, units); (4) PARTIAL APPLICATION -- a change that is right for the rotation "
        "part and wrong for the translation part, right for the scalar part and wrong for the vector part, right for the "
        "first and wrong for a later value of a sequence, right in 3D and wrong in 2D; (5) the exception contract -- the "
        "property says 'raises' or names an exception type: make it return, or raise another type, for one class of inputs."),
    8: ("This is an EIGHTH round.  Earlier rounds already produced slips in the main lines and in the rarely reached arms of the "
        "anchored functions, option threading, sequence arms, in-place edits, caches and history dependence (id()-keyed memos, "
        "module-level buffers, leaked NumPy state), dtype and element-type handling, unusual argument objects, accuracy bands, "
        "hemisphere / convention mismatches between two routes, partial application (rotation vs translation, 3D vs 2D), and "
        "exception contracts.  Find something those do not cover.  Suggestions: (1) SHORTCUTS FOR DEGENERATE BUT LEGAL INPUTS -- "
        "an early return or fast path for identity rotation, zero translation, theta = 0, s = 0 or 1, n = 0 or +-1, unit scale, "
        "an axis-aligned direction, a sequence of length 1, an empty (length-0) object, equal operands -- that returns the "
        "wrong class / shape / length / sign / an alias of its argument, or skips a check the property requires; "
        "(2) the LEAST VISITED parts named by the anchors: the 2D family (SO2, SE2, Twist2, trot2 / trexp2 / trlog2 / trinterp2), "
        "DualQuaternion / UnitDualQuaternion, Plane, SpatialInertia, the Rand / Alloc / Empty constructors and their arguments; "
        "(3) the NUMPY PROTOCOL -- what happens when library objects meet NumPy functions or containers (np.array(obj), obj in a "
        "list passed to np.stack, comparison results used as masks, broadcasting of an (N,1) against (N,)), where a refactor to "
        "'vectorise' silently changes shape or pairing; (4) a change that is only wrong for a multi-valued object whose values "
        "are NOT all of the same kind (one identity among rotations, one prismatic among revolute twists, one pure among general "
        "quaternions); (5) off-by-one and boundary slips in comparisons (< vs <=, >= vs >) exactly at a documented boundary value."),
    9: ("This is a NINTH round.  Earlier rounds already produced slips in the main lines and rarely reached arms of the anchored "
        "functions, option values, caches / history, dtype and argument-object handling, accuracy bands, route mismatches, partial "
        "application, exception contracts, shortcuts for degenerate inputs, objects holding values of mixed kinds, results that share "
        "state with their operands, and boundary comparisons.  Find something those do not cover.  Suggestions: (1) OPTION FORWARDING "
        "THROUGH WRAPPERS -- a class method or constructor that forwards to a base function and drops, renames, re-defaults or "
        "mis-orders one keyword, or applies it twice; (2) OPERATOR VARIANTS -- the augmented or reflected form of an operator "
        "diverging from the plain form; (3) POSITION IN A SEQUENCE -- right for one or two values, wrong for the last / first of "
        "three or more; (4) SYMMETRY COUNTERPARTS -- right for the documented examples, wrong for their mirror image; (5) THE RESULT "
        "CONTRACT -- container, shape or element type of a result changing for some input; (6) ERROR PATHS -- an operation that "
        "raises but has already changed its receiver, or an exception caught too broadly.  (Reconstructed summary of the text used.)"),
    10: ("This is a TENTH round, organised differently: work CLAUSE BY CLAUSE.  First split the STATEMENT into its individual "
         "clauses (every 'and', every item of an enumeration, every parenthesis, every tolerance, every 'including ...' of the "
         "quantifier is a clause of its own) and write the list to clauses.md in your worktree.  For each clause note which public "
         "functions / methods / options it speaks about.  Then choose the TWO clauses that you judge LEAST likely to be exercised by "
         "a generic randomised check of the property -- the ones in the fine print: a secondary accessor, the second half of a "
         "sentence, a parenthetical special case, a 'keeps ...' or 'agrees with ...' side condition, the behaviour of the less common "
         "of two spellings -- and make one mutant against each, such that every OTHER clause of the statement still holds with the "
         "mutant applied (verify this in your demo: it must check the other clauses too and show that only the targeted clause "
         "fails).  Earlier rounds already covered: rarely reached arms, option values and option forwarding, caches / history, dtype "
         "and argument-object handling, accuracy bands, route mismatches, exception contracts, shortcuts for degenerate inputs, "
         "objects holding values of mixed kinds, shared state between results and operands, augmented / reflected operators, "
         "position in a sequence, symmetry counterparts."),
    11: ("This is an ELEVENTH round.  Assume that a strong randomised differential checker of this property already exists: it "
         "draws every kind of argument the statement names (all classes, call forms, container forms, element types, options, "
         "special angles, axis-aligned and nearly-unit axes, zero and tiny translations, objects holding 1..5 values of mixed "
         "kinds, sequences of 2..40 values under prod), compares with an independent high-precision reference, and re-examines "
         "operands and earlier results after every step.  Find what such a checker still cannot see.  Suggestions: (1) THRESHOLDS IN "
         "SIZE OR COUNT -- code that changes algorithm for an object holding many values (N >= 8, 16, 64, 1000: chunking, "
         "vectorised batch path, periodic renormalisation, a preallocated buffer of fixed size), for a long vector of s / theta / "
         "points (N >= 100), or after the k-th call; (2) THRESHOLDS IN MAGNITUDE chosen so that both sides of the switch look right "
         "in isolation but the switch point itself or a thin band next to it is wrong by more than the stated tolerance (series "
         "below a small angle, a different formula above a large translation, a relative test that should be absolute or vice "
         "versa); (3) EXACT COINCIDENCES -- two equal values in one sequence, the same value at both ends, a sorted or constant "
         "vector of s, an angle that is an exact multiple of pi/2 in degrees (90, 180, 270, 360, -90), integer-valued floats, "
         "operands that are exact inverses of each other; (4) COMBINATIONS OF TWO OPTIONS that are each handled correctly alone "
         "(unit='deg' with order='xyz', flip with deg, check=False with a list form, shortest with a vector s, samebody with a "
         "translation) ; (5) the SECOND of two results returned together (a tuple's second item, the lam of a (p, lam) pair, the "
         "theta of (twist, theta), the axis of (angle, axis)) being wrong while the first is right."),
    12: ("This is a TWELFTH round.  Assume that a very strong randomised differential checker of this property already exists.  It "
         "draws every kind of argument the statement names: all classes, call forms, container forms (list, tuple, 1-D, row, column, "
         "frozen / strided / Fortran arrays), element types (int8 .. int64, unsigned, float16 / 32 / 64, bool, object), options and "
         "pairs of options, both units with exact whole degrees, special angles with offsets drawn continuously between 1e-12 and "
         "1e-1 on either side, axis-aligned / nearly-unit / tiny axes, zero, negative-zero and 1e-20 translations, nearly equal "
         "operands.  Objects hold 0, 1..5, 8, 9, 16, 17, 32, 33, 64, 65 or 100 values of mixed kinds (identity, pure translation, "
         "exact half turn, prismatic ...) with repeated values among them; vectors of s / theta / points have up to 1000 elements, "
         "sorted, constant, evenly and nearly evenly spaced.  Every result is compared with an independent high-precision "
         "reference; operands, receivers and all earlier results are re-examined bit for bit after every step, including after "
         "later list mutations of any object involved; every accessor is evaluated again after the object was changed in place and "
         "compared with a fresh object of the same values; every call is made twice, also in a second interpreter started with -O.  "
         "Find what such a checker STILL cannot see, and say in your README why.  Directions that may help: behaviour that depends on "
         "the IDENTITY or exact Python TYPE of something the checker treats as a value (a Python int or bool where it passes a float, "
         "an int exponent given as np.int8, a range object where a list of ints is documented); ENVIRONMENT the user may legitimately "
         "have set (the warnings filter set to 'error', np.seterr(all='raise'), numpy print options) under which a correct call "
         "must still return the same value; PICKLING / copy.deepcopy of results and "
         "continuing to compute with the copies; VERY LONG chains of one cheap operation (10 000 appends, 10 000 in-place products) "
         "where something grows or drifts; results whose dtype, memory order or writability differs from the usual one so that a "
         "later NumPy call by the USER (np.linalg.inv, np.sum(axis=...), in-place +=) goes wrong."),
    13: ("This is a THIRTEENTH round.  Assume that a very strong randomised differential checker of this property already exists.  It "
         "draws every kind of argument the statement names: all classes, call forms, container forms (list, tuple, namedtuple, 1-D, "
         "row, column, frozen / strided / Fortran arrays), element types (int8 .. int64, unsigned, float16 / 32 / 64, bool, object), "
         "scalars as Python / NumPy numbers of every width, on / off options as True / 1 / numpy.True_, options and pairs of options, "
         "both units, special angles with offsets drawn continuously between 1e-12 and 1e-1 on either side, exact signed permutation "
         "matrices, axis-aligned / nearly-unit / tiny axes, zero, negative-zero and 1e-20 translations, nearly equal operands, values "
         "inside one object that differ only in the 9th decimal.  Objects hold 0, 1..5, 8..100, 127..129, 255..257, 300 and 2000..2500 "
         "values of mixed kinds; vectors of s / theta / points have up to 1000 elements.  Every result is compared with an independent "
         "high-precision reference; operands, receivers and all earlier results are re-examined bit for bit (flags included) after "
         "every step and after later list mutations; results are written into by the caller and the call is repeated (a shared "
         "constant handed out as a result is seen); calls are made from four threads at once; every accessor is evaluated again "
         "after the object was changed in place, after an array that was accepted once was refilled, and on an object that reached "
         "the same values through another history; symbolic and numeric calls are interleaved; every call is made twice, also under "
         "python -O, also under non-default NumPy print options.  NOT wanted (declared out of scope): anything that shows only under "
         "np.seterr(...='raise') or with warnings turned into errors; results that are views of the receiver's own storage; user "
         "subclasses of the library's classes; NaN / inf inputs; drift below 1e-10 after 10 000 operations.  Find what such a checker "
         "STILL cannot see, and say in your README why.  Directions that may help: a slip that needs TWO rare things at once that the "
         "checker draws independently (a particular option together with a particular kind of value together with a particular "
         "container); dependence on a value PATTERN rather than a value kind (all elements equal, a symmetric matrix, a sorted or "
         "palindromic sequence, an integer-valued float, components in a fixed ratio, a vector orthogonal or parallel to another "
         "argument); thresholds in a derived quantity the checker does not sample densely (a product or ratio of two arguments, the "
         "angle BETWEEN two arguments, the distance between two lines, t.w of a twist); the error contract (which exception, and that "
         "the object is unchanged after a refused mutation); results that are right but of another documented type or length in "
         "one arm; the interplay of two methods of one object called in a particular order."),
    14: ("This is a FOURTEENTH round.  Assume the very strong randomised differential checker of this property described here.  It "
         "draws every kind of argument the statement names: all classes, call forms, container forms (list, tuple, namedtuple, 1-D, row, "
         "column, frozen / strided / Fortran arrays), element types (int8 .. int64, unsigned, float16 / 32 / 64, bool, object), scalars "
         "as Python / NumPy numbers of every width, on / off options as True / 1 / numpy.True_, options alone and in pairs (also a unit "
         "without an angle, an unknown order / unit together with all-zero arguments), every pattern of exact zeros among scalar "
         "arguments, special angles with continuous offsets of 1e-14 .. 1e-1 in ONE OR TWO slots at once, exact signed permutation "
         "matrices (also with entries 1 + 2 ulp), vectors nearly parallel / nearly perpendicular (1e-12 .. 1e-6) to another argument, "
         "operands related to each other (coaxial, parallel, mirrored twists; parallel lines of either sense; lines meeting at "
         "1e-5 rad), everything at the small end of the range at once.  Objects hold 0..7, 8..100, 127..129, 255..257, 300 and "
         "2000..10000 values, including the four unit quaternions 1, i, j, k and values that differ in the 9th decimal.  == and != are "
         "probed exactly at the library's own equality threshold (found by bisection) in every sequence form and operand order.  "
         "Every result is compared with an independent high-precision reference; operands, receivers and earlier results are "
         "re-examined bit for bit (flags included) after every step; results are written into and the call repeated; calls run from "
         "four threads; loops mutate the object they iterate over; symbolic, numeric and mixed symbolic / numeric operands are "
         "interleaved; every call is made twice, under python -O, and under non-default NumPy print options.  NOT wanted (out of "
         "scope): anything that shows only under np.seterr(...='raise') or warnings-as-errors; results that are views of the "
         "receiver's storage; user subclasses; NaN / inf; drift below 1e-10; magnitudes outside the ranges the QUANTIFIER states.  "
         "Find what such a checker STILL cannot see, and say in your README why it cannot.  Prefer a slip in ordinary, frequently "
         "used behaviour that is wrong only for a narrow but realistic class of inputs over an exotic argument type."),
}

HUNT_TEXT = '''ALSO, BEFORE the mutants (about a third of your effort): hunt for inputs for which the UNMODIFIED tree already violates the property.  Read the statement and the quantifier literally and probe its corners systematically with small scripts: every class and call form it names, the extremes of the stated ranges, exact special values, multi-valued objects, every option value, both units, documented aliases, sequences of operations on one object.  Write what you find to {wt}/bughunt.md: for each violation a two-line reproduction, the value obtained and the value the property requires; if you find none, list briefly what you covered.  Do not fix anything.

'''

for line in open('/verif/properties.jsonl'):
    d = json.loads(line)
    pid = d['id']
    wt = '%s/%s' % (root, pid)
    anchors = '; '.join('%s @ %s' % (m['name'], m['where']) for m in d['anchors']['mechanism'])
    HUNT = HUNT_TEXT.format(wt=wt) if rnd >= 4 else ""
    txt = f"""You are working in your own scratch git worktree of the pure-Python library petercorke/spatialmath-python at {wt} (nothing else: do not read or write /repo or /verif or any other directory under /tmp, and do not look for any verification tooling).  Interpreter: /venv/bin/python.  Always run with `PYTHONPATH={wt}` from inside {wt} so that the worktree copy is imported (check `spatialmath.__file__` once).  Use `-W ignore` to silence SyntaxWarnings.

Here is a semantic property that the library is supposed to satisfy:

TITLE: {d['title']}

STATEMENT: {d['statement']}

QUANTIFIED OVER: {d['quantifier']['text']}

CODE ANCHORS (where the mechanisms live): {anchors}

YOUR TASK: produce TWO independent, realistic changes ("mutants") to the library source, each of which BREAKS this property while the package still imports and the existing test suite still passes.  Each change must be the kind of slip a maintainer could plausibly make (a refactor, an optimisation, a 'simplification', a sign/ordering/threshold/option-handling slip, an in-place shortcut...), not sabotage such as `if x == 0.123`.  Each should need something specific in order to manifest -- an unusual input, a particular option value or combination, a particular container form, a multi-valued object, a multi-step sequence of operations, or two cooperating sites that each look fine alone -- rather than something ordinary use would expose at once.  The two mutants must touch different mechanisms / functions.  {ROUND_TEXT[rnd]}

Important facts:
* Your demonstration must PASS on the unmodified tree, so build on behaviour that currently works (check first!).
* If, while exploring, you notice that the UNMODIFIED tree already violates the property for some input (a pre-existing bug), do not build on it, but list it in your final report with a two-line reproduction: that is valuable too.
* Test-suite command (takes ~6 s; 228 must pass, exactly as on the unmodified tree):
  {TESTS.format(wt=wt)}
* Do not edit anything under tests/.  Do not commit.

DELIVERABLES, for k = 1, 2, in {wt}/mutant<k>/ :
  - patch.diff : output of `git diff -- spatialmath` containing ONLY the library change for this mutant (it must apply with `git apply` to a clean checkout of this worktree's HEAD)
  - demo.py    : a small stand-alone program that exits 0 and prints PASS when the property holds for its inputs, and exits 1 printing FAIL plus the offending values when it does not.  It must PASS on the clean tree and FAIL with patch.diff applied.
  - README.md  : 5-10 lines: what the change is, which part of the property it breaks, and what exactly is needed for it to manifest (inputs / options / sequence), and why the existing tests do not notice.
Procedure for each mutant: start from a clean tree (`git checkout -- spatialmath`), make the change, run the test suite (must be 228 passed), run demo.py (must FAIL), save the patch, `git checkout -- spatialmath`, run demo.py again (must PASS).  Leave the worktree clean (only the untracked mutant1/ mutant2/ directories) when finished.

{HUNT}Finish with a short report: for each mutant one paragraph (file/function changed, what it needs to manifest, the test-suite result line, demo result with and without the patch), then the list of pre-existing bugs you noticed (or "none").
"""
    open('%s/prompts_%s.txt' % (root, pid), 'w').write(txt)
print('prompts written to', root)
