"""tools/addfinding.py <replay.json | -> <finding-id> <commit> <what...>
Append a status=fixed entry to known_findings.json whose witness is the case of a replay file written by a check
('-' reads {"kind":..., "params":...} from stdin). The file is only ever edited by this tool / by hand, never by a check.
A "fixed: property=<id> <commit> <what>" line is kept in the entry as 'line'.
"""
import json
import sys

src, fid, commit = sys.argv[1:4]
what = ' '.join(sys.argv[4:])
rep = json.load(sys.stdin if src == '-' else open(src))
case = rep.get('case', rep)
prop = rep.get('property') or fid.split('-')[1]
path = '/verif/known_findings.json'
d = json.load(open(path))
assert all(f['id'] != fid for f in d['findings']), 'duplicate id'
entry = dict(id=fid, property=prop, status='fixed', commit=commit, what=what,
             line='fixed: property=%s %s %s' % (prop, commit, what),
             witness=dict(kind=case['kind'], params=case['params']))
if rep.get('config') == 'python -O':
    entry['config'] = 'python -O'      # the witness is replayed in an interpreter started with -O
d['findings'].append(entry)
json.dump(d, open(path, 'w'), indent=1)
print('added', fid, prop, commit)
