#!/usr/bin/env python3
"""tools/keepmut.py Cxx k [--patch file] [--checks C01,C02]
Verify a property-breaking change in a scratch worktree of /repo (applies, test-suite still passes, its
demonstration fails with it and passes without it), run the quick checks against it in /repo itself
(apply, check, undo) and record everything under /verif/seeded/<id>/."""
import json, os, shutil, subprocess, sys, argparse
ap = argparse.ArgumentParser()
ap.add_argument('prop'); ap.add_argument('k'); ap.add_argument('--patch'); ap.add_argument('--checks'); ap.add_argument('--src')
a = ap.parse_args()
src = a.src or '/tmp/mut/%s/mutant%s' % (a.prop, a.k)
patch = a.patch or (os.path.join(src, 'patch_ported.diff') if os.path.exists(os.path.join(src, 'patch_ported.diff')) else os.path.join(src, 'patch.diff'))
sid = '%s-m%s' % (a.prop, a.k)
wt = '/tmp/scratch_' + sid
def sh(cmd, **kw):
    return subprocess.run(cmd, shell=True, capture_output=True, text=True, **kw)
sh('git -C /repo worktree remove --force %s' % wt)
r = sh('git -C /repo worktree add --detach %s HEAD' % wt)
assert r.returncode == 0, r.stderr
meta = dict(id=sid, breaks_property=a.prop, patch_source=os.path.basename(patch), repo_head=sh('git -C /repo rev-parse --short HEAD').stdout.strip())
try:
    r = sh('git -C %s apply %s' % (wt, patch))
    meta['applies'] = r.returncode == 0
    if r.returncode != 0:
        print(sid, 'PATCH DOES NOT APPLY', r.stderr[:300]); sys.exit(3)
    t = sh('/verif/tools/rtests.sh %s' % wt)
    meta['tests_with_patch'] = t.stdout.strip().split('\n')[-1]
    env = dict(os.environ, PYTHONPATH=wt, MPLBACKEND='Agg')
    d1 = subprocess.run(['/venv/bin/python', '-W', 'ignore', os.path.join(src, 'demo.py')], cwd=wt, env=env, capture_output=True, text=True, timeout=600)
    meta['demo_with_patch_exit'] = d1.returncode
    meta['demo_with_patch_tail'] = (d1.stdout + d1.stderr)[-400:]
    # our checks against the patched scratch tree (VERIF_REPO), /repo itself is not touched
    checks = (a.checks.split(',') if a.checks else [a.prop])
    caught = {}
    sys.path.insert(0, os.path.dirname(os.path.abspath(__file__)))
    from cleanrc import clean_rc
    for c in checks:
        crc = clean_rc(c, os.environ.get('KEEPMUT_HOME', '/verif'))
        if crc != 0:
            print(sid, 'REFUSED: check %s exits %d on the unchanged tree; its verdict on a seeded tree would mean nothing' % (c, crc)); sys.exit(4)
        o = sh('cd %s && VERIF_REPO=%s ./check %s --tier quick' % (os.environ.get('KEEPMUT_HOME', '/verif'), wt, c))
        sigs = [l.strip()[4:] for l in o.stdout.split('\n') if l.strip().startswith('sig=')]
        caught[c] = dict(exit=o.returncode, violations=o.stdout.count('\nVIOLATION') + (1 if o.stdout.startswith('VIOLATION') else 0), first_signatures=sigs[:3])
    sh('git -C %s checkout -- .' % wt)
    d0 = subprocess.run(['/venv/bin/python', '-W', 'ignore', os.path.join(src, 'demo.py')], cwd=wt, env=env, capture_output=True, text=True, timeout=600)
    meta['demo_without_patch_exit'] = d0.returncode
    meta['demo_without_patch_tail'] = (d0.stdout + d0.stderr)[-300:]
finally:
    sh('git -C /repo worktree remove --force %s' % wt)
ok = '228 passed' in meta['tests_with_patch'] and meta['demo_with_patch_exit'] != 0 and meta['demo_without_patch_exit'] == 0
meta['confirmed'] = ok
meta['checks_run'] = caught
meta['caught_by'] = [c for c, v in caught.items() if v['exit'] == 1]
readme = open(os.path.join(src, 'README.md')).read() if os.path.exists(os.path.join(src, 'README.md')) else ''
meta['needs_to_manifest'] = readme[:1500]
meta['what_was_run'] = ['git worktree add (scratch, /repo HEAD)', 'git apply patch.diff', 'tools/rtests.sh <worktree> (228 tests)',
                        'demo.py with and without the patch (PYTHONPATH=<worktree>)', 'VERIF_REPO=<patched worktree> ./check <ids> --tier quick (the checks import the patched tree; /repo untouched)']
dst = '/verif/seeded/' + sid
if ok:
    os.makedirs(dst, exist_ok=True)
    shutil.copy(patch, os.path.join(dst, 'patch.diff'))
    shutil.copy(os.path.join(src, 'demo.py'), os.path.join(dst, 'demo.py'))
    if readme:
        open(os.path.join(dst, 'README.md'), 'w').write(readme)
    json.dump(meta, open(os.path.join(dst, 'meta.json'), 'w'), indent=1)
print(sid, 'confirmed' if ok else 'NOT CONFIRMED', meta['tests_with_patch'][:40], 'demo', meta['demo_with_patch_exit'], meta['demo_without_patch_exit'], 'caught_by', meta['caught_by'])
if not ok:
    print('   ', meta.get('demo_without_patch_tail', '')[-300:].replace('\n', ' | '))
