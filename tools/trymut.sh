#!/bin/bash
# tools/trymut.sh <patch.diff> <prop> [prop...]   -- apply to /repo, run quick checks, undo.
P="$1"; shift
cd /verif
git -C /repo apply "$P" || { echo "PATCH DOES NOT APPLY: $P"; exit 3; }
for c in "$@"; do
  out=$(./check $c --tier quick 2>&1); rc=$?
  echo "== $c rc=$rc  $(echo "$out" | grep -c '^VIOLATION') violations"
  echo "$out" | grep -A2 '^VIOLATION' | head -${LINES_SHOWN:-9} | cut -c1-260
done
git -C /repo checkout -- .
