#!/usr/bin/env python3
"""tools/anchorcov_union.py -- lines of ANY anchored function that no check's quick workload executes (needs the data files
left by tools/anchorcov.py in /tmp/anchorcov_Cxx.dat)."""
import json, os, sys, glob
sys.path.insert(0, os.path.dirname(os.path.abspath(__file__)))
import warnings; warnings.simplefilter('ignore')
import coverage
from anchorcov import anchored_functions, spans, HOME, REPO
funcs = {}
owners = {}
for line in open(os.path.join(HOME, 'properties.jsonl')):
    d = json.loads(line)
    for m in d['anchors']['mechanism']:
        for path, names in anchored_functions(m['where']).items():
            funcs.setdefault(path, set()).update(names)
            for n in names:
                owners.setdefault((path, n), set()).add(d['id'])
executed = {}
for f in sorted(glob.glob('/tmp/anchorcov_C*.dat')):
    cov = coverage.Coverage(data_file=f); cov.load()
    data = cov.get_data()
    for path in funcs:
        full = os.path.join(REPO, path)
        ls = data.lines(full) or []
        executed.setdefault(path, set()).update(ls)
cov = coverage.Coverage(data_file=sorted(glob.glob('/tmp/anchorcov_C*.dat'))[0]); cov.load()
tot = miss = 0
for path in sorted(funcs):
    full = os.path.join(REPO, path)
    _, executable, _, _, _ = cov.analysis2(full)
    executable = set(executable)
    src = open(full).read().split('\n')
    cur = {n: (f, l) for n, f, l in spans('\n'.join(src))}
    for name in sorted(funcs[path]):
        if name not in cur:
            continue
        f, l = cur[name]
        ex = [x for x in range(f, l + 1) if x in executable]
        ms = [x for x in ex if x not in executed[path]]
        tot += len(ex); miss += len(ms)
        if ms:
            print('%s: %s %s  %d of %d' % (path, name, sorted(owners[(path, name)]), len(ms), len(ex)))
            for x in ms:
                print('      %5d  %s' % (x, src[x - 1].rstrip()[:150]))
print('TOTAL executable lines in anchored functions: %d, never executed by any check: %d' % (tot, miss))
