#!/bin/bash
# offline, idempotent: third-party helpers next to the repository's interpreter
set -e
cd "$(dirname "$0")"
if [ ! -d .deps/jsonschema ] || [ ! -d .deps/icontract ]; then
  PIP_NO_INDEX=1 /venv/bin/pip install -q --no-index --find-links /opt/veriftools/wheels \
      --target .deps icontract deal jsonschema >/dev/null 2>&1 || \
  PIP_NO_INDEX=1 /venv/bin/pip install --no-index --find-links /opt/veriftools/wheels \
      --target .deps icontract deal jsonschema
fi
mkdir -p evidence replays
echo "setup ok"
