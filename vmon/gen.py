"""vmon.gen -- seeded generators and special-value pools (DESIGN section 3.1)."""
import math

import numpy as np

from . import ref

PI = math.pi
DELTAS = [1e-12, 1e-10, 1e-9, 1e-8, 3e-8, 1e-7, 1e-6, 1e-4, 1e-2, 1e-1]


def logu(rng, lo, hi):
    return float(math.exp(rng.uniform(math.log(lo), math.log(hi))))


def sign(rng):
    return 1.0 if rng.random() < 0.5 else -1.0


def special_angles():
    out = [0.0, PI / 4, -PI / 4, PI / 2, -PI / 2, PI, -PI, 3 * PI / 2, -3 * PI / 2, 2 * PI, -2 * PI,
           -0.0, 5e-324, -5e-324, 2.3e-308, -2.3e-308]      # negative zero, the smallest denormal, the smallest normal number
    for c in (0.0, PI / 2, -PI / 2, PI, -PI):
        for d in DELTAS:
            out += [c + d, c - d]
    return out


SPECIAL_ANGLES = special_angles()


def angle(rng):
    """Any finite angle: special values, near-special, many turns, uniform, log-uniform."""
    r = rng.random()
    if r < 0.27:
        return float(SPECIAL_ANGLES[rng.integers(len(SPECIAL_ANGLES))])
    if r < 0.35:
        # a special value plus an offset drawn continuously (not a power of ten): thresholds that switch formula next to a
        # singular configuration sit at values like sqrt(20 eps) = 6.7e-8, and a misplaced one is wrong only in a thin band
        c = [0.0, PI / 2, -PI / 2, PI, -PI][rng.integers(5)]
        return float(c + sign(rng) * (logu(rng, 1e-8, 1e-5) if rng.random() < 0.6 else logu(rng, 1e-12, 1e-1)))
    if r < 0.45:
        k = [1, 5, 100, 10000][rng.integers(4)]
        return sign(rng) * (2 * PI * k + rng.uniform(-PI, PI))
    if r < 0.8:
        return float(rng.uniform(-PI, PI))
    if r < 0.83:      # across the library's zero thresholds (10 eps, 100 eps)
        return sign(rng) * logu(rng, 1e-18, 1e-12)
    return sign(rng) * logu(rng, 1e-12, PI)


def rot_angle(rng):
    """Rotation magnitude in [0, pi] over the whole group incl. both ends."""
    r = rng.random()
    if r < 0.06:
        return 0.0
    if r < 0.12:
        return PI
    if r < 0.15:      # across the library's zero thresholds (10 eps, 100 eps)
        return logu(rng, 1e-18, 1e-12)
    if r < 0.30:
        return logu(rng, 1e-12, 1e-3)
    if r < 0.48:
        return PI - logu(rng, 1e-12, 1e-3)
    return float(rng.uniform(0, PI))


def angle_band(th):
    """band label of a rotation magnitude: distance to 0 or to pi"""
    th = abs(th)
    if th == 0:
        return 'zero'
    if th == PI:
        return 'pi'
    d0, dp = th, abs(PI - th)
    if d0 < 1e-3:
        return 'near0:1e%d' % math.floor(math.log10(d0))
    if dp < 1e-3:
        return 'nearpi:1e%d' % math.floor(math.log10(max(dp, 1e-17)))
    return 'mid'


def unit_axis(rng):
    r = rng.random()
    if r < 0.2:
        a = np.zeros(3)
        a[rng.integers(3)] = sign(rng)
        return a
    if r < 0.3:
        a = np.zeros(3)
        i = rng.integers(3)
        j = (i + 1 + rng.integers(2)) % 3
        a[i] = sign(rng)
        a[j] = sign(rng) * [1e-9, 1e-6, 1e-3][rng.integers(3)]
        return a / np.linalg.norm(a)
    a = rng.normal(size=3)
    return a / np.linalg.norm(a)


def axis(rng, lo=1e-3, hi=1e6):
    """axis with length exactly 1 or log-uniform in [lo, hi]"""
    a = unit_axis(rng)
    r = rng.random()
    if r < 0.3:
        return a
    if r < 0.38:
        # nearly of unit length, not exactly (typed in to six decimals, passed through single precision, scaled by 1 +- 1e-9 .. 1e-5)
        k = rng.integers(3)
        return np.round(a, 6) if k == 0 else a.astype(np.float32).astype(np.float64) if k == 1 else a * (1 + sign(rng) * logu(rng, 1e-9, 1e-5))
    return a * logu(rng, lo, hi)


def transl(rng, n=3, lo=1e-6, hi=1e6, pzero=0.12):
    t = _transl(rng, n, lo, hi, pzero)
    if rng.random() < 0.06:
        # one component a negative zero or rounding noise (what products of rotations and translations leave behind)
        t = np.array(t, dtype=np.float64)
        t[rng.integers(n)] = -0.0 if rng.random() < 0.5 else sign(rng) * logu(rng, 1e-22, 1e-14)
    return t


def _transl(rng, n=3, lo=1e-6, hi=1e6, pzero=0.12):
    r = rng.random()
    if r < pzero:
        return np.zeros(n)
    if r < pzero + 0.12:
        t = np.zeros(n)
        t[rng.integers(n)] = sign(rng) * logu(rng, lo, hi)
        return t
    if r < pzero + 0.22:
        # structured translations: components that cancel exactly, equal components, small integers
        k = rng.integers(4)
        a = sign(rng) * (float(rng.integers(1, 10)) if rng.random() < 0.5 else logu(rng, lo, min(hi, 1e4)))
        b = sign(rng) * (float(rng.integers(1, 10)) if rng.random() < 0.5 else logu(rng, lo, min(hi, 1e4)))
        if k == 0:
            t = np.array([a, -a, 0.0][:n]) if n == 3 else np.array([a, -a])
        elif k == 1:
            t = np.array([a, b, -(a + b)]) if n == 3 else np.array([a, -a])
        elif k == 2:
            t = np.full(n, a)
        else:
            t = np.array([float(rng.integers(-5, 6)) for _ in range(n)])
        return t[rng.permutation(n)]
    d = rng.normal(size=n)
    d /= np.linalg.norm(d)
    return d * logu(rng, lo, hi)


def vec(rng, n, lo=1e-6, hi=1e6):
    """vector with components of mixed sign and log-uniform magnitudes"""
    return np.array([sign(rng) * logu(rng, lo, hi) for _ in range(n)])


def rotation(rng):
    """(axis(unit), theta, R) -- reference-built SO(3) element over the whole group."""
    a = unit_axis(rng)
    th = rot_angle(rng)
    return a, th, ref.rot(a, th)


def exact_so3(rng, dtype=None):
    """one of the 24 signed permutation matrices of determinant +1 (exactly representable in every element type), optionally
    held as float32 / float16 / an integer type: a valid member whatever the precision of its container"""
    P = np.eye(3)[rng.permutation(3)] * rng.choice([-1.0, 1.0], size=3)
    if np.linalg.det(P) < 0:
        P[0] = -P[0]
    P = P + 0.0          # (no negative zeros)
    return P.astype(dtype) if dtype else P


def so3(rng):
    return rotation(rng)[2]


def se3(rng, hi=1e6):
    a, th, R = rotation(rng)
    t = transl(rng, 3, hi=hi)
    return ref.rt2tr(R, t)


def so2_angle(rng):
    r = rng.random()
    if r < 0.4:
        return sign(rng) * rot_angle(rng)
    return angle(rng)


def so2(rng):
    return ref.rot2(so2_angle(rng))


def se2(rng, hi=1e6):
    return ref.rt2tr(so2(rng), transl(rng, 2, hi=hi))


def unit_quat(rng):
    a, th, _ = rotation(rng)
    q = np.array(ref.q_from_axis_angle(a, th), dtype=np.float64)
    if rng.random() < 0.5:
        q = -q
    return q / np.linalg.norm(q)


def distinct(rng, make, n, key=lambda x: x, tol=1e-6, tries=50):
    """n values pairwise different by more than tol (so an index mix-up is visible)."""
    out = []
    for _ in range(tries * n):
        x = make(rng)
        if all(np.max(np.abs(np.asarray(key(x)) - np.asarray(key(y)))) > tol for y in out):
            out.append(x)
        if len(out) == n:
            return out
    raise RuntimeError('could not draw distinct values')


FORMS = ['list', 'tuple', 'array', 'row', 'col']
# the same values as a different OBJECT: what a caller may legitimately hold (a slice of a bigger array, a frozen array, the
# transpose of a transpose, a list of NumPy scalars).  Never changes a value.
LAYOUTS = ['readonly', 'strided', 'fortran', 'negstride', 'npscalars']


def layout(a, how):
    """a (ndarray) -> equal values in an unusual but legal object layout"""
    a = np.array(a)
    if how in (None, 'plain'):
        return a
    if how == 'readonly':
        a.flags.writeable = False
        return a
    if how == 'strided':       # every second element of a bigger array filled with NaN elsewhere
        big = np.full(tuple(2 * s for s in a.shape), np.nan if a.dtype.kind == 'f' else 99, dtype=a.dtype)
        view = big[tuple(slice(None, None, 2) for _ in a.shape)]
        view[...] = a
        return view
    if how == 'fortran':
        return np.asfortranarray(a) if a.ndim > 1 else layout(a, 'strided')
    if how == 'negstride':
        return np.array(a[::-1])[::-1] if a.ndim else a
    if how == 'npscalars':     # list (of lists) of NumPy scalars
        return [layout(x, 'npscalars') for x in a] if a.ndim > 1 else [x for x in a] if a.ndim == 1 else a[()]
    raise ValueError(how)


_NT = {}


def named_tuple(values):
    import collections
    n = len(values)
    if n not in _NT:
        _NT[n] = collections.namedtuple('Record%d' % n, ['f%d' % i for i in range(n)])
    return _NT[n](*values)


def as_form(v, form, ints=False):
    v = np.asarray(v)
    if ints:
        v = v.astype(int)
    if form == 'list':
        return v.tolist()
    if form == 'tuple':
        return tuple(v.tolist())
    if form == 'ntuple':       # a record type of user code (collections.namedtuple): a tuple by isinstance, not by exact type
        return named_tuple(v.tolist())
    if form == 'array':
        return np.array(v)
    if form == 'row':
        return np.array(v).reshape(1, -1)
    if form == 'col':
        return np.array(v).reshape(-1, 1)
    raise ValueError(form)
