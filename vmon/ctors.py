"""vmon.ctors -- catalogue of the public constructors of the group-valued classes, with
generators of in-domain arguments.  A constructor call is the JSON-able triple
(name, args, kwargs); name '' means the class itself.  Used by C01, C04, C15, C17."""
import math

import numpy as np

from . import gen, ref

ORDERS = ['zyx', 'xyz', 'yxz', 'vehicle', 'arm', 'camera']
UNITS = ['rad', 'deg']


def cls(name):
    import spatialmath as sm
    return getattr(sm, name)


def _ang(rng, unit):
    a = gen.angle(rng)
    if unit == 'deg' and rng.random() < 0.15:
        # exact whole degrees (quarter turns and the like): what a user types, not pi/2 * 180/pi with its rounding
        return float([0, 90, 180, 270, 360, -90, -180, -270, 45, 30, 60, 720, -360][rng.integers(13)])
    return a * 180 / math.pi if unit == 'deg' else a


def _angs(rng, unit, n=3):
    return [_ang(rng, unit) for _ in range(n)]


def nonparallel_pair(rng):
    """o, a with lengths in [1e-3, 1e6], not parallel: angle between them mostly >= 1e-3, one in twenty 1e-12 .. 2e-6 rad"""
    a = gen.axis(rng)
    for _ in range(100):
        r_ = rng.random()
        phi = gen.logu(rng, 2e-3, math.pi / 2) if r_ < 0.45 else gen.logu(rng, 2e-6, 2e-3) if r_ < 0.55 else rng.uniform(2e-3, math.pi - 2e-3)
        if r_ >= 0.95:       # nearly parallel but not parallel: the frame is badly determined, it must still be a frame
            phi = gen.logu(rng, 1e-12, 2e-6)
        if 0.55 <= r_ < 0.67:     # nearly, not exactly, at right angles (o.a of 1e-12 .. 1e-6: "already perpendicular" is not)
            phi = math.pi / 2 + gen.sign(rng) * gen.logu(rng, 1e-12, 1e-6)
        # rotate unit(a) by phi about a perpendicular direction
        ua = a / np.linalg.norm(a)
        p = np.cross(ua, gen.unit_axis(rng))
        if np.linalg.norm(p) < 1e-3:
            continue
        p /= np.linalg.norm(p)
        o = (math.cos(phi) * ua + math.sin(phi) * p) * (1.0 if rng.random() < 0.3 else gen.logu(rng, 1e-3, 1e6))
        if r_ >= 0.45 and r_ < 0.5:      # corner of the stated range: both vectors as short as allowed and nearly parallel
            phi = gen.logu(rng, 5e-7, 1e-5)
            a = ua * 1e-3 * (1 + rng.random())
            o = (math.cos(phi) * ua + math.sin(phi) * p) * 1e-3 * (1 + rng.random())
        s = np.linalg.norm(np.cross(o, a)) / (np.linalg.norm(o) * np.linalg.norm(a))
        if s >= (4e-7 if r_ < 0.95 else 3e-13):
            return o, a
    raise RuntimeError


def rotation_ctor(rng, clsname):
    """A named rotation constructor shared by SO3 / SE3 / UnitQuaternion (single-valued)."""
    k = rng.integers(10)
    unit = UNITS[rng.integers(2)]
    if k < 3:
        return ['Rx', 'Ry', 'Rz'][k], [_ang(rng, unit)], {'unit': unit}
    if k == 3:
        return 'Eul', [_angs(rng, unit)], {'unit': unit}
    if k in (4, 5):
        return 'RPY', [_angs(rng, unit)], {'unit': unit, 'order': ORDERS[rng.integers(6)]}
    if k == 6:
        o, a = nonparallel_pair(rng)
        return 'OA', [o.tolist(), a.tolist()], {}
    if k == 7:
        return 'AngVec', [_ang(rng, unit), gen.axis(rng).tolist()], {'unit': unit}
    if k == 8:
        w = gen.unit_axis(rng) * abs(gen.angle(rng))
        return 'EulerVec', [w.tolist()], {}
    w = gen.unit_axis(rng) * (gen.rot_angle(rng) if rng.random() < 0.7 else abs(gen.angle(rng)))
    return 'Exp', [w.tolist()], {}


def ctor(rng, clsname, multi=False):
    """Any public constructor of clsname -> (name, args, kwargs); one call in five hands its vector / matrix arguments over as
    an unusual object (gen.LAYOUTS: frozen, non-contiguous, reversed-stride arrays, lists of NumPy scalars)"""
    nm, args, kw = _ctor(rng, clsname, multi)
    if rng.random() < 0.2:
        kw = dict(kw, _layout=gen.LAYOUTS[rng.integers(len(gen.LAYOUTS))])
    if nm == '' and clsname in ('SO2', 'SE2', 'SO3', 'SE3') and rng.random() < 0.25:
        # check=False with a valid argument: the value test is skipped, the meaning of the argument (a translation vector, a set of
        # translations, angles ...) is not; half the time a flat list of numbers is handed over as the equivalent 1-D array
        kw = dict(kw, check=False)
        if rng.random() < 0.5:
            args = [np.array(a, dtype=np.float64) if isinstance(a, list) and a and all(isinstance(x, float) for x in a) else a for a in args]
    return nm, args, kw


def _q4(rng):
    """a 4-vector to be normalised: of any length, or (1 in 3) already of unit length -- a sequence then mixes both kinds"""
    k = rng.integers(9)
    if k == 0:
        return np.eye(4)[rng.integers(4)] * gen.sign(rng)
    if k < 3:
        return gen.unit_quat(rng)
    return gen.vec(rng, 4, 1e-3, 1e3)


def _ctor(rng, clsname, multi=False):
    unit = UNITS[rng.integers(2)]
    r = rng.random()
    if clsname in ('SO3', 'SE3', 'UnitQuaternion'):
        if multi:
            n = int(rng.integers(2, 8))
            k = rng.integers(9)
            if k < 3:
                return ['Rx', 'Ry', 'Rz'][k], [_angs(rng, unit, n)], {'unit': unit}
            if k == 3:
                return 'Rand', [], {'N': n, '_seed': int(rng.integers(2 ** 31))}
            # array / list forms that build a sequence
            if clsname == 'UnitQuaternion':
                if k < 6:
                    return '', [[_q4(rng) for _ in range(n)]], {}          # list of 4-vectors, normalised
                if k < 8:
                    return '', [np.array([_q4(rng) for _ in range(n)])], {}     # N x 4 array
                return 'Rand', [], {'N': n, '_seed': int(rng.integers(2 ** 31))}
            if k == 4:
                return 'Eul', [np.array([_angs(rng, unit) for _ in range(n)])], {'unit': unit}
            if k == 5:
                return 'RPY', [np.array([_angs(rng, unit) for _ in range(n)])], {'unit': unit, 'order': ORDERS[rng.integers(6)]}
            if k == 6 and clsname == 'SE3':
                return 'Exp', [[np.r_[gen.transl(rng), gen.unit_axis(rng) * gen.rot_angle(rng)] for _ in range(n)]], {}
            if k == 6:
                return 'Exp', [np.array([gen.unit_axis(rng) * gen.rot_angle(rng) for _ in range(n)])], {'so3': False}
            if k == 7 and clsname == 'SE3':
                return '', [np.array([gen.transl(rng) for _ in range(n if n != 3 else 4)])], {}     # N x 3 translations
            if clsname == 'SE3':
                return ['Tx', 'Ty', 'Tz'][rng.integers(3)], [[float(gen.sign(rng) * gen.logu(rng, 1e-6, 1e6)) for _ in range(n)]], {}
            return '', [[gen.so3(rng) for _ in range(n)]], {}
        if clsname == 'UnitQuaternion' and r < 0.7:
            nm, args, kw = rotation_ctor(rng, clsname)
            if nm == 'Exp':          # UnitQuaternion has no Exp
                return 'EulerVec', args, {}
            return nm, args, kw
        if clsname == 'UnitQuaternion':
            k = rng.integers(5)
            if k == 0:
                return 'Rand', [], {'_seed': int(rng.integers(2 ** 31))}
            if k == 1:   # normalising constructor (s, v)
                q = gen.vec(rng, 4, 1e-3, 1e3)
                return '', [float(q[0]), q[1:].tolist()], {}
            if k == 2:   # from rotation matrix (one in three an exact rotation held in a narrow element type)
                if rng.random() < 0.33:
                    return '', [gen.exact_so3(rng, ['float32', 'float16', 'int8', 'int64'][rng.integers(4)])], {}
                return '', [gen.so3(rng)], {}
            if k == 3:   # Vec3
                q = gen.unit_quat(rng)
                if q[0] < 0:
                    q = -q
                return 'Vec3', [q[1:].tolist()], {}
            q = gen.vec(rng, 4, 1e-3, 1e3)   # list of 4 numbers, normalised by the constructor
            return '', [q.tolist()], {}
        if clsname == 'SO3':
            if r < 0.8:
                return rotation_ctor(rng, clsname)
            if r < 0.9:
                return 'Rand', [], {'_seed': int(rng.integers(2 ** 31))}
            if rng.random() < 0.3:
                return '', [gen.exact_so3(rng, ['float32', 'float16', 'int8', 'int64'][rng.integers(4)])], {}
            return '', [gen.so3(rng)], {}
        # SE3
        if r < 0.45:
            nm, args, kw = rotation_ctor(rng, clsname)
            if nm in ('Rx', 'Ry', 'Rz') and rng.random() < 0.5:
                kw['t'] = gen.transl(rng).tolist()
            if nm == 'Exp':
                S = np.r_[gen.transl(rng), np.array(args[0])]
                return 'Exp', [S.tolist()], {}
            return nm, args, kw
        k = rng.integers(7)
        t = gen.transl(rng)
        if k == 0:
            return '', [float(t[0]), float(t[1]), float(t[2])], {}
        if k == 1:
            return '', [t.tolist()], {}
        if k == 2:
            return ['Tx', 'Ty', 'Tz'][rng.integers(3)], [float(gen.sign(rng) * gen.logu(rng, 1e-6, 1e6))], {}
        if k == 3:
            return 'Rand', [], {'_seed': int(rng.integers(2 ** 31))}
        if k == 4:
            return 'SO3', [gen.so3(rng)], {}
        if k == 5:
            return '', [gen.se3(rng)], {}
        w = gen.unit_axis(rng) * gen.rot_angle(rng)
        return 'Exp', [np.r_[gen.transl(rng), w].tolist()], {}
    if clsname == 'SO2':
        if multi:
            n = int(rng.integers(2, 8))
            return '', [_angs(rng, unit, n)], {'unit': unit}
        k = rng.integers(4)
        if k == 0:
            return '', [_ang(rng, unit)], {'unit': unit}
        if k == 1:
            return 'Rand', [], {'_seed': int(rng.integers(2 ** 31))}
        if k == 2:
            return 'Exp', [[gen.angle(rng)]], {}
        return '', [gen.so2(rng)], {}
    if clsname == 'SE2':
        if multi:
            n = int(rng.integers(2, 8))
            return 'Rand', [], {'N': n, '_seed': int(rng.integers(2 ** 31))}
        k = rng.integers(6)
        t = gen.transl(rng, 2)
        if k == 0:
            return '', [float(t[0]), float(t[1]), _ang(rng, unit)], {'unit': unit}
        if k == 1:
            return '', [[float(t[0]), float(t[1]), _ang(rng, unit)]], {'unit': unit}
        if k == 2:
            return '', [float(t[0]), float(t[1])], {}
        if k == 3:
            return 'Rand', [], {'_seed': int(rng.integers(2 ** 31))}
        if k == 4:
            return 'Exp', [np.r_[t, gen.angle(rng)].tolist()], {}
        return '', [gen.se2(rng)], {}
    raise ValueError(clsname)


def call(clsname, name, args, kwargs):
    C = cls(clsname)
    f = C if name == '' else getattr(C, name)
    if '_seed' in kwargs:      # random constructors draw from numpy's global generator: make them replayable
        kwargs = dict(kwargs)
        np.random.seed(kwargs.pop('_seed'))
    args = [np.array(a) if isinstance(a, np.ndarray) else a for a in args]
    if '_layout' in kwargs:
        kwargs = dict(kwargs)
        args = [_relayout(a, kwargs['_layout']) for a in args]
        del kwargs['_layout']
    return f(*args, **kwargs)


def _relayout(a, how):
    if how in ('float32', 'float16', 'int'):
        # vector arguments only (a matrix of a narrow type is not a member to 1e-9 in the first place); the values change, so
        # this form is for closure (C01), not for value comparisons
        isvec = (isinstance(a, np.ndarray) and a.ndim == 1 and a.dtype.kind == 'f') or (isinstance(a, list) and a and all(isinstance(x, float) for x in a))
        if not isvec:
            return a
        v = np.asarray(a, dtype=np.float64)
        if how == 'int':
            w = np.round(v).astype(np.int32)
            return w if np.any(w) and np.max(np.abs(v)) < 1e9 else a
        w = v.astype(np.float32 if how == 'float32' else np.float16)
        return w if np.all(np.isfinite(w)) and np.linalg.norm(w.astype(np.float64)) >= 2e-3 else a
    if isinstance(a, np.ndarray) and a.dtype.kind == 'f' and (how != 'npscalars' or a.ndim == 1):
        return gen.layout(a, how)
    if isinstance(a, list) and a and all(isinstance(x, float) for x in a):
        return gen.layout(np.array(a), how)
    if isinstance(a, list) and a and all(isinstance(x, np.ndarray) for x in a) and how != 'npscalars':
        return [gen.layout(x, how) for x in a]
    return a


def ref_leaf(rng, clsname, n=1):
    """reference-built member arrays (valid to 1 ulp, independent of the library)"""
    out = []
    for _ in range(n):
        if clsname == 'SO3':
            out.append(gen.so3(rng))
        elif clsname == 'SE3':
            out.append(gen.se3(rng))
        elif clsname == 'SO2':
            out.append(gen.so2(rng))
        elif clsname == 'SE2':
            out.append(gen.se2(rng))
        elif clsname == 'UnitQuaternion':
            out.append(gen.unit_quat(rng))
        else:
            raise ValueError(clsname)
    return out


def from_arrays(clsname, arrays):
    C = cls(clsname)
    arrays = [np.array(a, dtype=np.float64) for a in arrays]
    if clsname == 'UnitQuaternion':
        return C(arrays, check=False) if len(arrays) > 1 else C(arrays[0], check=False)
    return C(arrays, check=False) if len(arrays) > 1 else C(arrays[0], check=False)
