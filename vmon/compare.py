"""vmon.compare -- deep comparison of library results (arrays, tuples, lists, objects, namedtuples, scalars)."""
import math

import numpy as np


def parts(x):
    """canonical comparable structure"""
    d = getattr(x, 'data', None)
    if isinstance(d, list) and type(x).__module__.startswith('spatialmath'):
        return ('obj', type(x).__name__, [parts(v) for v in d])
    if type(x).__module__.startswith('spatialmath') and hasattr(x, '__dict__'):
        return ('obj2', type(x).__name__, {k: parts(v) for k, v in sorted(vars(x).items())})
    if isinstance(x, np.ndarray):
        return ('nd', x)
    if isinstance(x, (list, tuple)):
        return ('seq', [parts(v) for v in x])
    if isinstance(x, dict):
        return ('map', {k: parts(v) for k, v in x.items()})
    return ('s', x)


def _cmp(a, b, num):
    if a[0] != b[0]:
        # a d-vector may come back as list vs tuple etc.: only 'seq' is unified; everything else must match in kind
        return False
    k = a[0]
    if k == 'obj':
        return a[1] == b[1] and len(a[2]) == len(b[2]) and all(_cmp(x, y, num) for x, y in zip(a[2], b[2]))
    if k == 'obj2':
        return a[1] == b[1] and a[2].keys() == b[2].keys() and all(_cmp(a[2][q], b[2][q], num) for q in a[2])
    if k == 'nd':
        return num(a[1], b[1])
    if k == 'seq':
        return len(a[1]) == len(b[1]) and all(_cmp(x, y, num) for x, y in zip(a[1], b[1]))
    if k == 'map':
        return a[1].keys() == b[1].keys() and all(_cmp(a[1][q], b[1][q], num) for q in a[1])
    x, y = a[1], b[1]
    if isinstance(x, (int, float, np.number)) and isinstance(y, (int, float, np.number)) and not isinstance(x, bool):
        return num(np.asarray(x), np.asarray(y))
    try:
        return bool(x == y)
    except Exception:
        return False


def _exact(x, y):
    if x.shape != y.shape:
        return False
    if x.dtype == object or y.dtype == object:
        try:
            return bool(np.all(x == y))
        except Exception:
            return False
    return bool(np.array_equal(x, y, equal_nan=True))


def same(a, b):
    """bit-for-bit equal results"""
    return _cmp(parts(a), parts(b), _exact)


def close(a, b, rtol=1e-12, atol=0.0):
    def num(x, y):
        if x.shape != y.shape:
            return False
        if x.dtype == object or y.dtype == object:
            return _exact(x, y)
        if x.dtype.kind not in 'fiub' or y.dtype.kind not in 'fiub':
            return _exact(x, y)
        x, y = x.astype(float), y.astype(float)
        sc = max(1.0, float(np.max(np.abs(y))) if y.size else 1.0)
        return bool(np.all(np.isnan(x) == np.isnan(y)) and np.all(np.abs(np.nan_to_num(x) - np.nan_to_num(y)) <= rtol * sc + atol))
    return _cmp(parts(a), parts(b), num)
