"""vmon.instrument -- attaching monitors to the real code from the harness.

* rebind_everywhere: a base function has several bindings (spatialmath.base.X,
  spatialmath.base.<module>.X via star imports, class attributes); a wrapper attached to
  only one binding is bypassed, so every binding that `is` the original is replaced.
* post: post-condition wrapper (records, never raises into the code under test).
* wrap_method: same for methods / classmethods / staticmethods / properties of a class.
* Reach: sys.monitoring LINE events restricted to the anchored code objects (each line is
  disabled after its first hit so the overhead is negligible).
* snapshot / same: byte-level snapshots of argument trees (C17, C10).
"""
import functools
import inspect
import sys
import types

import numpy as np

_wrapped = {}      # id(original) -> wrapper  (so we never wrap twice)
COUNTS = {}        # monitor id -> number of times the wrapper ran


def sm_modules():
    return [m for n, m in list(sys.modules.items())
            if m is not None and (n == 'spatialmath' or n.startswith('spatialmath.'))]


def rebind_everywhere(original, wrapper):
    """Replace every module-global and class-attribute binding of `original`."""
    n = 0
    for mod in sm_modules():
        d = getattr(mod, '__dict__', {})
        for name, val in list(d.items()):
            if val is original:
                setattr(mod, name, wrapper)
                n += 1
            elif inspect.isclass(val) and getattr(val, '__module__', '').startswith('spatialmath'):
                for an, av in list(vars(val).items()):
                    if av is original:
                        setattr(val, an, wrapper)
                        n += 1
                    elif isinstance(av, staticmethod) and av.__func__ is original:
                        setattr(val, an, staticmethod(wrapper))
                        n += 1
    return n


def post(fn, on_return, mid=None, on_raise=None, pre=None):
    """Wrap a plain function.  on_return(args, kwargs, result, pre_state) is called after a
    normal return, on_raise(args, kwargs, exc, pre_state) after an exception (which is
    re-raised).  Exceptions inside the monitor are recorded by the monitor itself."""
    mid = mid or getattr(fn, '__qualname__', repr(fn))
    COUNTS.setdefault(mid, 0)

    @functools.wraps(fn)
    def wrapper(*args, **kwargs):
        COUNTS[mid] += 1
        st = pre(args, kwargs) if pre else None
        try:
            res = fn(*args, **kwargs)
        except BaseException as e:
            if on_raise is not None:
                on_raise(args, kwargs, e, st)
            raise
        on_return(args, kwargs, res, st)
        return res
    wrapper.__vmon_original__ = fn
    return wrapper


def hook_function(module, name, on_return, on_raise=None, pre=None, mid=None):
    """Attach a post-condition to module.name and rebind it everywhere.  Returns #bindings."""
    fn = getattr(module, name)
    fn = getattr(fn, '__vmon_original__', fn) if False else fn
    w = post(fn, on_return, mid=mid or name, on_raise=on_raise, pre=pre)
    n = rebind_everywhere(fn, w)
    return n


def hook_method(cls, name, on_return, on_raise=None, pre=None, mid=None):
    """Attach a post-condition to a method defined on `cls` (found in cls.__dict__).
    Handles plain functions, classmethod, staticmethod and property (getter)."""
    raw = cls.__dict__[name]
    mid = mid or '%s.%s' % (cls.__name__, name)
    if isinstance(raw, classmethod):
        setattr(cls, name, classmethod(post(raw.__func__, on_return, mid, on_raise, pre)))
    elif isinstance(raw, staticmethod):
        setattr(cls, name, staticmethod(post(raw.__func__, on_return, mid, on_raise, pre)))
    elif isinstance(raw, property):
        setattr(cls, name, property(post(raw.fget, on_return, mid, on_raise, pre), raw.fset, raw.fdel, raw.__doc__))
    elif isinstance(raw, types.FunctionType):
        setattr(cls, name, post(raw, on_return, mid, on_raise, pre))
    else:
        raise TypeError('cannot hook %r' % raw)


# ----------------------------------------------------------------------------- line reach
class Reach:
    """Line-reach evidence for a set of functions via sys.monitoring (3.12)."""
    TOOL = 3

    def __init__(self):
        self.codes = {}     # code object -> label
        self.hit = {}       # label -> set(lines)
        self.on = False

    def add(self, fn, label=None):
        fn = getattr(fn, '__vmon_original__', fn)
        if isinstance(fn, (classmethod, staticmethod)):
            fn = fn.__func__
        if isinstance(fn, property):
            fn = fn.fget
        fn = getattr(fn, '__func__', fn)
        fn = getattr(fn, 'func', fn)               # functools.cached_property / partial
        for _ in range(4):                         # decorators that keep the original under __wrapped__
            if hasattr(fn, '__code__') or not hasattr(fn, '__wrapped__'):
                break
            fn = fn.__wrapped__
        fn = getattr(fn, '__vmon_original__', fn)
        code = fn.__code__
        label = label or '%s:%s' % (fn.__module__, fn.__qualname__)
        self.codes[code] = label
        self.hit.setdefault(label, set())
        return label

    def start(self):
        mon = sys.monitoring
        try:
            mon.use_tool_id(self.TOOL, 'vmon-reach')
        except ValueError:
            pass
        codes, hit = self.codes, self.hit

        def on_line(code, line):
            lab = codes.get(code)
            if lab is not None:
                hit[lab].add(line)
            return mon.DISABLE
        mon.register_callback(self.TOOL, mon.events.LINE, on_line)
        for code in self.codes:
            mon.set_local_events(self.TOOL, code, mon.events.LINE)
        self.on = True

    def stop(self):
        if self.on:
            mon = sys.monitoring
            for code in self.codes:
                mon.set_local_events(self.TOOL, code, 0)
            mon.register_callback(self.TOOL, mon.events.LINE, None)
            mon.free_tool_id(self.TOOL)
            self.on = False

    def report(self):
        out = {}
        for code, lab in self.codes.items():
            lines = sorted({l for (_, _, l) in code.co_lines() if l is not None and l != code.co_firstlineno})
            out[lab] = dict(file=code.co_filename, first=code.co_firstlineno,
                            lines=lines, hit=sorted(self.hit[lab] & set(lines)))
        return out


def source_line(filename, lineno, _cache={}):
    if filename not in _cache:
        try:
            with open(filename) as f:
                _cache[filename] = f.read().split('\n')
        except OSError:
            _cache[filename] = []
    L = _cache[filename]
    return L[lineno - 1].strip() if 0 < lineno <= len(L) else ''


# ----------------------------------------------------------------------------- snapshots
def snapshot(x, depth=0):
    """Deep, byte-level, hashable-free snapshot of an argument tree."""
    if depth > 6:
        return ('deep',)
    if isinstance(x, np.ndarray):
        if x.dtype == object:
            return ('ndo', x.shape, repr(x.tolist()))
        # (the writeable flag is part of what the caller holds: an array the library has frozen can no longer be edited by its owner)
        return ('nd', x.shape, str(x.dtype), x.tobytes(), bool(x.flags.writeable))
    if isinstance(x, (list, tuple)):
        return (type(x).__name__, tuple(snapshot(v, depth + 1) for v in x))
    if isinstance(x, dict):
        return ('dict', tuple((k, snapshot(v, depth + 1)) for k, v in x.items()))
    d = getattr(x, 'data', None)
    if isinstance(d, list) and type(x).__module__.startswith('spatialmath'):
        # (other instance attributes are part of the object too: a non-mutating call must not leave anything behind in it)
        extra = tuple((k, snapshot(v, depth + 1)) for k, v in sorted(vars(x).items()) if k != 'data') if hasattr(x, '__dict__') else ()
        return ('obj', type(x).__name__, tuple(snapshot(v, depth + 1) for v in d), extra)
    if type(x).__module__.startswith('spatialmath') and hasattr(x, '__dict__'):
        return ('obj2', type(x).__name__,
                tuple((k, snapshot(v, depth + 1)) for k, v in sorted(vars(x).items())))
    if isinstance(x, (int, float, str, bool, complex, type(None), np.generic)):
        return ('s', type(x).__name__, repr(x))
    return ('other', type(x).__name__)


def describe(x, depth=0):
    """Short structural description for signatures (no values)."""
    if isinstance(x, np.ndarray):
        return 'ndarray%s' % (tuple(x.shape),)
    if isinstance(x, (list, tuple)):
        return '%s[%d]' % (type(x).__name__, len(x))
    return type(x).__name__
