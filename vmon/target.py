"""vmon.target -- locate the tree under test and fingerprint it."""
import hashlib
import os
import subprocess

REPO = os.environ.get('VERIF_REPO', '/repo')


def assert_target():
    import spatialmath
    f = os.path.realpath(spatialmath.__file__)
    if not f.startswith(os.path.realpath(REPO) + os.sep):
        raise SystemExit('vmon: spatialmath imported from %s, expected under %s' % (f, REPO))


def fingerprint():
    out = {'repo': REPO}
    try:
        out['head'] = subprocess.run(['git', '-C', REPO, 'rev-parse', 'HEAD'], capture_output=True,
                                     text=True, timeout=20).stdout.strip()
        d = subprocess.run(['git', '-C', REPO, 'diff', 'HEAD', '--', 'spatialmath'], capture_output=True,
                           timeout=20).stdout
        out['diff_sha1'] = hashlib.sha1(d).hexdigest() if d else None
    except Exception as e:  # pragma: no cover
        out['error'] = repr(e)
    return out
