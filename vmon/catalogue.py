"""vmon.catalogue -- API catalogue: one entry per public callable that takes a vector, angle,
unit or order argument, with a template saying which parameter is what.  Shared by C15
(forms/units), C16 (symbolic) and C17 (immutability).

Spec mini-language for arguments:
  ('V', n)        vector of length n  (n may be a tuple of accepted lengths, or None = any >= 1)
  ('A',)          angle (scalar)            ('S',) real scalar          ('S01',) scalar in [0,1]
  ('I',)          small integer             ('U',) unit keyword         ('O',) rpy order keyword
  ('R3',) ('T3',) ('R2',) ('T2',)  group matrices      ('Q',) unit quaternion 4-vector ('V',4) is a general one
  ('SK3',) ('SKA3',) ('SK2',) ('SKA2',) algebra matrices
  ('OBJ', cls)    a single-valued library object      ('OBJM', cls) multi-valued
  ('AN3',) N x 3 array of angles, one value per row
  ('P3N',) 3xN points ('P2N',) 2xN points ('FLAG',) bool ('NONE',) literal None
Entry: dict(name, target, args=[specs], kwargs={name: spec}, recv=None|spec, tags=set)
target: 'base.<fn>' | '<Class>.<classmethod or ctor ''>' | 'm:<Class>.<method>' (needs recv) | 'p:<Class>.<property>'
"""
import math

import numpy as np

from . import gen, ref

V, A, SC, U, O = (lambda n: ('V', n)), ('A',), ('S',), ('U',), ('O',)


def E(target, args=(), kwargs=None, recv=None, tags=()):
    return dict(name=target, target=target, args=list(args), kwargs=dict(kwargs or {}), recv=recv, tags=set(tags))


BASE = [
    # argcheck
    E('base.getvector', [V(None)]), E('base.getvector', [V(3), ('LIT', 3)]), E('base.isvector', [V(None)]),
    # quaternions
    E('base.pure', [V(3)]), E('base.qnorm', [V(4)]), E('base.unit', [V(4)]), E('base.isunit', [V(4)], tags={'nolength'}),
    E('base.isequal', [V(4), V(4)]), E('base.q2v', [V(4)]), E('base.v2q', [('VSMALL3',)]), E('base.qqmul', [V(4), V(4)]),
    E('base.inner', [V(4), V(4)]), E('base.qvmul', [('Q',), V(3)]), E('base.vvmul', [('VSMALL3',), ('VSMALL3',)]),
    E('base.qpow', [V(4), ('I',)]), E('base.conj', [V(4)]), E('base.q2r', [('Q',)]), E('base.slerp', [('Q',), ('Q',), ('S01',)]),
    E('base.matrix', [V(4)]), E('base.dot', [V(4), V(3)]), E('base.dotb', [V(4), V(3)]), E('base.angle', [('Q',), ('Q',)]),
    E('base.qprint', [V(4)], {'file': ('NONE',)}),
    # 2-D
    E('base.rot2', [A], {'unit': U}, tags={'unit_in'}), E('base.trot2', [A], {'unit': U, 't': V(2)}, tags={'unit_in'}),
    E('base.transl2', [V(2)], tags={'triple:2'}), E('base.xyt2tr', [V(3)], {'unit': U}, tags={'unit_in:vec2'}),
    E('base.trexp2', [V((1, 3))]), E('base.tr2xyt', [('T2',)], {'unit': U}, tags={'unit_out:2'}),
    # 3-D
    E('base.rotx', [A], {'unit': U}, tags={'unit_in'}), E('base.roty', [A], {'unit': U}, tags={'unit_in'}),
    E('base.rotz', [A], {'unit': U}, tags={'unit_in'}),
    E('base.trotx', [A], {'unit': U, 't': V(3)}, tags={'unit_in'}), E('base.troty', [A], {'unit': U, 't': V(3)}, tags={'unit_in'}),
    E('base.trotz', [A], {'unit': U, 't': V(3)}, tags={'unit_in'}),
    E('base.transl', [V(3)], tags={'triple:3'}),
    E('base.rpy2r', [V(3)], {'unit': U, 'order': O}, tags={'unit_in:vec', 'triple:3', 'order'}),
    E('base.rpy2tr', [V(3)], {'unit': U, 'order': O}, tags={'unit_in:vec', 'triple:3', 'order'}),
    E('base.eul2r', [V(3)], {'unit': U}, tags={'unit_in:vec', 'triple:3'}), E('base.eul2tr', [V(3)], {'unit': U}, tags={'unit_in:vec', 'triple:3'}),
    E('base.angvec2r', [A, V(3)], {'unit': U}, tags={'unit_in'}), E('base.angvec2tr', [A, V(3)], {'unit': U}, tags={'unit_in'}),
    E('base.oa2r', [V(3), V(3)]), E('base.oa2tr', [V(3), V(3)]),
    E('base.tr2angvec', [('R3',)], {'unit': U}, tags={'unit_out:angvec'}), E('base.tr2eul', [('R3',)], {'unit': U}, tags={'unit_out:all'}),
    E('base.tr2rpy', [('R3',)], {'unit': U, 'order': O}, tags={'unit_out:all', 'order'}),
    E('base.trexp', [V((3, 6))]), E('base.delta2tr', [V(6)]),
    # N-D
    E('base.rt2tr', [('R3',), V(3)]), E('base.rt2tr', [('R2',), V(2)]), E('base.Ab2M', [('R3',), V(3)]),
    E('base.skew', [V((1, 3))]), E('base.skewa', [V((3, 6))]), E('base.rodrigues', [V((1, 3))]),
    E('base.rodrigues', [('UNIT3',), A]),
    # vectors
    E('base.colvec', [V(None)]), E('base.unitvec', [V(None)]), E('base.unitvec_norm', [V(None)]), E('base.norm', [V(None)]),
    E('base.normsq', [V(None)]), E('base.isunitvec', [V(None)]), E('base.iszerovec', [V(None)]),
    E('base.isunittwist', [V(6)]), E('base.isunittwist2', [V(3)]), E('base.unittwist', [V(6)]), E('base.unittwist_norm', [V(6)]),
    E('base.unittwist2', [V(3)]), E('base.unittwist2_norm', [V(3)]), E('base.cross', [V(3), V(3)]),
]

# names of base.__all__ that take no vector / angle / unit / order argument (or are graphics / matrix-only)
BASE_NOT_APPLICABLE = {
    'getunit',   # return their argument's own container type / shape by design

    'assertmatrix', 'ismatrix', 'assertvector', 'isscalar', 'isnumberlist', 'isvectorlist', 'r2q', 'rand', 'ishom2', 'isrot2',
    'trlog2', 'trinterp2', 'trprint2', 'trplot2', 'tranimate2', 'trinv2', 'ishom', 'isrot', 'trlog', 'trnorm', 'trinterp', 'trinv',
    'tr2delta', 'tr2jac', 'trprint', 'trplot', 'tranimate', 't2r', 'r2t', 'tr2rt', 'isR', 'isskew', 'isskewa', 'iseye', 'vex',
    'vexa', 'h2e', 'e2h', 'homtrans', 'iszero', 'Animate', 'Animate2', 'plotvol2', 'plotvol3',
}

CLASSES = [
    E('SO2.', [A], {'unit': U}, tags={'unit_in'}), E('SO2.', [V(None)], {'unit': U}, tags={'unit_in:vec'}), E('SO2.Exp', [V(1)], tags={'listseq'}),
    E('SE2.', [V((2, 3))]), E('SE2.', [V(3)], {'unit': U}, tags={'unit_in:vec2', 'triple:3', 'nolength'}), E('SE2.Exp', [V(3)]),
    E('SO3.Rx', [A], {'unit': U}, tags={'unit_in'}), E('SO3.Ry', [A], {'unit': U}, tags={'unit_in'}), E('SO3.Rz', [A], {'unit': U}, tags={'unit_in'}),
    E('SO3.Rx', [V(None)], {'unit': U}, tags={'unit_in:vec'}),
    E('SO3.Eul', [V(3)], {'unit': U}, tags={'unit_in:vec'}), E('SO3.RPY', [V(3)], {'unit': U, 'order': O}, tags={'unit_in:vec', 'order'}),
    E('SO3.OA', [V(3), V(3)]), E('SO3.AngVec', [A, V(3)], {'unit': U}, tags={'unit_in'}), E('SO3.EulerVec', [V(3)]), E('SO3.Exp', [V(3)]),
    E('SE3.', [V(3)], tags={'triple:3'}), E('SE3.Rx', [A], {'unit': U, 't': V(3)}, tags={'unit_in'}),
    E('SE3.Ry', [A], {'unit': U, 't': V(3)}, tags={'unit_in'}), E('SE3.Rz', [A], {'unit': U, 't': V(3)}, tags={'unit_in'}),
    E('SE3.Eul', [V(3)], {'unit': U}, tags={'unit_in:vec'}), E('SE3.RPY', [V(3)], {'unit': U, 'order': O}, tags={'unit_in:vec', 'order'}),
    E('SE3.OA', [V(3), V(3)]), E('SE3.AngVec', [A, V(3)], {'unit': U}, tags={'unit_in'}), E('SE3.EulerVec', [V(3)]), E('SE3.Exp', [V(6)]),
    E('SE3.Delta', [('VTINY6',)]), E('SE3.Tx', [V(None)]), E('SE3.Ty', [V(None)]), E('SE3.Tz', [V(None)]),
    E('Quaternion.', [V(4)]), E('Quaternion.', [SC, V(3)]), E('Quaternion.Pure', [V(3)]),
    E('UnitQuaternion.', [V(4)]), E('UnitQuaternion.', [SC, V(3)]),
    E('UnitQuaternion.Rx', [A], {'unit': U}, tags={'unit_in'}), E('UnitQuaternion.Ry', [A], {'unit': U}, tags={'unit_in'}),
    E('UnitQuaternion.Rz', [A], {'unit': U}, tags={'unit_in'}), E('UnitQuaternion.Rx', [V(None)], {'unit': U}, tags={'unit_in:vec'}),
    E('UnitQuaternion.Eul', [V(3)], {'unit': U}, tags={'unit_in:vec'}),
    E('UnitQuaternion.RPY', [V(3)], {'unit': U, 'order': O}, tags={'unit_in:vec', 'order'}),
    E('UnitQuaternion.OA', [V(3), V(3)]), E('UnitQuaternion.AngVec', [A, V(3)], {'unit': U}, tags={'unit_in'}),
    E('UnitQuaternion.EulerVec', [V(3)]), E('UnitQuaternion.Vec3', [('VSMALL3',)]),
    E('Twist3.', [V(6)]), E('Twist3.', [V(3), V(3)]), E('Twist3.Revolute', [V(3), V(3)]), E('Twist3.Prismatic', [V(3)]),
    E('Twist2.', [V(3)]), E('Twist2.', [V(2), SC]), E('Twist2.Revolute', [V(2)]), E('Twist2.Prismatic', [V(2)]),
    E('Plucker.PQ', [V(3), V(3)]), E('Plucker.PointDir', [V(3), V(3)]), E('Plucker.', [V(3), V(3)]), E('Plucker.Planes', [V(4), V(4)]),
    E('Plane.', [V(4)]), E('Plane.PN', [V(3), V(3)]),
    E('SpatialVelocity.', [V((3, 6))]), E('SpatialAcceleration.', [V((3, 6))]), E('SpatialForce.', [V((3, 6))]),
    E('SpatialMomentum.', [V((3, 6))]), E('SpatialInertia.', [('SPOS',), V(3)]),
    E('DualQuaternion.', [V(8)]), E('DualQuaternion.Pure', [V(3)]),
    # methods / accessors with unit, order or vector arguments
    E('m:SO3.rpy', [], {'unit': U, 'order': O}, recv=('OBJ', 'SO3'), tags={'unit_out:all', 'order'}),
    E('m:SO3.eul', [], {'unit': U}, recv=('OBJ', 'SO3'), tags={'unit_out:all'}),
    E('m:SO3.angvec', [], {'unit': U}, recv=('OBJ', 'SO3'), tags={'unit_out:angvec'}),
    E('m:SE3.rpy', [], {'unit': U, 'order': O}, recv=('OBJ', 'SE3'), tags={'unit_out:all', 'order'}),
    E('m:SE3.eul', [], {'unit': U}, recv=('OBJ', 'SE3'), tags={'unit_out:all'}),
    E('m:SE3.angvec', [], {'unit': U}, recv=('OBJ', 'SE3'), tags={'unit_out:angvec'}),
    E('m:SO3.rpy', [], {'unit': U, 'order': O}, recv=('OBJM', 'SO3'), tags={'unit_out:all', 'order'}),
    E('m:SO3.eul', [], {'unit': U}, recv=('OBJM', 'SO3'), tags={'unit_out:all'}),
    E('m:SE3.rpy', [], {'unit': U, 'order': O}, recv=('OBJM', 'SE3'), tags={'unit_out:all', 'order'}),
    E('m:SE3.eul', [], {'unit': U}, recv=('OBJM', 'SE3'), tags={'unit_out:all'}),
    E('m:UnitQuaternion.rpy', [], {'unit': U, 'order': O}, recv=('OBJ', 'UnitQuaternion'), tags={'unit_out:all', 'order'}),
    E('m:UnitQuaternion.eul', [], {'unit': U}, recv=('OBJ', 'UnitQuaternion'), tags={'unit_out:all'}),
    E('m:UnitQuaternion.angvec', [], {'unit': U}, recv=('OBJ', 'UnitQuaternion'), tags={'unit_out:angvec'}),
    E('m:UnitQuaternion.rpy', [], {'unit': U, 'order': O}, recv=('OBJM', 'UnitQuaternion'), tags={'unit_out:all', 'order'}),
    E('m:UnitQuaternion.eul', [], {'unit': U}, recv=('OBJM', 'UnitQuaternion'), tags={'unit_out:all'}),
    E('m:SO2.theta', [], {'unit': U}, recv=('OBJ', 'SO2'), tags={'unit_out:all'}),
    E('m:SO2.theta', [], {'unit': U}, recv=('OBJM', 'SO2'), tags={'unit_out:all'}),
    E('m:SE2.theta', [], {'unit': U}, recv=('OBJ', 'SE2'), tags={'unit_out:all'}),
    E('m:Twist3.exp', [A], {'units': U}, recv=('OBJ', 'Twist3'), tags={'unit_in'}),
    E('m:Twist3.exp', [V(None)], {'units': U}, recv=('OBJ', 'Twist3'), tags={'unit_in:vec'}),
    E('m:Twist2.exp', [A], {'units': U}, recv=('OBJ', 'Twist2'), tags={'unit_in'}),
    E('m:SE3.__mul__', [V(3)], recv=('OBJ', 'SE3')), E('m:SO3.__mul__', [V(3)], recv=('OBJ', 'SO3')),
    E('m:SE2.__mul__', [V(2)], recv=('OBJ', 'SE2')), E('m:SO2.__mul__', [V(2)], recv=('OBJ', 'SO2')),
    E('m:UnitQuaternion.__mul__', [V(3)], recv=('OBJ', 'UnitQuaternion')),
    E('m:UnitQuaternion.dot', [V(3)], recv=('OBJ', 'UnitQuaternion')), E('m:UnitQuaternion.dotb', [V(3)], recv=('OBJ', 'UnitQuaternion')),
    E('m:Plucker.closest', [V(3)], recv=('OBJ', 'Plucker')), E('m:Plucker.point', [V(None)], recv=('OBJ', 'Plucker')),
    E('m:Plucker.intersect_plane', [V(4)], recv=('OBJ', 'Plucker')),
    E('m:SE3.interp', [V(None, )], recv=('OBJ', 'SE3'), tags={'s01'}),
    # ---- entries added later go below this line: finding witnesses refer to entries by position
    E('SO3.Ry', [V(None)], {'unit': U}, tags={'unit_in:vec'}), E('SO3.Rz', [V(None)], {'unit': U}, tags={'unit_in:vec'}),
    # N x 3 sequence forms (one value per row)
    E('SO3.Eul', [('AN3',)], {'unit': U}, tags={'unit_in:vec'}), E('SO3.RPY', [('AN3',)], {'unit': U, 'order': O}, tags={'unit_in:vec', 'order'}),
    E('SE3.Eul', [('AN3',)], {'unit': U}, tags={'unit_in:vec'}), E('SE3.RPY', [('AN3',)], {'unit': U, 'order': O}, tags={'unit_in:vec', 'order'}),
    E('SE3.Rx', [V(None)], {'unit': U}, tags={'unit_in:vec'}), E('SE3.Ry', [V(None)], {'unit': U}, tags={'unit_in:vec'}),
    E('SE3.Rz', [V(None)], {'unit': U}, tags={'unit_in:vec'}),
    E('UnitQuaternion.Ry', [V(None)], {'unit': U}, tags={'unit_in:vec'}), E('UnitQuaternion.Rz', [V(None)], {'unit': U}, tags={'unit_in:vec'}),
    # element-wise helpers taking "array_like" angles: list / tuple / 1-D array must be interchangeable (row and column keep their shape)
    E('base.angdiff', [V(None)], tags={'forms3', 'nolength'}), E('base.angdiff', [V(None), A], tags={'forms3', 'nolength'}),
    # getmatrix: a 1-D array-like reshaped to the requested shape (a 2-D array is a matrix to it, so three forms only)
    E('base.getmatrix', [V(6), ('LIT', (2, 3))], tags={'forms3'}), E('base.getmatrix', [V(6), ('LIT', (3, 2))], tags={'forms3'}),
    E('base.getmatrix', [V((2, 4, 6, 8)), ('LIT', (None, 2))], tags={'forms3', 'nolength'}), E('base.getmatrix', [V((3, 6)), ('LIT', (3, None))], tags={'forms3', 'nolength'}),
    E('base.getmatrix', [V(None), ('LIT', (None, None))], tags={'forms3', 'nolength'}),
    E('base.h2e', [V((2, 3, 4))], tags={'nolength', 'forms3'}), E('base.e2h', [V((2, 3))], tags={'nolength', 'forms3'}),
    # one angle per twist: a vector of angles for an object holding three twists has three elements
    E('m:Twist3.exp', [V(3)], recv=('OBJM', 'Twist3')), E('m:Twist2.exp', [V(3)], recv=('OBJM', 'Twist2')),
    E('m:Twist3.exp', [V(3)], {'units': U}, recv=('OBJM', 'Twist3'), tags={'unit_in:vec'}), E('m:Twist3.exp', [A], {'units': U}, recv=('OBJM', 'Twist3'), tags={'unit_in'}),
    # "array_like(n)": the list and tuple forms give what the 1-D array gives (a 2-D array keeps its shape, so three forms only)
    E('base.removesmall', [V(None)], tags={'forms3', 'nolength'}),
    # equality of two quaternions given as vectors: equal operands, and q against -q for unit quaternions
    E('base.isequal', [V(4), V(4)], tags={'same01'}), E('base.isequal', [('Q',), ('Q',)], {'unitq': ('LIT', True)}, tags={'neg01'}),
    E('base.isequal', [('Q',), ('Q',)], {'tol': ('LIT', 100)}, tags={'same01'}),
    # the bounds of a volume: "6-element array_like"
    E('m:Plucker.intersect_volume', [V(6)], recv=('OBJ', 'Plucker')),
]


def resolve(target):
    import spatialmath as sm
    import spatialmath.base as base
    if target.startswith('base.'):
        return getattr(base, target[5:])
    if target.startswith('m:') or target.startswith('p:'):
        c, m = target[2:].split('.')
        return getattr(getattr(sm, c), m)
    c, m = target.split('.')
    C = getattr(sm, c)
    return C if m == '' else getattr(C, m)


# ----------------------------------------------------------------------------- value generators
FORCE_LONG = False        # set by a caller that wants every free-length sequence / multi-valued receiver long (64 values and more)


def gen_value(rng, spec, n=None):
    k = spec[0]
    if k == 'V':
        L = spec[1] if n is None else n
        if isinstance(L, tuple):
            L = L[rng.integers(len(L))]
        if L is None and FORCE_LONG:
            L = int([64, 65, 100, 129, 257][rng.integers(5)])
        if L is None:
            L = int(rng.integers(1, 6)) if rng.random() > 0.04 else int([16, 33, 64, 100, 257][rng.integers(5)])     # (now and then a long vector)
        return gen.vec(rng, L, 1e-2, 1e2)
    if k == 'AN3':
        return rng.uniform(-3, 3, size=(int(rng.integers(2, 5)), 3))
    if k == 'VSMALL3':
        a = gen.unit_axis(rng) * rng.uniform(0.05, 0.6)
        return a
    if k == 'VTINY6':
        return rng.normal(size=6) * 1e-4
    if k == 'UNIT3':
        a = gen.unit_axis(rng)
        return a / np.linalg.norm(a)
    if k == 'Q':
        return gen.unit_quat(rng)
    if k == 'A':
        return float(rng.uniform(-3, 3)) if rng.random() < 0.7 else gen.angle(rng)
    if k == 'S':
        return float(gen.sign(rng) * gen.logu(rng, 1e-2, 1e2)) if rng.random() > 0.06 else float(gen.sign(rng))
    if k == 'SPOS':
        return float(gen.logu(rng, 1e-2, 1e2))
    if k == 'S01':
        r_ = rng.random()
        return 0.0 if r_ < 0.12 else 1.0 if r_ < 0.24 else float(rng.random())     # (the two ends are where shortcuts live)
    if k == 'I':
        return int(rng.integers(-4, 5))
    if k == 'U':
        return ['rad', 'deg'][rng.integers(2)]
    if k == 'UPOS':
        return ['rad', 'deg'][rng.integers(2)]
    if k == 'O':
        return ['zyx', 'xyz', 'yxz', 'vehicle', 'arm', 'camera'][rng.integers(6)]
    if k == 'LIT':
        return spec[1]
    if k == 'NONE':
        return None
    if k == 'FLAG':
        return bool(rng.integers(2))
    if k == 'R3':
        return gen.so3(rng)
    if k == 'T3':
        return gen.se3(rng, hi=1e3)
    if k == 'R2':
        return gen.so2(rng)
    if k == 'T2':
        return gen.se2(rng, hi=1e3)
    if k in ('OBJ', 'OBJM'):
        return make_obj(rng, spec[1], (int([65, 70, 129][rng.integers(3)]) if FORCE_LONG else 3) if k == 'OBJM' else 1)
    raise KeyError(spec)


def make_obj(rng, cname, m=1):
    import spatialmath as sm
    C = getattr(sm, cname)

    def one():
        if cname == 'SO2':
            return gen.so2(rng)
        if cname == 'SE2':
            return gen.se2(rng, hi=1e3)
        if cname == 'SO3':
            return ref.rot(gen.unit_axis(rng), rng.uniform(0.1, 3.0))
        if cname == 'SE3':
            return ref.rt2tr(ref.rot(gen.unit_axis(rng), rng.uniform(0.1, 3.0)), gen.transl(rng, hi=1e3))
        if cname in ('UnitQuaternion',):
            return gen.unit_quat(rng)
        if cname == 'Quaternion':
            return gen.vec(rng, 4, 1e-2, 1e2)
        if cname == 'Twist3':
            return np.r_[gen.vec(rng, 3, 1e-2, 1e1), gen.unit_axis(rng) * rng.uniform(0.1, 3)]
        if cname == 'Twist2':
            return np.r_[gen.vec(rng, 2, 1e-2, 1e1), rng.uniform(-3, 3)]
        return gen.vec(rng, 6, 1e-2, 1e1)
    if cname == 'Plucker':
        return sm.Plucker.PQ(gen.vec(rng, 3, 1e-1, 1e1), gen.vec(rng, 3, 1e-1, 1e1))
    arrs = [one() for _ in range(m)]
    return C(arrs) if m > 1 else C(arrs[0])


def reflection_guard():
    """names exported by spatialmath.base that are neither catalogued nor declared not-applicable"""
    import spatialmath.base as base
    have = {e['target'][5:] for e in BASE + CLASSES if e['target'].startswith('base.')}
    return sorted(n for n in base.__all__ if n not in have and n not in BASE_NOT_APPLICABLE)
