"""vmon.trees -- random expression trees over the group classes.

E ::= leaf | E*E | E/E | E.inv() | E**n | E.prod() | E.interp(s)
A tree is a JSON-able nested list.  `evaluate` runs it with the real library and reports
every node to an observer: observer(op, operands(list of objects), extra, result)."""
import numpy as np

from . import ctors, gen


def build(rng, clsname, depth, multi_ok=True, ops=('mul', 'div', 'inv', 'pow', 'prod', 'interp'), want_multi=None):
    if depth <= 0 or rng.random() < 0.15:
        multi = multi_ok and rng.random() < 0.3 if want_multi is None else want_multi
        if rng.random() < 0.5:
            n = int(rng.integers(2, 8)) if multi else 1
            if want_multi is True and rng.random() < 0.25:
                n = int(rng.integers(16, 41)) if rng.random() < 0.6 else int(rng.integers(64, 131))       # a long sequence under prod() (a trajectory of increments)
            return ['ref', clsname, ctors.ref_leaf(rng, clsname, n)]
        nm, args, kw = ctors.ctor(rng, clsname, multi=multi)
        return ['ctor', clsname, nm, args, kw]
    op = ops[rng.integers(len(ops))]
    if clsname == 'UnitQuaternion' and op == 'prod':
        op = 'mul'
    if op in ('mul', 'div'):
        return [op, build(rng, clsname, depth - 1, multi_ok, ops), build(rng, clsname, depth - 1, multi_ok, ops)]
    if op == 'inv':
        return ['inv', build(rng, clsname, depth - 1, multi_ok, ops)]
    if op == 'pow':
        return ['pow', build(rng, clsname, depth - 1, multi_ok, ops), int(rng.integers(-8, 9))]
    if op == 'prod':
        return ['prod', build(rng, clsname, depth - 1, multi_ok, ops, want_multi=True if multi_ok else None)]
    if op == 'interp':
        s = [0.0, 1.0, 1e-12, 1 - 1e-12, 0.5][rng.integers(5)] if rng.random() < 0.4 else float(rng.random())
        return ['interp', build(rng, clsname, depth - 1, False, ops, want_multi=False), s]
    raise ValueError(op)


class Abort(Exception):
    """an operation inside the tree raised; the observer has been told"""


def _do(observer, op, operands, extra, f):
    try:
        v = f()
    except Abort:
        raise
    except Exception as e:
        observer(op, operands, dict(extra, exc=e), None)
        raise Abort() from e
    observer(op, operands, extra, v)
    return v


def evaluate(node, observer):
    """Evaluate with the library.  Length-mismatched binary nodes (both > 1, different) are
    repaired by truncating the longer operand -- broadcasting rules themselves belong to C09.
    If an operation raises, the observer is called with extra['exc'] and Abort propagates."""
    op = node[0]
    if op == 'ref':
        return _do(observer, 'ref', [], dict(cls=node[1]), lambda: ctors.from_arrays(node[1], node[2]))
    if op == 'ctor':
        return _do(observer, 'ctor', [], dict(cls=node[1], name=node[2], args=node[3], kwargs=node[4]),
                   lambda: ctors.call(node[1], node[2], node[3], node[4]))
    if op in ('mul', 'div'):
        a = evaluate(node[1], observer)
        b = evaluate(node[2], observer)
        if len(a) > 1 and len(b) > 1 and len(a) != len(b):
            n = min(len(a), len(b))
            a = type(a)([x for x in a.data[:n]], check=False)
            b = type(b)([x for x in b.data[:n]], check=False)
        return _do(observer, op, [a, b], {}, (lambda: a * b) if op == 'mul' else (lambda: a / b))
    a = evaluate(node[1], observer)
    if op == 'inv':
        return _do(observer, 'inv', [a], {}, lambda: a.inv())
    if op == 'pow':
        return _do(observer, 'pow', [a], dict(n=node[2]), lambda: a ** node[2])
    if op == 'prod':
        return _do(observer, 'prod', [a], {}, lambda: a.prod())
    if op == 'interp':
        if len(a) != 1:
            a = type(a)(a.data[0], check=False)
        return _do(observer, 'interp', [a], dict(s=node[2]), lambda: a.interp(node[2]))
    raise ValueError(op)


def size(node):
    if node[0] in ('ref', 'ctor'):
        return 1
    return 1 + sum(size(c) for c in node[1:] if isinstance(c, list) and c and isinstance(c[0], str))


def ops_in(node, acc=None):
    acc = [] if acc is None else acc
    acc.append(node[0])
    for c in node[1:]:
        if isinstance(c, list) and c and isinstance(c[0], str) and c[0] in (
                'ref', 'ctor', 'mul', 'div', 'inv', 'pow', 'prod', 'interp'):
            ops_in(c, acc)
    return acc
