"""vmon.ref -- reference models, independent of spatialmath.

(a) expm_ref: mpmath matrix exponential at 50 digits;
(b) group arithmetic in numpy.longdouble (64-bit mantissa);
(c) textbook geometry / spatial algebra in plain NumPy.
Nothing here imports spatialmath.
"""
import math

import mpmath
import numpy as np

LD = np.longdouble
EPS = np.finfo(np.float64).eps


# ----------------------------------------------------------------------------- basic
def skew(v):
    v = np.asarray(v).reshape(-1)
    if len(v) == 1:
        return np.array([[0, -v[0]], [v[0], 0]], dtype=v.dtype)
    return np.array([[0, -v[2], v[1]], [v[2], 0, -v[0]], [-v[1], v[0], 0]], dtype=v.dtype)


def skewa(s):
    s = np.asarray(s).reshape(-1)
    if len(s) == 3:
        M = np.zeros((3, 3), dtype=s.dtype)
        M[:2, :2] = skew(s[2:3])
        M[:2, 2] = s[:2]
        return M
    M = np.zeros((4, 4), dtype=s.dtype)
    M[:3, :3] = skew(s[3:6])
    M[:3, 3] = s[:3]
    return M


def vex(S):
    if S.shape == (2, 2):
        return np.array([(S[1, 0] - S[0, 1]) / 2])
    return np.array([S[2, 1] - S[1, 2], S[0, 2] - S[2, 0], S[1, 0] - S[0, 1]]) / 2


def vexa(S):
    n = S.shape[0] - 1
    return np.r_[S[:n, n], vex(S[:n, :n])]


def rot_ld(axis, theta):
    """Rodrigues on the normalised axis, in longdouble."""
    a = np.asarray(axis, dtype=LD)
    a = a / np.sqrt(np.sum(a * a))
    K = skew(a)
    th = LD(theta)
    return np.eye(3, dtype=LD) + np.sin(th) * K + (LD(1) - np.cos(th)) * (K @ K)


def rot(axis, theta):
    return np.array(rot_ld(axis, theta), dtype=np.float64)


def rot2_ld(theta):
    th = LD(theta)
    c, s = np.cos(th), np.sin(th)
    return np.array([[c, -s], [s, c]], dtype=LD)


def rot2(theta):
    return np.array(rot2_ld(theta), dtype=np.float64)


def rotx(t):
    return rot([1, 0, 0], t)


def roty(t):
    return rot([0, 1, 0], t)


def rotz(t):
    return rot([0, 0, 1], t)


def rt2tr(R, t):
    n = R.shape[0]
    T = np.eye(n + 1, dtype=np.result_type(R.dtype, np.asarray(t).dtype))
    T[:n, :n] = R
    T[:n, n] = np.asarray(t).reshape(-1)
    return T


def mm(*Ms):
    """Matrix product in longdouble."""
    out = np.asarray(Ms[0], dtype=LD)
    for M in Ms[1:]:
        out = out @ np.asarray(M, dtype=LD)
    return out


def mpow(M, n):
    M = np.asarray(M, dtype=LD)
    out = np.eye(M.shape[0], dtype=LD)
    for _ in range(abs(n)):
        out = out @ M
    return out


# ----------------------------------------------------------------------------- residuals
def rot_residual(R):
    """max(||R R' - I||_max, |det R - 1|) -- the residual the properties name."""
    R = np.asarray(R, dtype=np.float64)
    if not np.all(np.isfinite(R)):
        return math.inf
    n = R.shape[0]
    return float(max(np.max(np.abs(R @ R.T - np.eye(n))), abs(np.linalg.det(R) - 1)))


def hom_residual(T):
    """residual of an SE(n) matrix: rotation residual and last row."""
    T = np.asarray(T, dtype=np.float64)
    if not np.all(np.isfinite(T)):
        return math.inf
    n = T.shape[0] - 1
    last = np.zeros(n + 1)
    last[-1] = 1
    return float(max(rot_residual(T[:n, :n]), np.max(np.abs(T[n, :] - last))))


def dist_to_SO(R):
    """Frobenius distance to the nearest proper rotation (SVD polar factor, det-corrected)."""
    R = np.asarray(R, dtype=np.float64)
    U, s, Vt = np.linalg.svd(R)
    D = np.eye(R.shape[0])
    D[-1, -1] = np.sign(np.linalg.det(U @ Vt)) or 1.0
    Q = U @ D @ Vt
    return float(np.linalg.norm(R - Q))


def dist_to_SE(T):
    T = np.asarray(T, dtype=np.float64)
    n = T.shape[0] - 1
    last = np.zeros(n + 1)
    last[-1] = 1
    return float(math.hypot(dist_to_SO(T[:n, :n]), np.linalg.norm(T[n, :] - last)))


def rot_angle(R):
    """Rotation angle in [0, pi] of an (approximately) SO(3)/SO(2) matrix, robustly."""
    R = np.asarray(R, dtype=np.float64)
    if R.shape[0] == 2:
        return abs(math.atan2(R[1, 0], R[0, 0]))
    s = np.linalg.norm([R[2, 1] - R[1, 2], R[0, 2] - R[2, 0], R[1, 0] - R[0, 1]]) / 2
    c = (np.trace(R) - 1) / 2
    return math.atan2(s, c)


# ----------------------------------------------------------------------------- exponential
def expm_ref(M, dps=50, out=np.float64):
    """Matrix exponential at `dps` digits (mpmath Pade + scaling), rounded to `out`."""
    M = np.asarray(M)
    old = mpmath.mp.dps
    mpmath.mp.dps = dps
    try:
        A = mpmath.matrix([[mpmath.mpf(float(x)) if not isinstance(x, mpmath.mpf) else x for x in row]
                           for row in M.tolist()])
        E = mpmath.expm(A)
        n = M.shape[0]
        if out is np.float64:
            return np.array([[float(E[i, j]) for j in range(n)] for i in range(n)])
        return np.array([[LD(mpmath.nstr(E[i, j], 25)) for j in range(n)] for i in range(n)], dtype=LD)
    finally:
        mpmath.mp.dps = old


def exp_se3_ref(S):
    """exp of a twist vector (v, w) length 6 / 3 (2-D) / 3x3 so(3) vector length 3 given `so`."""
    return expm_ref(skewa(np.asarray(S, dtype=np.float64)))


def exp_so3_ref(w):
    return expm_ref(skew(np.asarray(w, dtype=np.float64)))


# ----------------------------------------------------------------------------- quaternions
def qmul(p, q, dt=LD):
    p = np.asarray(p, dtype=dt)
    q = np.asarray(q, dtype=dt)
    s1, x1, y1, z1 = p
    s2, x2, y2, z2 = q
    return np.array([s1 * s2 - x1 * x2 - y1 * y2 - z1 * z2,
                     s1 * x2 + x1 * s2 + y1 * z2 - z1 * y2,
                     s1 * y2 - x1 * z2 + y1 * s2 + z1 * x2,
                     s1 * z2 + x1 * y2 - y1 * x2 + z1 * s2], dtype=dt)


def qconj(q):
    q = np.asarray(q)
    return np.r_[q[0], -q[1:]]


def q2r(q, dt=LD):
    s, x, y, z = np.asarray(q, dtype=dt)
    return np.array([[1 - 2 * (y * y + z * z), 2 * (x * y - s * z), 2 * (x * z + s * y)],
                     [2 * (x * y + s * z), 1 - 2 * (x * x + z * z), 2 * (y * z - s * x)],
                     [2 * (x * z - s * y), 2 * (y * z + s * x), 1 - 2 * (x * x + y * y)]], dtype=dt)


def q_from_axis_angle(axis, theta, dt=LD):
    a = np.asarray(axis, dtype=dt)
    a = a / np.sqrt(np.sum(a * a))
    h = dt(theta) / 2
    return np.r_[np.cos(h), np.sin(h) * a]


def q_same_rotation(p, q):
    """distance between unit quaternions up to sign"""
    p = np.asarray(p, dtype=np.float64)
    q = np.asarray(q, dtype=np.float64)
    return float(min(np.max(np.abs(p - q)), np.max(np.abs(p + q))))


# ----------------------------------------------------------------------------- spatial algebra
def adjoint(T):
    """6x6 adjoint of SE(3) acting on twists ordered (v, w): [[R, [t]x R],[0, R]]."""
    T = np.asarray(T)
    R, t = T[:3, :3], T[:3, 3]
    Z = np.zeros((3, 3), dtype=T.dtype)
    return np.block([[R, skew(t) @ R], [Z, R]])


def ad(S):
    S = np.asarray(S)
    v, w = S[:3], S[3:]
    return np.block([[skew(w), skew(v)], [np.zeros((3, 3)), skew(w)]])


def crm(v):
    """Featherstone motion cross-product matrix for spatial vectors ordered (v, w) as in the library:
    [skew(w) skew(v); 0 skew(w)]."""
    return ad(v)


def crf(v):
    return -crm(v).T


def parallel_axis_inertia(m, c, I):
    C = skew(np.asarray(c, dtype=np.float64))
    return np.block([[m * np.eye(3), m * C.T], [m * C, np.asarray(I) + m * C @ C.T]])


# ----------------------------------------------------------------------------- geometry
def point_line_residual(p, v, w):
    """distance of p from the Pluecker line (moment v, direction w): ||w x p ... || / ||w||
    using the library's convention v = w x point  (PointDir: v = dir x point)."""
    p, v, w = (np.asarray(x, dtype=np.float64) for x in (p, v, w))
    return float(np.linalg.norm(np.cross(w, p) - v) / np.linalg.norm(w))


def closest_on_line(x, p0, d):
    """foot of the perpendicular from x on the line p0 + s d; returns (foot, distance, s_in_units_of_|d|)"""
    x, p0, d = (np.asarray(a, dtype=np.float64) for a in (x, p0, d))
    u = d / np.linalg.norm(d)
    lam = float(np.dot(x - p0, u))
    foot = p0 + lam * u
    return foot, float(np.linalg.norm(x - foot)), lam


def line_line(p1, d1, p2, d2):
    """distance between two non-parallel lines and the feet of the common perpendicular."""
    p1, d1, p2, d2 = (np.asarray(a, dtype=np.float64) for a in (p1, d1, p2, d2))
    n = np.cross(d1, d2)
    nn = np.dot(n, n)
    r = p2 - p1
    dist = abs(np.dot(r, n)) / math.sqrt(nn)
    s1 = np.dot(np.cross(r, d2), n) / nn
    s2 = np.dot(np.cross(r, d1), n) / nn
    return float(dist), p1 + s1 * d1, p2 + s2 * d2


# ----------------------------------------------------------------------------- closed-form exp (longdouble)
def _abc(th):
    """sin(th)/th, (1-cos th)/th^2, (th-sin th)/th^3 in longdouble, series below 1e-2"""
    th = LD(th)
    t2 = th * th
    if abs(th) < LD('1e-2'):
        A = 1 - t2 / 6 * (1 - t2 / 20 * (1 - t2 / 42 * (1 - t2 / 72)))
        B = LD(1) / 2 * (1 - t2 / 12 * (1 - t2 / 30 * (1 - t2 / 56 * (1 - t2 / 90))))
        C = LD(1) / 6 * (1 - t2 / 20 * (1 - t2 / 42 * (1 - t2 / 72 * (1 - t2 / 110))))
        return A, B, C
    s2 = np.sin(th / 2)
    return np.sin(th) / th, 2 * s2 * s2 / t2, (th - np.sin(th)) / (t2 * th)


def exp_twist_ld(S):
    """exp of a twist vector: (v, w) with len 6 (se3) or 3 (se2); so(3) 3-vector via exp_rot_ld.
    Closed form in longdouble, validated against the 50-digit mpmath exponential (tools/selftest)."""
    S = np.asarray(S, dtype=LD).reshape(-1)
    if S.size == 6:
        v, w, n = S[:3], S[3:], 3
        th = np.sqrt(np.sum(w * w))
    else:
        v, w, n = S[:2], S[2:], 2
        th = abs(w[0])
    K = skew(w)
    A, B, C = _abc(th)
    I = np.eye(n, dtype=LD)
    K2 = K @ K
    R = I + A * K + B * K2
    V = I + B * K + C * K2
    T = np.eye(n + 1, dtype=LD)
    T[:n, :n] = R
    T[:n, n] = V @ v
    return T


def exp_rot_ld(w):
    """exp of so(3) 3-vector or so(2) 1-vector"""
    w = np.asarray(w, dtype=LD).reshape(-1)
    th = np.sqrt(np.sum(w * w)) if w.size == 3 else abs(w[0])
    K = skew(w)
    A, B, _ = _abc(th)
    return np.eye(K.shape[0], dtype=LD) + A * K + B * (K @ K)


def f64(M):
    return np.array(M, dtype=np.float64)
