"""vmon.core -- monitors, three-valued verdicts, evidence, replay files, known findings.

A *monitor* is an oracle attached to executions of the real code.  Every evaluation is
recorded: in-domain + passed, in-domain + violated, out-of-domain (counted, never judged).
Monitors never raise into the code under test: they record, the check decides at the end.
"""
import collections
import hashlib
import json
import math
import os
import time
import traceback

import sys

import numpy as np

TMULT = float(os.environ.get('VERIF_TMULT', '6'))
HOME = os.environ.get('VERIF_HOME', os.path.dirname(os.path.dirname(os.path.abspath(__file__))))


# ----------------------------------------------------------------------------- JSON helpers
def J(x):
    """Convert to something json.dumps can write and `U` can restore exactly."""
    if isinstance(x, np.ndarray):
        if x.dtype == object:
            return {'__obj__': [J(v) for v in x.tolist()], 'shape': list(x.shape)}
        return {'__nd__': x.tolist(), 'dtype': str(x.dtype), 'shape': list(x.shape)}
    if isinstance(x, (np.floating,)):
        return float(x)
    if isinstance(x, (np.integer,)):
        return int(x)
    if isinstance(x, (np.bool_,)):
        return bool(x)
    if isinstance(x, tuple):
        return {'__tuple__': [J(v) for v in x]}
    if isinstance(x, list):
        return [J(v) for v in x]
    if isinstance(x, dict):
        return {str(k): J(v) for k, v in x.items()}
    if isinstance(x, (int, float, str, bool)) or x is None:
        return x
    return repr(x)


def U(x):
    """Inverse of J."""
    if isinstance(x, dict):
        if '__nd__' in x:
            return np.array(x['__nd__'], dtype=x['dtype']).reshape(x['shape'])
        if '__tuple__' in x:
            return tuple(U(v) for v in x['__tuple__'])
        if '__obj__' in x:
            return np.array(x['__obj__'], dtype=object).reshape(x['shape'])
        return {k: U(v) for k, v in x.items()}
    if isinstance(x, list):
        return [U(v) for v in x]
    return x


def short(x, n=300):
    s = x if isinstance(x, str) else repr(x)
    return s if len(s) <= n else s[:n] + '...'


def band(x, lo=-16, hi=8):
    """Decimal magnitude band of a non-negative number: '0', '<1e-16', '1e-7' ..."""
    x = abs(float(x))
    if x == 0:
        return '0'
    if not math.isfinite(x):
        return 'nonfinite'
    e = math.floor(math.log10(x))
    if e < lo:
        return '<1e%d' % lo
    if e > hi:
        return '>1e%d' % hi
    return '1e%d' % e


def hkey(*parts):
    """64-bit key of a case description (distinct-case counting, replay file names)"""
    return int.from_bytes(hashlib.blake2b(repr(parts).encode(), digest_size=8).digest(), 'big')


# ----------------------------------------------------------------------------- context
class Ctx:
    """State of one run (one shard) of one property check."""

    MAX_WITNESS_PER_SIG = 1

    def __init__(self, prop, tier='quick', seed=0, shard=0, nshards=1, replay=False):
        self.prop = prop
        self.tier = tier
        self.seed = seed
        self.shard = shard
        self.nshards = nshards
        self.replay = replay
        self.mon = collections.defaultdict(lambda: dict(evals=0, passed=0, violated=0, out_of_domain=0))
        self.viol = {}                 # signature-key -> record (first witness)
        self.viol_count = collections.Counter()
        self.nt = set()                # distinct non-trivial case keys (hashed)
        self.cells = collections.Counter()
        self.samples = []
        self.case = None               # the (kind, params) being executed, for witnesses
        self.ncases = 0
        self.harness_errors = []
        self.extra = {}
        self.t0 = time.time()
        self.rng = np.random.default_rng(np.random.SeedSequence([seed, int(prop[1:]), shard]))

    # -- sharding helper for enumerations
    def mine(self, i):
        return i % self.nshards == self.shard

    def scale(self, quick, thorough):
        """Case budget for this shard (thorough budgets are multiplied by VERIF_TMULT, default 6)."""
        n = quick if self.tier == 'quick' else thorough * TMULT
        return max(1, int(math.ceil(n / self.nshards)))

    # -- recording
    def ok(self, monitor, n=1):
        m = self.mon[monitor]
        m['evals'] += n
        m['passed'] += n

    def ood(self, monitor, n=1):
        self.mon[monitor]['out_of_domain'] += n

    def cell(self, *key):
        self.cells['/'.join(str(k) for k in key)] += 1

    def nontrivial(self, *key):
        self.nt.add(hkey(*key))

    def sample(self, obj, limit=6):
        if len(self.samples) < limit:
            self.samples.append(J(obj))

    def bad(self, monitor, sig, detail, case=None):
        """Record a violation.  `sig`: dict of *mechanism* fields (never random values)."""
        m = self.mon[monitor]
        m['evals'] += 1
        m['violated'] += 1
        sig = dict(sig)
        sig['monitor'] = monitor
        sig['property'] = self.prop
        if sys.flags.optimize:
            sig['config'] = 'python -O'      # interpreter configuration under which the case ran (assert statements stripped)
        key = json.dumps(sig, sort_keys=True, default=str)
        self.viol_count[key] += 1
        if key not in self.viol:
            c = case if case is not None else self.case
            self.viol[key] = dict(sig=sig, detail=short(detail, 1500), case=J(c),
                                  seed=self.seed, shard=self.shard, tier=self.tier, config='python -O' if sys.flags.optimize else 'default')

    def judge(self, monitor, cond, sig, detail=None, case=None):
        if cond:
            self.ok(monitor)
        else:
            self.bad(monitor, sig, detail() if callable(detail) else detail, case)
        return cond

    # -- (de)serialisation for shards
    def dump(self):
        return dict(mon={k: dict(v) for k, v in self.mon.items()}, viol=self.viol,
                    viol_count=dict(self.viol_count), nt=list(self.nt), cells=dict(self.cells),
                    samples=self.samples, ncases=self.ncases, harness_errors=self.harness_errors,
                    extra=self.extra, wall=time.time() - self.t0)


def fresh_strings(x, depth=0):
    """the same parameters with every string value a newly made object: an option name that reaches the library from a file, the
    command line or JSON is equal to, not identical with, the literal in the library's source (`unit is 'deg'` is then False)"""
    if isinstance(x, str):
        return (x + ' ')[:-1] if len(x) > 1 else x
    if depth > 6:
        return x
    if isinstance(x, dict):
        return {k: fresh_strings(v, depth + 1) for k, v in x.items()}
    if isinstance(x, list):
        return [fresh_strings(v, depth + 1) for v in x]
    if isinstance(x, tuple):
        return tuple(fresh_strings(v, depth + 1) for v in x)
    return x


def drive(runners, ctx, kind, params):
    """Execute one replayable case under the monitors (params are restored through J/U so that a
    replay sees exactly what the first run saw)."""
    ctx.case = dict(kind=kind, params=params)
    ctx.ncases += 1
    try:
        runners[kind](ctx, fresh_strings(params))
    except Exception:
        if len(ctx.harness_errors) < 5:
            ctx.harness_errors.append('case %s: %s' % (short(J(ctx.case), 600), fmt_tb()))
        else:
            ctx.harness_errors.append('...')


def merge(dumps):
    out = dict(mon={}, viol={}, viol_count=collections.Counter(), nt=set(), nt_parts=[], cells=collections.Counter(),
               samples=[], ncases=0, harness_errors=[], extra={}, wall=0.0)
    for d in dumps:
        for k, v in d['mon'].items():
            m = out['mon'].setdefault(k, dict(evals=0, passed=0, violated=0, out_of_domain=0))
            for f in m:
                m[f] += v.get(f, 0)
        for k, v in d['viol'].items():
            out['viol'].setdefault(k, v)
        out['viol_count'].update(d['viol_count'])
        out['nt_parts'].append(np.asarray(d['nt'], dtype=np.uint64))
        out['cells'].update(d['cells'])
        for s in d['samples']:
            if len(out['samples']) < 8:
                out['samples'].append(s)
        out['ncases'] += d['ncases']
        out['harness_errors'] += d['harness_errors']
        for k, v in d['extra'].items():
            if isinstance(v, dict) and isinstance(out['extra'].get(k), dict):
                merge_extra(out['extra'][k], v)
            elif isinstance(v, (int, float)) and isinstance(out['extra'].get(k), (int, float)):
                out['extra'][k] += v
            else:
                out['extra'].setdefault(k, v)
        out['wall'] = max(out['wall'], d['wall'])
    out['nt'] = np.unique(np.concatenate(out.pop('nt_parts'))) if out['nt_parts'] else np.zeros(0, dtype=np.uint64)
    return out


def merge_extra(a, b):
    """Merge two 'extra' dicts: numbers add, lists of ints union (line sets), dicts recurse."""
    for k, v in b.items():
        if k not in a:
            a[k] = v
        elif isinstance(v, dict) and isinstance(a[k], dict):
            merge_extra(a[k], v)
        elif isinstance(v, list) and isinstance(a[k], list):
            a[k] = sorted(set(a[k]) | set(v))
        elif isinstance(v, (int, float)) and isinstance(a[k], (int, float)) and not isinstance(v, bool):
            a[k] += v


# ----------------------------------------------------------------------------- known findings
def load_findings(prop=None):
    path = os.path.join(HOME, 'known_findings.json')
    if not os.path.exists(path):
        return []
    with open(path) as f:
        data = json.load(f)
    ent = data.get('findings', [])
    if prop:
        ent = [e for e in ent if e.get('property') == prop]
    return ent


def match_finding(sig, findings):
    """Return the *open* finding whose `match` fields all agree with the signature, else None."""
    for e in findings:
        if e.get('status') != 'open':
            continue
        ok = True
        for k, want in e.get('match', {}).items():
            have = sig.get(k)
            if isinstance(want, list):
                if have not in want:
                    ok = False
                    break
            elif have != want:
                ok = False
                break
        if ok:
            return e
    return None


def fmt_tb():
    return traceback.format_exc(limit=8)
