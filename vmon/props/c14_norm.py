"""C14 -- normalisation projects onto the group and is idempotent.

Post-condition monitors (rebound on every binding) on trnorm, unit, unitvec, unitvec_norm,
unittwist, unittwist_norm, unittwist2, unittwist2_norm and angdiff, plus boundary oracles on
Quaternion.unit(), UnitQuaternion(v), Twist3/Twist2.unit and pose.norm().  1e-12.
"""
import math

import numpy as np

from .. import core, gen, ref
from ..core import drive
from ..instrument import hook_function

PROP = 'C14'
SHARDS = {'quick': 4, 'thorough': 16}
TOL = 1e-12
PI = math.pi
EPS = np.finfo(float).eps
RULE = ('valid members perturbed by noise 1e-15..1e-2 (one entry / all entries); non-zero vectors, quaternions and twists with '
        'norms 1e-6..1e6; twists whose rotational part is exactly 0, 5 eps, 20 eps, 1e-12 (either side of the 10 eps zero test); '
        'angles and angle pairs within +-1e3 incl. exact multiples of pi and both ends of the interval, scalar and array '
        'arguments. distinct = (api, input rounded to 12 significant digits); non-trivial = perturbation > 1e-15 or norm != 1')
ASSUMPTIONS = ['direction preserved = result equals input / positive scalar (compared with a longdouble division)',
               'angdiff: congruence judged to 1e-12 + 4 ulp of the argument magnitude']
MIN_EVALS = {'trnorm': {'quick': 4000, 'thorough': 60000}, 'unit': {'quick': 5000, 'thorough': 80000},
             'unittwist': {'quick': 2500, 'thorough': 40000}, 'angdiff': {'quick': 2500, 'thorough': 40000},
             'class': {'quick': 1200, 'thorough': 18000}}
_ctx = None


def S():
    import spatialmath
    return spatialmath


def B():
    import spatialmath.base as b
    return b


def fin(x):
    try:
        return bool(np.all(np.isfinite(np.asarray(x, dtype=np.float64))))
    except Exception:
        return False


def md(a, b):
    a, b = np.asarray(a, dtype=np.float64), np.asarray(b, dtype=np.float64)
    if a.shape != b.shape or not np.all(np.isfinite(a)):
        return math.inf
    return float(np.max(np.abs(a - b))) if a.size else 0.0


# ----------------------------------------------------------------------------- oracles
def judge_trnorm(ctx, api, T, out, again):
    """T: 3x3 or 4x4 nearly valid; out = normalise(T); again = normalise(out)"""
    T = np.asarray(T, dtype=np.float64)
    sig = dict(api=api, shape=str(T.shape))
    what = lambda: '%s(%s)' % (api, core.short(T, 400))
    out = np.asarray(out)
    if out.shape != T.shape or out.dtype == object or not fin(out):
        ctx.bad('trnorm', dict(sig, kind='shape_or_nonfinite'), '%s returned %s' % (what(), core.short(out)))
        return
    R, Rn = T[:3, :3], out[:3, :3]
    res = ref.rot_residual(Rn)
    ctx.judge('trnorm', res <= TOL, dict(sig, kind='not_a_member'), lambda: '%s: result has residual %.3g' % (what(), res))
    d2 = md(again, out)
    ctx.judge('trnorm', d2 <= TOL, dict(sig, kind='not_idempotent'), lambda: '%s: second application changes the result by %.3g' % (what(), d2))
    if T.shape == (4, 4):
        ctx.judge('trnorm', np.array_equal(out[:3, 3], T[:3, 3]) and np.array_equal(out[3], [0, 0, 0, 1]), dict(sig, kind='translation_changed'),
                  lambda: '%s: translation / last row changed: %s' % (what(), out[:, 3]))
    # direction of the approach (third) axis kept
    a_old = np.asarray(R[:, 2], dtype=ref.LD)
    a_unit = np.array(a_old / np.sqrt(np.sum(a_old * a_old)), dtype=np.float64)
    da = md(Rn[:, 2], a_unit)
    ctx.judge('trnorm', da <= TOL, dict(sig, kind='approach_axis_changed'), lambda: '%s: third column direction changed by %.3g' % (what(), da))
    # second axis in the plane of the original second and third axes
    nrm = np.cross(R[:, 1], R[:, 2])
    nn = np.linalg.norm(nrm)
    if nn > 0.5:
        off = abs(float(np.dot(Rn[:, 1], nrm / nn)))
        ctx.judge('trnorm', off <= TOL, dict(sig, kind='second_axis_left_plane'), lambda: '%s: new second axis is %.3g out of span{o, a}' % (what(), off))
    # a valid input is returned unchanged
    if ref.rot_residual(R) <= 1e-15 and (T.shape != (4, 4) or np.array_equal(T[3], [0, 0, 0, 1])):
        dv = md(out, T)
        ctx.judge('trnorm', dv <= TOL, dict(sig, kind='valid_input_changed'), lambda: '%s: valid input changed by %.3g' % (what(), dv))
    ctx.cell('trnorm', api, T.shape[0], core.band(ref.rot_residual(R), lo=-17))
    ctx.nontrivial(api, [float('%.12g' % x) for x in T.reshape(-1)])


def judge_unit(ctx, api, v, out, again=None, mon='unit'):
    """out must be v/|v| (direction kept, unit norm); idempotent"""
    v = np.asarray(v, dtype=np.float64).reshape(-1)
    sig = dict(api=api, n=len(v))
    what = lambda: '%s(%s)' % (api, v)
    if out is None or not fin(out) or np.size(out) != len(v):
        ctx.bad(mon, dict(sig, kind='none_or_nonfinite'), '%s returned %s' % (what(), core.short(out)))
        return
    out = np.asarray(out, dtype=np.float64).reshape(-1)
    vl = np.asarray(v, dtype=ref.LD)
    want = np.array(vl / np.sqrt(np.sum(vl * vl)), dtype=np.float64)
    d = md(out, want)
    ctx.judge(mon, d <= TOL, dict(sig, kind='not_unit_or_direction_changed'),
              lambda: '%s = %s, expected %s (difference %.3g, norm %.17g)' % (what(), out, want, d, np.linalg.norm(out)))
    if again is not None:
        d2 = md(np.asarray(again).reshape(-1), out)
        ctx.judge(mon, d2 <= TOL, dict(sig, kind='not_idempotent'), lambda: '%s: second application changes the result by %.3g' % (what(), d2))
    ctx.cell(mon, api, len(v), core.band(np.linalg.norm(v)))
    ctx.nontrivial(api, [float('%.12g' % x) for x in v])


def judge_unittwist(ctx, api, Sv, out, again=None):
    Sv = np.asarray(Sv, dtype=np.float64).reshape(-1)
    nw = 3 if len(Sv) == 6 else 1
    w_in, v_in = Sv[len(Sv) - nw:], Sv[:len(Sv) - nw]
    sig = dict(api=api, wband=core.band(np.linalg.norm(w_in), lo=-17))
    what = lambda: '%s(%s)' % (api, Sv)
    if out is None or not fin(out) or np.size(out) != len(Sv):
        ctx.bad('unittwist', dict(sig, kind='none_or_nonfinite'), '%s returned %s' % (what(), core.short(out)))
        return
    out = np.asarray(out, dtype=np.float64).reshape(-1)
    w, v = out[len(Sv) - nw:], out[:len(Sv) - nw]
    nwo, nvo = float(np.linalg.norm(w)), float(np.linalg.norm(v))
    # parallel to the input with a positive factor
    k = float(np.dot(out, Sv) / np.dot(out, out)) if np.dot(out, out) > 0 else 0.0
    # a rotational part below the library's absolute zero threshold may be dropped (it is treated as exactly zero)
    cmp_in = Sv.copy()
    if np.linalg.norm(w_in) <= 100 * EPS and nwo == 0:
        cmp_in[len(Sv) - nw:] = 0
    par = k > 0 and md(out * k, cmp_in) <= 1e-12 * max(1e-300, float(np.max(np.abs(Sv))))
    unit_rot = abs(nwo - 1) <= TOL
    unit_trans = np.linalg.norm(w_in) <= 100 * EPS and abs(nvo - 1) <= TOL
    ctx.judge('unittwist', par and (unit_rot or unit_trans), dict(sig, kind='not_unit_twist' if par else 'direction_changed'),
              lambda: '%s = %s: |w| = %.17g, |v| = %.17g, parallel=%s' % (what(), out, nwo, nvo, par))
    if again is not None and fin(again):
        d2 = md(np.asarray(again).reshape(-1), out) / max(1.0, float(np.max(np.abs(out))))
        ctx.judge('unittwist', d2 <= TOL, dict(sig, kind='not_idempotent'), lambda: '%s: second application changes the result by %.3g' % (what(), d2))
    ctx.cell('unittwist', api, sig['wband'])
    ctx.nontrivial(api, [float('%.12g' % x) for x in Sv])


def judge_angdiff(ctx, a, b, out, etype=None):
    sig = dict(api='base.angdiff', args='1' if b is None else '2', form='array' if np.ndim(a) else 'scalar')
    if etype:
        sig['element_type'] = 'float32' if etype == 'float32' else 'narrow integer'

    A = np.atleast_1d(np.asarray(a, dtype=np.float64))
    Bv = np.zeros_like(A) if b is None else np.broadcast_to(np.asarray(b, dtype=np.float64), A.shape)
    O = np.atleast_1d(np.asarray(out, dtype=np.float64))
    if O.shape != A.shape or not fin(O):
        ctx.bad('angdiff', dict(sig, kind='shape_or_nonfinite'), 'angdiff(%s, %s) = %s' % (a, b, out))
        return
    for x, y, o in zip(A.reshape(-1), Bv.reshape(-1), O.reshape(-1)):
        dl = ref.LD(x) - ref.LD(y)
        k = np.round((dl - ref.LD(o)) / (2 * ref.LD(np.pi)))
        cong = abs(float(dl - ref.LD(o) - 2 * ref.LD(math.pi) * k))
        tol = 1e-12 + 4 * EPS * (abs(x) + abs(y) + PI)
        ok = -PI - 1e-15 <= o <= PI + 1e-15 and cong <= tol
        ctx.judge('angdiff', ok, dict(sig, kind='range' if not (-PI - 1e-15 <= o <= PI + 1e-15) else 'not_congruent'),
                  lambda: 'angdiff(%r, %r) = %r: in [-pi,pi]=%s, distance to congruence %.3g' % (x, None if b is None else y, o, -PI <= o <= PI, cong))
    ctx.cell('angdiff', sig['args'], sig['form'])
    ctx.nontrivial('angdiff', [float('%.12g' % x) for x in np.r_[A.reshape(-1), Bv.reshape(-1)]])


# ----------------------------------------------------------------------------- runners
def run_trnorm(ctx, p):
    b = B()
    T = np.asarray(p['T'], dtype=np.float64)
    given = T
    if p.get('float32'):
        # a single-precision matrix (from a sensor driver, a file): a member perturbed by about 6e-8, well inside the stated noise
        given = T.astype(np.float32)
        T = given.astype(np.float64)
    try:
        out = b.trnorm(given)
        again = b.trnorm(out)
    except Exception as e:
        ctx.bad('trnorm', dict(api='base.trnorm', kind='raised', exc=type(e).__name__, float32=bool(p.get('float32'))), 'trnorm raised %r for %s' % (e, core.short(T, 300)))
        return
    judge_trnorm(ctx, 'base.trnorm' + (' (float32 input)' if p.get('float32') else ''), T, np.asarray(out, dtype=np.float64), np.asarray(again, dtype=np.float64))


def run_pose_norm(ctx, p):
    sm = S()
    c = p['cls']
    Ts = [np.asarray(T, dtype=np.float64) for T in p['T']]
    C = getattr(sm, c)
    given = Ts
    if p.get('float32'):
        given = [T.astype(np.float32) for T in Ts]
        Ts = [T.astype(np.float64) for T in given]
    try:
        X = C(given if len(given) > 1 else given[0], check=False)
        Y = X.norm()
        Z = Y.norm()
    except Exception as e:
        ctx.bad('class', dict(api=c + '.norm', kind='raised', exc=type(e).__name__), '%s.norm() raised %r' % (c, e))
        return
    if type(Y) is not C or len(Y) != len(Ts):
        ctx.bad('class', dict(api=c + '.norm', kind='wrong_type_or_length'), '%s.norm() returned %s of length %d' % (c, type(Y).__name__, len(Y)))
        return
    for T, y, z in zip(Ts, Y.data, Z.data):
        if c in ('SO3', 'SE3'):
            judge_trnorm(ctx, c + '.norm', T, y, z)
        else:
            n = 2
            res = ref.rot_residual(np.asarray(y)[:n, :n])
            ok = np.shape(y) == T.shape and res <= TOL and md(z, y) <= TOL and (c == 'SO2' or (np.array_equal(np.asarray(y)[:2, 2], T[:2, 2]) and np.array_equal(np.asarray(y)[2], [0, 0, 1])))
            if ok and ref.rot_residual(T[:2, :2]) <= 1e-15:
                ok = md(y, T) <= TOL
            ctx.judge('class', bool(ok), dict(api=c + '.norm', kind='not_member_idempotent_or_translation'),
                      lambda: '%s.norm() of %s gives %s (residual %.3g)' % (c, core.short(T, 200), core.short(y, 200), res))
    ctx.ok('class')
    ctx.cell('class', c + '.norm', len(Ts))
    ctx.nontrivial(c + '.norm', [float('%.12g' % x) for T in Ts for x in T.reshape(-1)])


def run_unit(ctx, p):
    b = B()
    sm = S()
    api = p['api']
    v = np.asarray(p['v'], dtype=np.float64)
    try:
        if api == 'base.unitvec':
            out = b.unitvec(v)
            again = b.unitvec(out) if out is not None else None
        elif api == 'base.unitvec_norm':
            r = b.unitvec_norm(v)
            if r is None or len(r) != 2:
                ctx.bad('unit', dict(api=api, kind='none_or_nonfinite'), 'unitvec_norm(%s) returned %r' % (v, r))
                return
            out, n = r
            want = float(np.sqrt(np.sum(np.asarray(v, dtype=ref.LD) ** 2)))
            ctx.judge('unit', abs(n - want) <= 1e-12 * want, dict(api=api, kind='norm_wrong'), lambda: 'unitvec_norm(%s) norm %r expected %r' % (v, n, want))
            again = b.unitvec_norm(out)[0]
        elif api == 'base.unit':
            out = b.unit(v)
            again = b.unit(out)
        elif api == 'Quaternion.unit':
            q = sm.Quaternion(v).unit()
            ok = type(q) is sm.UnitQuaternion and len(q) == 1
            if not ok:
                ctx.bad('unit', dict(api=api, kind='wrong_type'), 'Quaternion.unit() returned %s' % type(q).__name__)
                return
            out = q.A
            again = q.unit().A
        elif api == 'UnitQuaternion.ctor':
            form, kw = p.get('form', 'vec'), ({} if p.get('check') is None else dict(check=bool(p['check'])))
            flagval = {'True': True, '1': 1, 'np.True_': np.True_, 'np.int64(1)': np.int64(1)}
            if p.get('normflag'):          # normalisation asked for explicitly, by True or by another true value (a NumPy comparison gives numpy.True_)
                kw['norm'] = flagval[p['normflag']]
            if p.get('checkflag') and 'check' in kw:
                kw['check'] = {True: flagval[p['checkflag']], False: {'True': False, '1': 0, 'np.True_': np.False_, 'np.int64(1)': np.int64(0)}[p['checkflag']]}[kw['check']]
            if form == 'sv':
                q = sm.UnitQuaternion(float(v[0]), v[1:], **kw)
            elif form == 'list':
                q = sm.UnitQuaternion([float(t) for t in v], **kw)
            elif form in ('list_of_vecs', 'Nx4'):
                others = [np.asarray(x, dtype=np.float64) for x in p['others']]
                arg = [v.copy()] + others if form == 'list_of_vecs' else np.vstack([v] + others)
                q = sm.UnitQuaternion(arg, **kw)
                if len(q) != 1 + len(others):
                    ctx.bad('unit', dict(api=api, kind='wrong_length', form=form), 'UnitQuaternion of %d values gives %d' % (1 + len(others), len(q)))
                    return
                for x, o in zip([v] + others, q.data):
                    judge_unit(ctx, api, x, o)
                ctx.cell('unit_ctor', form, str(p.get('check')))
                return
            else:
                q = sm.UnitQuaternion(v, **kw)
            ctx.cell('unit_ctor', form, str(p.get('check')))
            out = q.A
            again = sm.UnitQuaternion(np.array(out)).A
        elif api == 'UnitQuaternion.unit':
            # a UnitQuaternion holding numbers that were stored as given (norm=False, check=False): unit() normalises them
            form = p.get('form', 'sv')
            if form == 'sv':
                q0 = sm.UnitQuaternion(float(v[0]), v[1:], norm=False, check=False)
            else:
                others = [np.asarray(x, dtype=np.float64) for x in p['others']]
                q0 = sm.UnitQuaternion(np.vstack([v] + others), norm=False, check=False)
            q = q0.unit()
            if type(q) is not sm.UnitQuaternion or len(q) != len(q0):
                ctx.bad('unit', dict(api=api, kind='wrong_type_or_length', form=form), 'UnitQuaternion.unit() returned %s of length %d' % (type(q).__name__, len(q)))
                return
            for x, o in zip([np.asarray(d_, dtype=np.float64) for d_ in q0.data], q.data):
                judge_unit(ctx, api, x, o)
            # ... and so does the constructor given that object (the copy form: UnitQuaternion(q)), alone or in a list
            for qc in ([sm.UnitQuaternion(q0)] + ([sm.UnitQuaternion([q0, q0])] if len(q0) == 1 else [])):
                if type(qc) is not sm.UnitQuaternion or len(qc) % len(q0):
                    ctx.bad('unit', dict(api='UnitQuaternion.ctor', kind='wrong_type_or_length', form='instance'), 'UnitQuaternion(q) returned %s of length %d' % (type(qc).__name__, len(qc)))
                    return
                for j_, o in enumerate(qc.data):
                    judge_unit(ctx, 'UnitQuaternion.ctor(instance)', np.asarray(q0.data[j_ % len(q0)], dtype=np.float64), o)
            ctx.cell('unit_ctor', 'unit() after norm=False', form)
            return
        elif api == 'Quaternion.unit.multi':
            vs = np.asarray(p['vs'], dtype=np.float64)
            q = sm.Quaternion([x for x in vs]).unit()
            if len(q) != len(vs):
                ctx.bad('unit', dict(api=api, kind='wrong_length'), 'unit() of %d values gives %d' % (len(vs), len(q)))
                return
            for x, o in zip(vs, q.data):
                judge_unit(ctx, api, x, o)
            return
        else:
            raise KeyError(api)
    except Exception as e:
        ctx.bad('unit', dict(api=api, kind='raised', exc=type(e).__name__), '%s raised %r for %s' % (api, e, v))
        return
    judge_unit(ctx, api, v, out, again)


def run_twist(ctx, p):
    b = B()
    sm = S()
    api = p['api']
    if 'Ss' in p:
        # an object holding several twists of mixed kinds (rotational, irrotational, pure rotation): each is normalised on its own
        Ss = [np.asarray(s_, dtype=np.float64) for s_ in p['Ss']]
        C = sm.Twist3 if api.startswith('Twist3') else sm.Twist2
        try:
            out = C(Ss).unit
            again = out.unit
        except Exception as e:
            ctx.bad('unittwist', dict(api=api, kind='raised', exc=type(e).__name__), '%s of %d values raised %r' % (api, len(Ss), e))
            return
        if type(out) is not C or len(out) != len(Ss) or len(again) != len(Ss):
            ctx.bad('unittwist', dict(api=api, kind='wrong_type_or_length'), '%s of %d values returned %s of length %d' % (api, len(Ss), type(out).__name__, len(out)))
            return
        for s_, o_, a_ in zip(Ss, out.data, again.data):
            judge_unittwist(ctx, api, s_, o_, a_)
        # the same object after its values were replaced in place (item assignment, reverse): unit describes what it holds now
        try:
            T = C(Ss)
            T.unit
            new = [np.asarray(s_, dtype=np.float64)[::-1] * 1.5 if C is sm.Twist3 else np.r_[s_[1], s_[0], s_[2]] * 1.5 for s_ in Ss]
            new = [n_ for n_ in new if np.linalg.norm(n_[-(3 if C is sm.Twist3 else 1):]) > 1e-6] or None
            if new and len(new) == len(Ss):
                for i_, n_ in enumerate(new):
                    T[i_] = C(n_)
                T.reverse()
                out2 = T.unit
                if len(out2) == len(new):
                    for s_, o_ in zip(new[::-1], out2.data):
                        judge_unittwist(ctx, api + ' (after item assignment)', s_, o_, None)
                else:
                    ctx.bad('unittwist', dict(api=api, kind='wrong_type_or_length', after='item assignment'), '%s after item assignment: %d values for %d' % (api, len(out2), len(new)))
        except Exception as e:
            ctx.bad('unittwist', dict(api=api, kind='raised', exc=type(e).__name__, after='item assignment'), '%s after item assignment raised %r' % (api, e))
        ctx.cell('unittwist_multi', api, len(Ss), ''.join(sorted(set('p' if np.linalg.norm(s_[-(3 if C is sm.Twist3 else 1):]) == 0 else 'r' for s_ in Ss))))
        return
    Sv = np.asarray(p['S'], dtype=np.float64)
    try:
        if api == 'base.unittwist':
            out = b.unittwist(Sv)
            again = b.unittwist(out) if out is not None else None
        elif api == 'base.unittwist_norm':
            out, th = b.unittwist_norm(Sv)
            again = b.unittwist_norm(out)[0] if out is not None else None
            if out is not None:
                k = float(np.dot(out, Sv) / np.dot(out, out))
                ctx.judge('unittwist', abs(th - k) <= 1e-12 * abs(k), dict(api=api, kind='theta_wrong'), lambda: 'unittwist_norm theta %r, S = %r * unit' % (th, k))
        elif api == 'base.unittwist2':
            out = b.unittwist2(Sv)
            again = b.unittwist2(out)
        elif api == 'base.unittwist2_norm':
            out, th = b.unittwist2_norm(Sv)
            again = b.unittwist2_norm(out)[0]
        elif api == 'Twist3.unit':
            out = sm.Twist3(Sv).unit
            again = out.unit.S
            out = out.S
        elif api == 'Twist2.unit':
            out = sm.Twist2(Sv).unit
            again = out.unit.S
            out = out.S
        else:
            raise KeyError(api)
    except Exception as e:
        ctx.bad('unittwist', dict(api=api, kind='raised', exc=type(e).__name__), '%s raised %r for %s' % (api, e, Sv))
        return
    judge_unittwist(ctx, api, Sv, out, again)


def run_angdiff(ctx, p):
    b = B()
    a, bb = p['a'], p.get('b')
    a = np.asarray(a, dtype=np.float64) if isinstance(a, list) else a
    bb = np.asarray(bb, dtype=np.float64) if isinstance(bb, list) else bb
    ga, gb = a, bb
    if p.get('etype'):
        # whole-number angles (degrees read from a sensor, say) in a narrow or unsigned NumPy type: the same real numbers
        cast = lambda v: None if v is None else (np.asarray(v).astype(p['etype']) if np.ndim(v) else np.dtype(p['etype']).type(v))
        ga, gb = cast(a), cast(bb)
    try:
        out = b.angdiff(ga) if gb is None else b.angdiff(ga, gb)
    except Exception as e:
        ctx.bad('angdiff', dict(api='base.angdiff', kind='raised', exc=type(e).__name__), 'angdiff(%r, %r) raised %r' % (a, bb, e))
        return
    judge_angdiff(ctx, a, bb, out, p.get('etype'))


RUNNERS = {'trnorm': run_trnorm, 'pose_norm': run_pose_norm, 'unit': run_unit, 'twist': run_twist, 'angdiff': run_angdiff}


# contracts for the internal calls as well (other code normalises through these)
def setup(ctx):
    global _ctx
    _ctx = ctx
    import spatialmath.base.vectors as bv

    def on_unitvec(args, kw, res, st):
        v = args[0]
        if not fin(v) or np.ndim(v) == 0 or res is None:
            _ctx.ood('unit')
            return
        vv = np.asarray(v, dtype=np.float64).reshape(-1)
        if not 1e-6 <= np.linalg.norm(vv) <= 1e6:
            _ctx.ood('unit')
            return
        judge_unit(_ctx, 'base.unitvec[contract]', vv, res)
    ctx.extra['bindings_rebound'] = {'unitvec': hook_function(bv, 'unitvec', on_unitvec, None, mid='C14.unitvec')}


def REACH():
    b = B()
    sm = S()
    return [b.trnorm, b.unit, b.unitvec, b.unitvec_norm, b.unittwist, b.unittwist_norm, b.unittwist2, b.unittwist2_norm, b.angdiff,
            sm.Quaternion.__dict__['unit'], sm.super_pose.SMPose.__dict__['norm'], sm.twist.SMTwist.__dict__['unit'], sm.Twist2.__dict__['unit']]


REQUIRED_REACH = {'unittwist': ['th = norm(v)', 'th = norm(w)'], 'unittwist2': ['th = norm(v)', 'th = abs(w)']}


# ----------------------------------------------------------------------------- workload
def perturb(rng, T, n):
    T = np.array(T, dtype=np.float64)
    if rng.random() < 0.15:
        return T
    mag = gen.logu(rng, 1e-15, 1e-2)
    if rng.random() < 0.5:
        T[rng.integers(n), rng.integers(n)] += gen.sign(rng) * mag
    else:
        T[:n, :n] += rng.normal(size=(n, n)) * mag
    if T.shape[0] == n + 1 and rng.random() < 0.3:
        # a rigid-motion matrix that is "nearly valid" in its last row too (an estimated or averaged matrix: noise on all entries)
        T[n, :] += rng.normal(size=n + 1) * mag
    return T


def special_angle(rng):
    r = rng.random()
    if r < 0.3:
        k = int(rng.integers(-300, 301))
        return k * PI + [0.0, 1e-15, -1e-15, 1e-12, -1e-12, 1e-9][rng.integers(6)]
    if r < 0.4:
        return float([PI, -PI, 0.0, 2 * PI, -2 * PI, np.nextafter(PI, 4), np.nextafter(-PI, -4)][rng.integers(7)])
    return float(rng.uniform(-1e3, 1e3)) if rng.random() < 0.6 else gen.sign(rng) * gen.logu(rng, 1e-12, 1e3)


def run(ctx):
    rng = ctx.rng
    for _ in range(ctx.scale(1500, 30000)):
        T = gen.se3(rng, hi=1e3) if rng.random() < 0.5 else gen.so3(rng)
        drive(RUNNERS, ctx, 'trnorm', dict(T=perturb(rng, T, 3)))
        if rng.random() < 0.1:
            drive(RUNNERS, ctx, 'trnorm', dict(T=gen.se3(rng, hi=1e3) if rng.random() < 0.5 else gen.so3(rng), float32=True))
    for _ in range(ctx.scale(1200, 20000)):
        c = ['SO2', 'SE2', 'SO3', 'SE3'][rng.integers(4)]
        m = int(rng.integers(1, 4))
        if rng.random() < 0.06:
            m = int([8, 9, 16, 17, 32, 33, 40, 64, 100][rng.integers(9)])        # many values (a batch path would show here)
        mk = {'SO2': lambda: perturb(rng, gen.so2(rng), 2), 'SE2': lambda: perturb(rng, gen.se2(rng, hi=1e3), 2),
              'SO3': lambda: perturb(rng, gen.so3(rng), 3), 'SE3': lambda: perturb(rng, gen.se3(rng, hi=1e3), 3)}[c]
        drive(RUNNERS, ctx, 'pose_norm', dict(cls=c, T=[mk() for _ in range(m)]))
        if rng.random() < 0.1:
            clean = {'SO2': lambda: gen.so2(rng), 'SE2': lambda: gen.se2(rng, hi=1e3), 'SO3': lambda: gen.so3(rng), 'SE3': lambda: gen.se3(rng, hi=1e3)}[c]
            drive(RUNNERS, ctx, 'pose_norm', dict(cls=c, T=[clean() for _ in range(m)], float32=True))
    for _ in range(ctx.scale(3500, 60000)):
        api = ['base.unitvec', 'base.unitvec_norm', 'base.unit', 'Quaternion.unit', 'UnitQuaternion.ctor', 'Quaternion.unit.multi', 'UnitQuaternion.unit'][rng.integers(7)]
        n = 4 if api not in ('base.unitvec', 'base.unitvec_norm') else int([1, 2, 3, 6][rng.integers(4)])
        r = rng.random()
        if r < 0.3:       # already unit (to rounding) or unit with noise
            v = rng.normal(size=n)
            v /= np.linalg.norm(v)
            if rng.random() < 0.5:
                v = v * (1 + gen.sign(rng) * gen.logu(rng, 1e-15, 1e-2))
        else:
            v = rng.normal(size=n)
            v = v / np.linalg.norm(v) * gen.logu(rng, 1e-6, 1e6)
        p = dict(api=api, v=v)
        if api == 'UnitQuaternion.ctor':
            p['form'] = ['vec', 'sv', 'list', 'list_of_vecs', 'Nx4'][rng.integers(5)]
            p['check'] = [None, True, False][rng.integers(3)]       # the default normalisation must not depend on the check option
            if rng.random() < 0.3:
                p['normflag'] = ['True', '1', 'np.True_', 'np.int64(1)'][rng.integers(4)]
            if rng.random() < 0.2:
                p['checkflag'] = ['1', 'np.True_', 'np.int64(1)'][rng.integers(3)]
            if p['form'] in ('list_of_vecs', 'Nx4'):
                k = int(rng.integers(1, 4)) if p['form'] == 'list_of_vecs' else int([1, 2, 4, 5][rng.integers(4)])
                p['others'] = [rng.normal(size=4) * gen.logu(rng, 1e-3, 1e3) for _ in range(k)]
        if api == 'UnitQuaternion.unit':
            p['form'] = ['sv', 'Nx4'][rng.integers(2)]
            if p['form'] == 'Nx4':
                p['others'] = [rng.normal(size=4) * gen.logu(rng, 1e-3, 1e3) for _ in range(int([1, 2, 4][rng.integers(3)]))]
        if api == 'Quaternion.unit.multi':
            p['vs'] = [v] + [rng.normal(size=4) * gen.logu(rng, 1e-3, 1e3) for _ in range(int(rng.integers(1, 4)))]
        drive(RUNNERS, ctx, 'unit', p)
        if ctx.ncases % 1999 == 1:
            ctx.sample(dict(case='unit', **{k: v for k, v in p.items()}))
    pending = {}
    for _ in range(ctx.scale(3000, 50000)):
        api = ['base.unittwist', 'base.unittwist_norm', 'base.unittwist2', 'base.unittwist2_norm', 'Twist3.unit', 'Twist2.unit'][rng.integers(6)]
        dim = 2 if '2' in api.split('.')[-1] or api == 'Twist2.unit' else 3
        wmag = [0.0, 5 * EPS, 20 * EPS, 1e-12, None, None, None][rng.integers(7)]
        if wmag is None:
            wmag = gen.logu(rng, 1e-6, 1e6)
        w = (gen.unit_axis(rng) if dim == 3 else np.array([gen.sign(rng)])) * wmag
        v = rng.normal(size=dim)
        v = v / np.linalg.norm(v) * gen.logu(rng, 1e-6, 1e6)
        if rng.random() < 0.1 and wmag > 1e-6:
            v = np.zeros(dim)
        drive(RUNNERS, ctx, 'twist', dict(api=api, S=np.r_[v, w]))
        if api in ('Twist3.unit', 'Twist2.unit') and wmag not in (5 * EPS, 20 * EPS):
            pending.setdefault(api, []).append(np.r_[v, w])
            if len(pending[api]) >= 2 + (ctx.ncases % 3):
                drive(RUNNERS, ctx, 'twist', dict(api=api + '.multi', Ss=pending.pop(api)))
    for _ in range(ctx.scale(3000, 50000)):
        two = rng.random() < 0.5
        if rng.random() < 0.7:
            a = special_angle(rng)
            b = special_angle(rng) if two else None
        else:
            k = int(rng.integers(1, 6))
            a = [special_angle(rng) for _ in range(k)]
            b = ([special_angle(rng) for _ in range(k)] if rng.random() < 0.5 else special_angle(rng)) if two else None
        drive(RUNNERS, ctx, 'angdiff', dict(a=a, b=b))
        if rng.random() < 0.1:
            et = ['uint8', 'int8', 'float32', 'uint16'][rng.integers(4)]
            lo_, hi_ = {'uint8': (0, 256), 'int8': (-128, 128), 'float32': (-1000, 1000), 'uint16': (0, 1000)}[et]
            mk_ = lambda: float(rng.integers(lo_, hi_))
            k = int(rng.integers(0, 4))
            a = mk_() if k == 0 else [mk_() for _ in range(k)]
            b = (mk_() if k == 0 else [mk_() for _ in range(k)]) if two else None
            drive(RUNNERS, ctx, 'angdiff', dict(a=a, b=b, etype=et))
