"""C05 -- angle-set and axis-angle extraction is a right inverse of construction.

Contracts on tr2rpy, tr2eul, tr2angvec, tr2xyt (extraction) and rpy2r, eul2r, angvec2r, xyt2tr
(construction), rebound on every binding so the calls made by the class accessors are judged
too.  Reconstruction uses the *harness's* elementary rotations (longdouble Rodrigues), never
the library.  Class accessors are additionally judged at their own boundary (deg vs rad).
"""
import math

import numpy as np

from .. import core, ctors, gen, ref
from ..core import drive
from ..instrument import hook_function

PROP = 'C05'
SHARDS = {'quick': 4, 'thorough': 16}
TOL = 1e-6
PI = math.pi
RULE = ('rotations generated from angle triples over the full range with exact singular values (pitch +-pi/2, Euler middle '
        'angle 0/pi, rotation angle 0/pi) and offsets 1e-12..1e-1 on either side, plus rotations over the whole group; all '
        'RPY orders and aliases, flip on/off, deg/rad, SO(3) and SE(3) inputs, base functions and SO3/SE3/UnitQuaternion/'
        'SE2/SO2 accessors. distinct = (api, order/flip/unit, rotation rounded to 9 digits); non-trivial = rotation angle > 1e-6')
ASSUMPTIONS = ['reconstruction by reference elementary rotations in the documented order',
               'degree results are compared with radian results * 180/pi to 1e-9 relative']
MIN_EVALS = {'extract': {'quick': 12000, 'thorough': 200000}, 'construct': {'quick': 1500, 'thorough': 25000},
             'class': {'quick': 2000, 'thorough': 30000}, 'units': {'quick': 2000, 'thorough': 30000}}
ORDERS = {'zyx': 'zyx', 'vehicle': 'zyx', 'xyz': 'xyz', 'arm': 'xyz', 'yxz': 'yxz', 'camera': 'yxz'}
_ctx = None


def Rx(t): return ref.rot_ld([1, 0, 0], t)
def Ry(t): return ref.rot_ld([0, 1, 0], t)
def Rz(t): return ref.rot_ld([0, 0, 1], t)


def rpy_ref(r, p, y, order):
    o = ORDERS[order]
    if o == 'zyx':
        return ref.f64(Rz(y) @ Ry(p) @ Rx(r))
    if o == 'xyz':
        return ref.f64(Rx(y) @ Ry(p) @ Rz(r))
    return ref.f64(Ry(y) @ Rx(p) @ Rz(r))


def eul_ref(a, b, c):
    return ref.f64(Rz(a) @ Ry(b) @ Rz(c))


def fin(x):
    try:
        return bool(np.all(np.isfinite(np.asarray(x, dtype=np.float64))))
    except Exception:
        return False


def rot_of(T):
    """valid SO(3) block of a 3x3 / 4x4 argument, or None"""
    if not isinstance(T, np.ndarray) or T.dtype == object or not fin(T):
        return None
    if T.shape == (4, 4):
        if ref.hom_residual(T) > 1e-10:
            return None
        return T[:3, :3]
    if T.shape == (3, 3) and ref.rot_residual(T) <= 1e-10:
        return T
    return None


def torad(x, unit):
    return np.asarray(x, dtype=np.float64) * (PI / 180 if unit == 'deg' else 1.0)


def sing_band(R, api, order=None):
    """band of distance to the singular configuration of this extraction"""
    if api == 'tr2rpy':
        e = {'zyx': R[2, 0], 'xyz': R[0, 2], 'yxz': R[1, 2]}[ORDERS.get(order, 'zyx')]
        d = abs(PI / 2 - abs(math.asin(max(-1.0, min(1.0, e)))))
        # asin is insensitive near 1: use the complementary entries
        c = {'zyx': math.hypot(R[0, 0], R[1, 0]), 'xyz': math.hypot(R[0, 0], R[0, 1]), 'yxz': math.hypot(R[1, 0], R[1, 1])}[ORDERS.get(order, 'zyx')]
        d = min(d, c) if c < 1e-3 else d
    elif api == 'tr2eul':
        d = math.hypot(R[0, 2], R[1, 2])
    else:
        th = ref.rot_angle(R)
        d = min(th, PI - th)
    return 'sing:' + ('0' if d == 0 else core.band(d, lo=-17))


# ----------------------------------------------------------------------------- extraction contracts
def kwget(args, kw, i, name, default):
    return args[i] if len(args) > i else kw.get(name, default)


def on_tr2rpy(args, kw, res, st):
    ctx = _ctx
    R = rot_of(args[0]) if args else None
    unit, order = kwget(args, kw, 1, 'unit', 'rad'), kwget(args, kw, 2, 'order', 'zyx')
    if R is None or unit not in ('rad', 'deg') or order not in ORDERS:
        ctx.ood('extract')
        return
    sig = dict(api='base.tr2rpy', order=order, unit=unit, band=sing_band(R, 'tr2rpy', order))
    what = lambda: 'tr2rpy(R, unit=%s, order=%s) = %s for R=%s' % (unit, order, core.short(res), core.short(R, 400))
    if not fin(res) or np.shape(res) != (3,):
        ctx.bad('extract', dict(sig, kind='nonfinite_or_shape'), what())
        return
    r, p, y = torad(res, unit)
    lim = 1e-9
    if max(abs(r), abs(y)) > PI + lim or abs(p) > PI / 2 + lim:
        ctx.bad('extract', dict(sig, kind='range'), what() + ' : angle outside [-pi,pi] / pitch outside [-pi/2,pi/2]')
        return
    d = float(np.max(np.abs(rpy_ref(r, p, y, order) - R)))
    ok = ctx.judge('extract', d <= TOL, dict(sig, kind='reconstruction'), lambda: what() + ' : rebuilt rotation differs by %.3g' % d)
    ctx.cell('tr2rpy', ORDERS[order], unit, sig['band'])
    if ok and ref.rot_angle(R) > 1e-6:
        ctx.nontrivial('tr2rpy', order, unit, [float('%.9g' % v) for v in R.reshape(-1)])


def on_tr2eul(args, kw, res, st):
    ctx = _ctx
    R = rot_of(args[0]) if args else None
    unit, flip = kwget(args, kw, 1, 'unit', 'rad'), kwget(args, kw, 2, 'flip', False)
    if R is None or unit not in ('rad', 'deg'):
        ctx.ood('extract')
        return
    sig = dict(api='base.tr2eul', flip=bool(flip), unit=unit, band=sing_band(R, 'tr2eul'))
    what = lambda: 'tr2eul(R, unit=%s, flip=%s) = %s for R=%s' % (unit, flip, core.short(res), core.short(R, 400))
    if not fin(res) or np.shape(res) != (3,):
        ctx.bad('extract', dict(sig, kind='nonfinite_or_shape'), what())
        return
    a, b, c = torad(res, unit)
    if max(abs(a), abs(b), abs(c)) > PI + 1e-9:
        ctx.bad('extract', dict(sig, kind='range'), what() + ' : angle outside [-pi,pi]')
        return
    d = float(np.max(np.abs(eul_ref(a, b, c) - R)))
    ok = ctx.judge('extract', d <= TOL, dict(sig, kind='reconstruction'), lambda: what() + ' : rebuilt rotation differs by %.3g' % d)
    ctx.cell('tr2eul', bool(flip), unit, sig['band'])
    if ok and ref.rot_angle(R) > 1e-6:
        ctx.nontrivial('tr2eul', bool(flip), unit, [float('%.9g' % v) for v in R.reshape(-1)])


def on_tr2angvec(args, kw, res, st):
    ctx = _ctx
    R = rot_of(args[0]) if args else None
    unit = kwget(args, kw, 1, 'unit', 'rad')
    if R is None or unit not in ('rad', 'deg'):
        ctx.ood('extract')
        return
    sig = dict(api='base.tr2angvec', unit=unit, band=sing_band(R, 'tr2angvec'))
    what = lambda: 'tr2angvec(R, unit=%s) = %s for R=%s' % (unit, core.short(res), core.short(R, 400))
    try:
        th, v = res
        v = np.asarray(v, dtype=np.float64)
        okshape = np.ndim(th) == 0 and v.shape == (3,) and fin(th) and fin(v)
    except Exception:
        okshape = False
    if not okshape:
        ctx.bad('extract', dict(sig, kind='nonfinite_or_shape'), what())
        return
    th = float(torad(th, unit))
    if th < -1e-12 or th > PI + 1e-9:
        ctx.bad('extract', dict(sig, kind='range'), what() + ' : rotation angle outside [0, pi]')
        return
    n = float(np.linalg.norm(v))
    if th == 0:
        okaxis = n == 0 or abs(n - 1) <= 1e-9
    else:
        okaxis = abs(n - 1) <= 1e-9
    if not okaxis:
        ctx.bad('extract', dict(sig, kind='axis_not_unit'), what() + ' : |axis| = %.17g' % n)
        return
    Rb = ref.rot(v, th) if n > 0 else np.eye(3)
    d = float(np.max(np.abs(Rb - R)))
    ok = ctx.judge('extract', d <= TOL, dict(sig, kind='reconstruction'), lambda: what() + ' : rebuilt rotation differs by %.3g' % d)
    ctx.cell('tr2angvec', unit, sig['band'])
    if ok and ref.rot_angle(R) > 1e-6:
        ctx.nontrivial('tr2angvec', unit, [float('%.9g' % x) for x in R.reshape(-1)])


def on_tr2xyt(args, kw, res, st):
    ctx = _ctx
    T = args[0] if args else None
    unit = kwget(args, kw, 1, 'unit', 'rad')
    if not (isinstance(T, np.ndarray) and T.shape == (3, 3) and T.dtype != object and fin(T) and ref.hom_residual(T) <= 1e-10) \
            or unit not in ('rad', 'deg'):
        ctx.ood('extract')
        return
    sig = dict(api='base.tr2xyt', unit=unit)
    if not fin(res) or np.shape(res) != (3,):
        ctx.bad('extract', dict(sig, kind='nonfinite_or_shape'), 'tr2xyt -> %s' % core.short(res))
        return
    x, y, th = np.asarray(res, dtype=np.float64)
    th = float(torad(th, unit))
    sc = max(1.0, float(np.linalg.norm(T[:2, 2])))
    if abs(th) > PI + 1e-9:
        ctx.bad('extract', dict(sig, kind='range'), 'tr2xyt angle %r outside [-pi,pi]' % th)
        return
    d = float(np.max(np.abs(ref.rt2tr(ref.rot2(th), [x, y]) - T)))
    ok = ctx.judge('extract', d <= TOL * sc, dict(sig, kind='reconstruction'),
                   lambda: 'tr2xyt(T, unit=%s) = %s: rebuilt T differs by %.3g; T=%s' % (unit, core.short(res), d, core.short(T, 300)))
    ctx.cell('tr2xyt', unit)
    if ok and abs(th) > 1e-6:
        ctx.nontrivial('tr2xyt', unit, [float('%.9g' % v) for v in T.reshape(-1)])


def raiser(api, guard):
    def on_raise(args, kw, exc, st):
        ctx = _ctx
        try:
            ind = guard(args, kw)
        except Exception:
            ind = False
        if not ind:
            ctx.ood('extract')
            return
        ctx.bad('extract', dict(api=api, kind='raised', exc=type(exc).__name__,
                                opts={k: v for k, v in kw.items() if isinstance(v, (str, bool))}),
                '%s raised %r for a valid rotation %s %s' % (api, exc, core.short(args[0], 400), kw))
    return on_raise


def g_rot(args, kw):
    unit = kw.get('unit', args[1] if len(args) > 1 and isinstance(args[1], str) else 'rad')
    order = kw.get('order', 'zyx')
    return bool(args) and rot_of(args[0]) is not None and unit in ('rad', 'deg') and order in ORDERS


# ----------------------------------------------------------------------------- construction contracts
def scal3(args, kw, names):
    """angles given as three scalars or one packed vector"""
    a0 = args[0] if args else kw.get(names[0])
    if np.ndim(a0) == 0:
        rest = [args[i] if len(args) > i else kw.get(names[i]) for i in (1, 2)]
        if any(r is None for r in rest):
            return None
        v = [a0] + rest
    else:
        v = np.asarray(a0, dtype=object).reshape(-1).tolist()
    if len(v) != 3 or not all(isinstance(x, (int, float, np.integer, np.floating)) for x in v) or not fin(v):
        return None
    return [float(x) for x in v]


def on_rpy2r(args, kw, res, st):
    ctx = _ctx
    a = scal3(args, kw, ('roll', 'pitch', 'yaw'))
    unit, order = kw.get('unit', 'rad'), kw.get('order', 'zyx')
    if a is None or unit not in ('rad', 'deg') or order not in ORDERS:
        ctx.ood('construct')
        return
    r, p, y = torad(a, unit)
    want = rpy_ref(r, p, y, order)
    d = float(np.max(np.abs(np.asarray(res, dtype=np.float64) - want))) if np.shape(res) == (3, 3) and fin(res) else math.inf
    ctx.judge('construct', d <= TOL, dict(api='base.rpy2r', order=order, unit=unit, kind='order_of_rotations'),
              lambda: 'rpy2r(%s, unit=%s, order=%s) differs from the documented product by %.3g' % (a, unit, order, d))
    ctx.cell('rpy2r', order, unit)
    ctx.nontrivial('rpy2r', order, unit, [float('%.9g' % v) for v in a])


def on_eul2r(args, kw, res, st):
    ctx = _ctx
    a = scal3(args, kw, ('phi', 'theta', 'psi'))
    unit = kw.get('unit', args[3] if len(args) > 3 else 'rad')
    if a is None or unit not in ('rad', 'deg'):
        ctx.ood('construct')
        return
    want = eul_ref(*torad(a, unit))
    d = float(np.max(np.abs(np.asarray(res, dtype=np.float64) - want))) if np.shape(res) == (3, 3) and fin(res) else math.inf
    ctx.judge('construct', d <= TOL, dict(api='base.eul2r', unit=unit, kind='order_of_rotations'),
              lambda: 'eul2r(%s, unit=%s) differs from Rz Ry Rz by %.3g' % (a, unit, d))
    ctx.cell('eul2r', unit)
    ctx.nontrivial('eul2r', unit, [float('%.9g' % v) for v in a])


def on_angvec2r(args, kw, res, st):
    ctx = _ctx
    th = args[0] if args else kw.get('theta')
    v = args[1] if len(args) > 1 else kw.get('v')
    unit = kw.get('unit', args[2] if len(args) > 2 else 'rad')
    if not fin(th) or np.ndim(th) != 0 or not fin(v) or np.size(v) != 3 or unit not in ('rad', 'deg'):
        ctx.ood('construct')
        return
    v = np.asarray(v, dtype=np.float64).reshape(-1)
    if not 1e-3 <= np.linalg.norm(v) <= 1e6:
        ctx.ood('construct')
        return
    want = ref.rot(v, float(torad(th, unit)))
    d = float(np.max(np.abs(np.asarray(res, dtype=np.float64) - want))) if np.shape(res) == (3, 3) and fin(res) else math.inf
    ctx.judge('construct', d <= TOL, dict(api='base.angvec2r', unit=unit, kind='rotation_about_normalised_axis'),
              lambda: 'angvec2r(%r, %s, unit=%s) differs from the rotation about the normalised axis by %.3g' % (th, v, unit, d))
    ctx.cell('angvec2r', unit)
    ctx.nontrivial('angvec2r', unit, float('%.9g' % th), [float('%.9g' % x) for x in v])


def on_xyt2tr(args, kw, res, st):
    ctx = _ctx
    a = args[0] if args else kw.get('xyt')
    unit = kw.get('unit', args[1] if len(args) > 1 else 'rad')
    if not fin(a) or np.size(a) != 3 or unit not in ('rad', 'deg'):
        ctx.ood('construct')
        return
    x, y, th = np.asarray(a, dtype=np.float64).reshape(-1)
    want = ref.rt2tr(ref.rot2(float(torad(th, unit))), [x, y])
    sc = max(1.0, math.hypot(x, y))
    d = float(np.max(np.abs(np.asarray(res, dtype=np.float64) - want))) if np.shape(res) == (3, 3) and fin(res) else math.inf
    ctx.judge('construct', d <= TOL * sc, dict(api='base.xyt2tr', unit=unit, kind='planar'),
              lambda: 'xyt2tr(%s, unit=%s) differs from the reference by %.3g' % (a, unit, d))
    ctx.cell('xyt2tr', unit)
    ctx.nontrivial('xyt2tr', unit, [float('%.9g' % v) for v in (x, y, th)])


def setup(ctx):
    global _ctx
    _ctx = ctx
    import spatialmath.base.transforms3d as t3
    import spatialmath.base.transforms2d as t2
    n = {}
    n['tr2rpy'] = hook_function(t3, 'tr2rpy', on_tr2rpy, raiser('base.tr2rpy', g_rot), mid='C05.tr2rpy')
    n['tr2eul'] = hook_function(t3, 'tr2eul', on_tr2eul, raiser('base.tr2eul', g_rot), mid='C05.tr2eul')
    n['tr2angvec'] = hook_function(t3, 'tr2angvec', on_tr2angvec, raiser('base.tr2angvec', g_rot), mid='C05.tr2angvec')
    n['tr2xyt'] = hook_function(t2, 'tr2xyt', on_tr2xyt, None, mid='C05.tr2xyt')
    n['rpy2r'] = hook_function(t3, 'rpy2r', on_rpy2r, None, mid='C05.rpy2r')
    n['eul2r'] = hook_function(t3, 'eul2r', on_eul2r, None, mid='C05.eul2r')
    n['angvec2r'] = hook_function(t3, 'angvec2r', on_angvec2r, None, mid='C05.angvec2r')
    n['xyt2tr'] = hook_function(t2, 'xyt2tr', on_xyt2tr, None, mid='C05.xyt2tr')
    ctx.extra['bindings_rebound'] = n


def REACH():
    import spatialmath.base as b
    import spatialmath as sm
    return [b.tr2rpy, b.tr2eul, b.tr2angvec, b.tr2xyt, b.rpy2r, b.eul2r, b.angvec2r, b.xyt2tr,
            sm.SO3.__dict__['rpy'], sm.SO3.__dict__['eul'], sm.SO3.__dict__['angvec'],
            sm.UnitQuaternion.__dict__['rpy'], sm.UnitQuaternion.__dict__['eul'], sm.UnitQuaternion.__dict__['angvec'],
            sm.SE2.__dict__['xyt'], sm.SO2.__dict__['theta']]


REQUIRED_REACH = {'tr2rpy': [
    'rpy[1] = math.asin(R[0, 2])', 'rpy[1] = -math.asin(R[2, 0])', 'rpy[1] = -math.asin(R[1, 2])    # P',
    'rpy[1] = math.atan(R[0, 2] * math.cos(rpy[0]) / R[0, 0])', 'rpy[1] = -math.atan(R[0, 2] * math.sin(rpy[0]) / R[0, 1])',
    'rpy[1] = -math.atan(R[0, 2] * math.sin(rpy[2]) / R[1, 2])', 'rpy[1] = math.atan(R[0, 2] * math.cos(rpy[2]) / R[2, 2])',
    'rpy[1] = -math.atan(R[2, 0] * math.cos(rpy[2]) / R[0, 0])', 'rpy[1] = -math.atan(R[2, 0] * math.sin(rpy[2]) / R[1, 0])',
    'rpy[1] = -math.atan(R[2, 0] * math.sin(rpy[0]) / R[2, 1])', 'rpy[1] = -math.atan(R[2, 0] * math.cos(rpy[0]) / R[2, 2])',
    'rpy[1] = -math.atan(R[1, 2] * math.sin(rpy[0]) / R[1, 0])', 'rpy[1] = -math.atan(R[1, 2] * math.cos(rpy[0]) / R[1, 1])',
    'rpy[1] = -math.atan(R[1, 2] * math.sin(rpy[2]) / R[0, 2])', 'rpy[1] = -math.atan(R[1, 2] * math.cos(rpy[2]) / R[2, 2])'],
    'tr2eul': ['eul[0] = 0', 'eul[0] = math.atan2(-R[1, 2], -R[0, 2])', 'eul[0] = math.atan2(R[1, 2], R[0, 2])']}


# ----------------------------------------------------------------------------- runners
def run_extract(ctx, p):
    """base-level extraction call (the contracts judge); deg vs rad at the boundary"""
    import spatialmath.base as base
    R = np.asarray(p['R'], dtype=np.float64)
    if p.get('noisy') is not None:
        # the same rotation as it comes out of a computation (A (A' R)): its small entries carry ordinary rounding noise instead of
        # being correct to their own last digit, as the entries of a freshly constructed matrix are
        A_ = np.asarray(p['noisy'], dtype=np.float64)
        R = np.array(R)
        R[:3, :3] = A_ @ (A_.T @ R[:3, :3])
    if p.get('layout'):
        R = gen.layout(R, p['layout'])      # Fortran-ordered (e.g. loaded from a .mat file, or a transposed view), frozen, strided
    api = p['api']
    opts = dict(p.get('opts', {}))
    f = getattr(base, api)
    out = {}
    for unit in ('rad', 'deg'):
        try:
            out[unit] = f(R, unit=unit, **opts)
        except Exception:
            out[unit] = None
    mask = (lambda a: np.array([False, False, True])) if api == 'tr2xyt' else None   # x, y carry no angular unit
    units_check(ctx, 'base.' + api, opts, out, mask)


def flat(x):
    if isinstance(x, tuple):      # (theta, v) of angvec: only theta carries the unit
        return np.asarray([x[0]], dtype=np.float64), np.asarray(x[1], dtype=np.float64)
    return np.asarray(x, dtype=np.float64), None


def units_check(ctx, api, opts, out, angle_mask=None):
    if out.get('rad') is None or out.get('deg') is None:
        return
    try:
        a, ra = flat(out['rad'])
        b, rb = flat(out['deg'])
    except Exception:
        return
    if a.shape != b.shape or not (fin(a) and fin(b)):
        return
    m = np.ones(a.shape, bool) if angle_mask is None else angle_mask(a)
    want = np.where(m, a * 180 / PI, a)
    d = float(np.max(np.abs(b - want) / np.maximum(1.0, np.abs(want)))) if a.size else 0.0
    if ra is not None and rb is not None and ra.shape == rb.shape:
        d = max(d, float(np.max(np.abs(ra - rb))) if ra.size else 0.0)
    ctx.judge('units', d <= 1e-9, dict(api=api, kind='deg_not_rad_times_180_over_pi', opts={k: v for k, v in opts.items()}),
              lambda: '%s %s: unit=deg gives %s, unit=rad gives %s' % (api, opts, core.short(out['deg']), core.short(out['rad'])))


def run_class(ctx, p):
    """class accessors rpy/eul/angvec (SO3, SE3, UnitQuaternion), SE2.xyt, SO2.theta"""
    import spatialmath as sm
    cname, acc = p['cls'], p['acc']
    opts = dict(p.get('opts', {}))
    M = np.asarray(p['M'], dtype=np.float64)
    C = getattr(sm, cname)
    api = '%s.%s' % (cname, acc)
    try:
        if cname == 'UnitQuaternion' and p.get('q') is not None:
            # quaternion given directly (either sign of the scalar part): same rotation, other cover
            X = C(np.asarray(p['q'], dtype=np.float64))
        elif p.get('via') == 'inv' and cname in ('SO3', 'SE3', 'SO2', 'SE2'):
            # the same value as the inverse of its inverse (what the object then holds may be a transposed view)
            Mi = np.linalg.inv(M)
            n_ = Mi.shape[0] - (1 if cname in ('SE3', 'SE2') else 0)
            X = C(Mi, check=False).inv()
            M = np.array(X.A)       # (the value that the object holds, to rounding of the inverse)
        elif p.get('via') in gen.LAYOUTS[:4] and cname != 'UnitQuaternion':
            X = C(gen.layout(M, p['via']))
        else:
            X = C(M) if cname != 'UnitQuaternion' else C(sm.SO3(M))
    except Exception as e:
        ctx.bad('class', dict(api=api, kind='ctor_raised', exc=type(e).__name__), '%s(%s) raised %r' % (cname, core.short(M), e))
        return
    R = M[:3, :3] if cname in ('SO3', 'SE3', 'UnitQuaternion') else M
    out = {}
    units = ('rad', 'deg') if not (cname == 'SE2' and acc == 'xyt') else ('rad',)
    for unit in units:
        try:
            out[unit] = getattr(X, acc)(unit=unit, **opts) if units != ('rad',) else getattr(X, acc)()
        except Exception as e:
            ctx.bad('class', dict(api=api, kind='raised', exc=type(e).__name__, opts=opts, unit=unit),
                    '%s(unit=%s, %s) raised %r for %s' % (api, unit, opts, e, core.short(M, 400)))
            return
    r = out['rad']
    sig = dict(api=api, opts=opts)
    try:
        if acc == 'rpy':
            a = np.asarray(r, dtype=np.float64)
            ok = a.shape == (3,) and fin(a) and max(abs(a[0]), abs(a[2])) <= PI + 1e-9 and abs(a[1]) <= PI / 2 + 1e-9
            d = float(np.max(np.abs(rpy_ref(a[0], a[1], a[2], opts.get('order', 'zyx')) - R))) if ok else math.inf
        elif acc == 'eul':
            a = np.asarray(r, dtype=np.float64)
            ok = a.shape == (3,) and fin(a) and np.max(np.abs(a)) <= PI + 1e-9
            d = float(np.max(np.abs(eul_ref(*a) - R))) if ok else math.inf
        elif acc == 'angvec':
            th, v = r
            v = np.asarray(v, dtype=np.float64)
            n = np.linalg.norm(v)
            ok = fin(th) and fin(v) and -1e-12 <= th <= PI + 1e-9 and (abs(n - 1) <= 1e-9 or (th == 0 and n == 0))
            d = float(np.max(np.abs((ref.rot(v, th) if n > 0 else np.eye(3)) - R))) if ok else math.inf
        elif acc == 'xyt':
            a = np.asarray(r, dtype=np.float64)
            ok = a.shape == (3,) and fin(a) and abs(a[2]) <= PI + 1e-9
            sc = max(1.0, float(np.linalg.norm(M[:2, 2])))
            d = float(np.max(np.abs(ref.rt2tr(ref.rot2(a[2]), a[:2]) - M))) / sc if ok else math.inf
        else:  # theta
            ok = np.ndim(r) == 0 and fin(r) and abs(r) <= PI + 1e-9
            d = float(np.max(np.abs(ref.rot2(r) - M))) if ok else math.inf
    except Exception:
        d = math.inf
    okk = ctx.judge('class', d <= TOL, dict(sig, kind='reconstruction_or_range'),
                    lambda: '%s(%s) = %s does not reproduce the rotation (diff %.3g) or is out of range; M=%s' % (
                        api, opts, core.short(r), d, core.short(M, 400)))
    if len(units) == 2:
        units_check(ctx, api, opts, out)
    ctx.cell('class', api, *['%s=%s' % kv for kv in sorted(opts.items())])
    if okk:
        ctx.nontrivial(api, sorted(opts.items()), [float('%.9g' % v) for v in M.reshape(-1)])


def run_construct(ctx, p):
    import spatialmath.base as base
    f = getattr(base, p['api'])
    try:
        f(*p['args'], **p['kwargs'])
    except Exception as e:
        ctx.bad('construct', dict(api='base.' + p['api'], kind='raised', exc=type(e).__name__, opts={k: v for k, v in p['kwargs'].items() if isinstance(v, str)}),
                '%s(%s, %s) raised %r' % (p['api'], core.short(p['args']), p['kwargs'], e))


def run_roundtrip(ctx, p):
    """the way a user does it: extract with the library, rebuild with the library -- twice, from the same returned array"""
    import spatialmath.base as base
    import spatialmath as sm
    R = np.asarray(p['R'], dtype=np.float64)
    which, unit, opts = p['which'], p['unit'], dict(p.get('opts', {}))
    sig = dict(api='roundtrip.' + which, unit=unit, opts=opts)
    try:
        if which == 'rpy':
            ang = base.tr2rpy(R, unit=unit, **opts)
            outs = [base.rpy2r(ang, unit=unit, **opts), base.rpy2tr(ang, unit=unit, **opts)[:3, :3], sm.SO3.RPY(ang, unit=unit, **opts).A,
                    sm.UnitQuaternion.RPY(ang, unit=unit, **opts).R]
        elif which == 'eul':
            ang = base.tr2eul(R, unit=unit, **opts)
            outs = [base.eul2r(ang, unit=unit), base.eul2tr(ang, unit=unit)[:3, :3], sm.SO3.Eul(ang, unit=unit).A, sm.SE3.Eul(ang, unit=unit).R]
        else:
            th, v = base.tr2angvec(R, unit=unit)
            if np.linalg.norm(v) == 0:
                ctx.ood('extract')
                return
            outs = [base.angvec2r(th, v, unit=unit), base.angvec2tr(th, v, unit=unit)[:3, :3], sm.SO3.AngVec(th, v, unit=unit).A,
                    sm.UnitQuaternion.AngVec(th, v, unit=unit).R]
    except Exception as e:
        ctx.bad('extract', dict(sig, kind='raised', exc=type(e).__name__), 'library round trip %s (%s) raised %r' % (which, unit, e))
        return
    worst = max(float(np.max(np.abs(np.asarray(o, dtype=np.float64) - R))) for o in outs)
    k = int(np.argmax([float(np.max(np.abs(np.asarray(o, dtype=np.float64) - R))) for o in outs]))
    ctx.judge('extract', worst <= TOL, dict(sig, kind='library_roundtrip', which_rebuild=k),
              lambda: 'extract with tr2%s(unit=%s, %s) then rebuild #%d with the library differs from R by %.3g' % (which, unit, opts, k, worst))
    ctx.cell('roundtrip', which, unit)
    ctx.nontrivial('roundtrip', which, unit, sorted(opts.items()), [float('%.9g' % x) for x in R.reshape(-1)])


def run_roundtrip_multi(ctx, p):
    """objects holding N rotations: extract the N angle sets with the class method and hand exactly what it returned to the
    class constructor; every value must come back (N = 3 included, where a transposed table would still be accepted)"""
    import spatialmath as sm
    Rs = [np.asarray(R, dtype=np.float64) for R in p['Rs']]
    cname, which, unit, opts = p['cls'], p['which'], p['unit'], dict(p.get('opts', {}))
    C = getattr(sm, cname)
    sig = dict(api='roundtrip.%s.%s' % (cname, which), unit=unit, opts=opts, values=len(Rs))
    try:
        if cname == 'UnitQuaternion':
            X = C([sm.base.r2q(R) for R in Rs])
        elif cname == 'SE3':
            X = C([ref.rt2tr(R, [1.0, 2.0, 3.0]) for R in Rs])
        else:
            X = C(Rs)
        if which == 'rpy':
            ang = X.rpy(unit=unit, **opts)
            Y = C.RPY(ang, unit=unit, **opts) if cname != 'UnitQuaternion' else [sm.UnitQuaternion.RPY(a, unit=unit, **opts) for a in ang]
        else:
            ang = X.eul(unit=unit)
            Y = C.Eul(ang, unit=unit) if cname != 'UnitQuaternion' else [sm.UnitQuaternion.Eul(a, unit=unit) for a in ang]
        got = [np.asarray(y.R if hasattr(y, 'R') else y, dtype=np.float64) for y in Y]
        got = [g[:3, :3] for g in got]
    except Exception as e:
        ctx.bad('extract', dict(sig, kind='raised', exc=type(e).__name__), 'multi-valued round trip %s.%s (%s) raised %r' % (cname, which, unit, e))
        return
    ok = len(got) == len(Rs)
    worst = max(float(np.max(np.abs(g - R))) for g, R in zip(got, Rs)) if ok else math.inf
    ctx.judge('extract', worst <= TOL, dict(sig, kind='library_roundtrip_multi'),
              lambda: '%s holding %d rotations: %s(unit=%s, %s) returned an array of shape %s; rebuilding from it gives %d values differing from the originals by %.3g' % (
                  cname, len(Rs), which, unit, opts, np.shape(ang), len(got), worst))
    ctx.cell('roundtrip_multi', cname, which, unit, len(Rs))
    ctx.nontrivial('roundtrip_multi', cname, which, unit, sorted(opts.items()), [float('%.9g' % x) for R in Rs for x in R.reshape(-1)])


RUNNERS = {'extract': run_extract, 'class': run_class, 'construct': run_construct, 'roundtrip': run_roundtrip, 'roundtrip_multi': run_roundtrip_multi}


# ----------------------------------------------------------------------------- workload
OFFS = [0.0] + gen.DELTAS + [-d for d in gen.DELTAS]


def near(rng, centres):
    if rng.random() < 0.5:
        # offsets drawn continuously, concentrated where a singular-branch approximation costs about the stated 1e-6
        # (an offset d in the singular branch costs ~2d): a threshold moved from 7e-8 to 7e-7 is wrong only between 5e-7 and 7e-7
        d = gen.logu(rng, 1e-7, 5e-6) if rng.random() < 0.6 else gen.logu(rng, 1e-12, 1e-1)
        return float(centres[rng.integers(len(centres))] + gen.sign(rng) * d)
    return float(centres[rng.integers(len(centres))] + OFFS[rng.integers(len(OFFS))])


def ang(rng):
    return float(rng.uniform(-PI, PI)) if rng.random() < 0.6 else gen.angle(rng)


def rotation_for(rng, api, order=None):
    """rotation generated from an angle triple, frequently at / near the singular configuration"""
    r = rng.random()
    if r < 0.15:
        return gen.so3(rng)
    if api == 'tr2rpy':
        if 0.6 <= r < 0.72:
            # two of the three angles at right angles at once (roll and yaw at +-90 deg, 0 or 180 deg, exactly or 1e-14 .. 1e-9 off), the
            # pitch anywhere: the four matrix elements a pitch formula may divide by are then all tiny or all equal; half of these
            # matrices carry the rounding noise of a product (as a value that came through a quaternion or a chain does)
            sp = lambda: float([PI / 2, -PI / 2, 0.0, PI][rng.integers(4)] + (0.0 if rng.random() < 0.4 else gen.sign(rng) * gen.logu(rng, 1e-14, 1e-9)))
            R_ = rpy_ref(sp(), ang(rng), sp(), order)
            if rng.random() < 0.5:
                N_ = gen.so3(rng)
                R_ = N_ @ (N_.T @ R_)
            return R_
        p = near(rng, [PI / 2, -PI / 2]) if r < 0.6 else ang(rng)
        return rpy_ref(ang(rng), p, ang(rng), order)
    if api == 'tr2eul':
        b = near(rng, [0.0, PI, -PI]) if r < 0.6 else ang(rng)
        return eul_ref(ang(rng), b, ang(rng))
    th = near(rng, [0.0, PI]) if r < 0.6 else gen.rot_angle(rng)
    return ref.rot(gen.unit_axis(rng), abs(th))


def run(ctx):
    rng = ctx.rng
    onames = list(ORDERS)
    for _ in range(ctx.scale(9000, 250000)):
        api = ['tr2rpy', 'tr2rpy', 'tr2eul', 'tr2angvec'][rng.integers(4)]
        opts = {}
        order = None
        if api == 'tr2rpy':
            order = onames[rng.integers(6)]
            opts['order'] = order
        elif api == 'tr2eul':
            opts['flip'] = bool(rng.integers(2))
        R = rotation_for(rng, api, order)
        if rng.random() < 0.3:
            R = ref.rt2tr(R, gen.transl(rng))
        p = dict(api=api, R=R, opts=opts)
        if rng.random() < 0.2 and api != 'tr2xyt':
            p['noisy'] = gen.so3(rng)
        if rng.random() < 0.25:
            p['layout'] = gen.LAYOUTS[rng.integers(4)]
        drive(RUNNERS, ctx, 'extract', p)
        if ctx.ncases % 1999 == 1:
            ctx.sample(dict(kind='extract', **p))
    for _ in range(ctx.scale(600, 10000)):
        drive(RUNNERS, ctx, 'extract', dict(api='tr2xyt', R=gen.se2(rng), opts={}))
    for _ in range(ctx.scale(1500, 30000)):
        which = ['rpy', 'eul', 'angvec'][rng.integers(3)]
        opts = {'order': onames[rng.integers(6)]} if which == 'rpy' else {}
        drive(RUNNERS, ctx, 'roundtrip', dict(which=which, unit=['rad', 'deg'][rng.integers(2)], opts=opts,
                                              R=rotation_for(rng, 'tr2' + which, opts.get('order'))))
    for _ in range(ctx.scale(500, 10000)):
        which = ['rpy', 'eul'][rng.integers(2)]
        opts = {'order': onames[rng.integers(6)]} if which == 'rpy' else {}
        n = int([2, 3, 3, 4][rng.integers(4)])
        drive(RUNNERS, ctx, 'roundtrip_multi', dict(cls=['SO3', 'SE3', 'UnitQuaternion'][rng.integers(3)], which=which, unit=['rad', 'deg'][rng.integers(2)], opts=opts,
                                                    Rs=[rotation_for(rng, 'tr2' + which, opts.get('order')) for _ in range(n)]))
    for _ in range(ctx.scale(4000, 80000)):
        k = rng.integers(10)
        if k < 8:
            cname = ['SO3', 'SE3', 'UnitQuaternion'][rng.integers(3)]
            acc = ['rpy', 'eul', 'angvec'][rng.integers(3)]
            opts = {}
            order = None
            if acc == 'rpy':
                order = onames[rng.integers(6)]
                opts['order'] = order
            if acc == 'eul' and cname != 'UnitQuaternion' and rng.random() < 0.5:
                opts['flip'] = bool(rng.integers(2))
            R = rotation_for(rng, 'tr2' + acc, order)
            M = ref.rt2tr(R, gen.transl(rng)) if cname == 'SE3' else R
        elif k == 8:
            cname, acc, opts, M = 'SE2', 'xyt', {}, gen.se2(rng)
        else:
            cname, acc, opts, M = 'SO2', 'theta', {}, gen.so2(rng)
        q = None
        if cname == 'UnitQuaternion' and rng.random() < 0.6:
            # reference matrix -> quaternion (longdouble), random sign: scalar part negative half of the time
            q = gen.unit_quat(rng)
            M = ref.f64(ref.q2r(q))
        via = (['inv'] + gen.LAYOUTS[:4])[rng.integers(5)] if (q is None and rng.random() < 0.35) else None
        drive(RUNNERS, ctx, 'class', dict(cls=cname, acc=acc, opts=opts, M=M, q=q, via=via))
    for _ in range(ctx.scale(3000, 60000)):
        unit = ['rad', 'deg'][rng.integers(2)]
        A = lambda: ctors._ang(rng, unit)
        k = rng.integers(4)
        if k == 0:
            a = [A(), near(rng, [PI / 2, -PI / 2]) * (180 / PI if unit == 'deg' else 1) if rng.random() < 0.4 else A(), A()]
            p = dict(api='rpy2r', args=[a] if rng.random() < 0.5 else a, kwargs={'unit': unit, 'order': onames[rng.integers(6)]})
        elif k == 1:
            a = [A(), A(), A()]
            p = dict(api='eul2r', args=[a] if rng.random() < 0.5 else a, kwargs={'unit': unit})
        elif k == 2:
            p = dict(api='angvec2r', args=[A(), gen.axis(rng).tolist()], kwargs={'unit': unit})
        else:
            p = dict(api='xyt2tr', args=[np.r_[gen.transl(rng, 2), A()].tolist()], kwargs={'unit': unit})
        drive(RUNNERS, ctx, 'construct', p)
