"""C16 -- symbolic results agree with numeric results.

Every API entry whose docstring says ':SymPy: supported' (found by reflection on every run)
is called with SymPy symbols in every argument slot and in every symbol/number mix, in all of
its call forms; the symbolic output is evaluated at the substitution point and compared with
what the same call returns for those numbers (1e-12), structural constants must stay exact,
and a symbolic call must not raise where the numeric call form is accepted.  Pose-class
operators (compose, invert, act on points) are monitored on symbolic values as well.
"""
import itertools
import math
import re

import numpy as np

from .. import core, gen, ref
from ..core import drive

PROP = 'C16'
SHARDS = {'quick': 4, 'thorough': 16}
TOL = 1e-12
RULE = ("templates for every ':SymPy: supported' entry (reflection guard: an entry without a template makes the run "
        "inconclusive) x every symbol/number mask of its argument slots x substitution points drawn from the angle pool "
        '(special angles included) and translations <= 1e3. distinct = (entry, call form, mask); non-trivial = at least one '
        'symbolic slot')
ASSUMPTIONS = ['symbolic outputs are evaluated with sympy subs + evalf (17 digits) and compared to 1e-12 relative to the largest magnitude in the numeric result (and 1)',
               'structural constant = entry of the numeric result that is exactly 0 or 1 at three generic argument points']
MIN_EVALS = {'value': {'quick': 1200, 'thorough': 18000}, 'constants': {'quick': 1200, 'thorough': 18000},
             'accepts': {'quick': 1200, 'thorough': 18000}}


def S():
    import spatialmath
    return spatialmath


def B():
    import spatialmath.base as b
    return b


def sy():
    import sympy
    return sympy


# ----------------------------------------------------------------------------- templates
# (api name as found by reflection, call-form label, slot kinds, function of the slot values)
def TEMPLATES():
    b, sm = B(), S()
    A, D, L, G = 'ang', 'angdeg', 'len', 'gen'

    def T3(a):      # a symbolic / numeric SE(3): trotz(a0) @ transl(a1, a2, a3)-like, built by the library
        return b.trotx(a[0], t=[a[1], a[2], a[3]])

    def R3(a):
        return b.rotz(a[0]) @ b.roty(a[1])
    out = []
    for ax in 'xyz':
        rot, trot = getattr(b, 'rot' + ax), getattr(b, 'trot' + ax)
        out += [('base.rot' + ax, 'theta', [A], lambda a, f=rot: f(a[0])),
                ('base.rot' + ax, "theta,'deg'", [D], lambda a, f=rot: f(a[0], 'deg')),
                ('base.rot' + ax, "unit='deg'", [D], lambda a, f=rot: f(a[0], unit='deg')),
                ('base.trot' + ax, 'theta', [A], lambda a, f=trot: f(a[0])),
                ('base.trot' + ax, 'theta,t=', [A, L, L, L], lambda a, f=trot: f(a[0], t=[a[1], a[2], a[3]])),
                ('base.trot' + ax, "unit='deg',t=", [D, L, L, L], lambda a, f=trot: f(a[0], unit='deg', t=[a[1], a[2], a[3]]))]
    out += [
        ('base.transl', 'x,y,z', [L, L, L], lambda a: b.transl(a[0], a[1], a[2])),
        ('base.transl', '[x,y,z]', [L, L, L], lambda a: b.transl([a[0], a[1], a[2]])),
        ('base.eul2r', '[phi,theta,psi]', [A, A, A], lambda a: b.eul2r([a[0], a[1], a[2]])),
        ('base.eul2r', 'phi,theta,psi', [A, A, A], lambda a: b.eul2r(a[0], a[1], a[2])),
        ('base.eul2r', "[..],unit='deg'", [D, D, D], lambda a: b.eul2r([a[0], a[1], a[2]], unit='deg')),
        ('base.eul2tr', '[phi,theta,psi]', [A, A, A], lambda a: b.eul2tr([a[0], a[1], a[2]])),
        ('base.eul2tr', 'phi,theta,psi', [A, A, A], lambda a: b.eul2tr(a[0], a[1], a[2])),
        ('base.skew', '3-vector', [G, G, G], lambda a: b.skew([a[0], a[1], a[2]])),
        ('base.skew', '1-vector', [G], lambda a: b.skew([a[0]])),
        ('base.skewa', '6-vector', [G] * 6, lambda a: b.skewa(list(a))),
        ('base.skewa', '3-vector', [G] * 3, lambda a: b.skewa(list(a))),
        ('base.vex', 'skew(v)', [G, G, G], lambda a: b.vex(b.skew([a[0], a[1], a[2]]))),
        ('base.vexa', 'skewa(s)', [G] * 6, lambda a: b.vexa(b.skewa(list(a)))),
        ('base.cross', 'u,v', [G] * 6, lambda a: b.cross([a[0], a[1], a[2]], [a[3], a[4], a[5]])),
        ('base.norm', 'v', [G, G, G], lambda a: b.norm([a[0], a[1], a[2]])),
        ('base.norm', 'array', [G, G, G], lambda a: b.norm(np.array([a[0], a[1], a[2]]))),
        ('base.normsq', 'v', [G, G, G], lambda a: b.normsq([a[0], a[1], a[2]])),
        # vectors whose sum of squares is a single power (one component, or the others zero): sqrt(x**2) is |x|, not x
        ('base.norm', '[x]', [G], lambda a: b.norm([a[0]])), ('base.norm', '[x,0,0]', [G], lambda a: b.norm([a[0], 0, 0])),
        ('base.norm', '[0,0.0,z]', [G], lambda a: b.norm([0, 0.0, a[0]])), ('base.norm', '[x*y,0]', [G, G], lambda a: b.norm([a[0] * a[1], 0])),
        ('base.norm', '[x-y,0,0]', [G, G], lambda a: b.norm([a[0] - a[1], 0, 0])),
        ('base.conj', 'q', [G] * 4, lambda a: b.conj(list(a))),
        ('base.qpow', 'q,3', [G] * 4, lambda a: b.qpow(list(a), 3)),
        ('base.qpow', 'q,-2', [G] * 4, lambda a: b.qpow(list(a), -2)),
        ('base.trinv', 'T', [A, L, L, L], lambda a: b.trinv(T3(a))),
        ('base.trinv2', 'T', [A, L, L], lambda a: b.trinv2(b.trot2(a[0], t=[a[1], a[2]]) if not _issym(a) else _trot2sym(a))),
        ('base.tr2jac', 'T', [A, L, L, L], lambda a: b.tr2jac(T3(a))),
        ('base.tr2jac', 'T,samebody', [A, L, L, L], lambda a: b.tr2jac(T3(a), samebody=True)),
        ('base.tr2delta', 'T', [A, L, L, L], lambda a: b.tr2delta(T3(a))),
        ('base.tr2delta', 'T0,T1', [A, L, L, L, A], lambda a: b.tr2delta(T3(a), T3([a[4], a[3], a[1], a[2]]))),
        ('base.delta2tr', 'd', [G] * 6, lambda a: b.delta2tr(list(a))),
        # a GENERAL rotation (two axes), whose matrix is not symmetric about the diagonal in any simple way: vex / vexa / tr2delta
        # of it average the two off-diagonal elements
        ('base.tr2delta', 'general T', [A, A, L, L, L], lambda a: b.tr2delta(b.trotx(a[0]) @ b.troty(a[1], t=[a[2], a[3], a[4]]))),
        ('base.tr2delta', 'general T0,T1', [A, A, L, A], lambda a: b.tr2delta(b.trotz(a[0], t=[a[2], 0, 1]), b.trotx(a[1]) @ b.troty(a[3], t=[1, a[2], 2]))),
        ('base.vex', 'general matrix', [A, A], lambda a: b.vex(R3(a))),
        ('base.vexa', 'general matrix', [A, A, L], lambda a: b.vexa(b.trotx(a[0]) @ b.troty(a[1], t=[a[2], 1, 2]))),
        ('SE3.delta', 'general', [A, A, L], lambda a: sm.SE3(b.trotx(a[0]) @ b.troty(a[1], t=[a[2], 1, 2]), check=False).delta(sm.SE3(b.trotz(a[1]), check=False))),
        ('base.det', 'R', [A, A], lambda a: b.det(R3(a))),
        # classes
        ('SE3.Rx', 'theta', [A], lambda a: sm.SE3.Rx(a[0])), ('SE3.Ry', 'theta', [A], lambda a: sm.SE3.Ry(a[0])),
        ('SE3.Rz', 'theta', [A], lambda a: sm.SE3.Rz(a[0])),
        ('SE3.Rx', "theta,unit='deg'", [D], lambda a: sm.SE3.Rx(a[0], unit='deg')),
        ('SE3.Rx', 'theta,t=', [A, L, L, L], lambda a: sm.SE3.Rx(a[0], t=[a[1], a[2], a[3]])),
        ('SE3.Tx', 'x', [L], lambda a: sm.SE3.Tx(a[0])), ('SE3.Ty', 'y', [L], lambda a: sm.SE3.Ty(a[0])), ('SE3.Tz', 'z', [L], lambda a: sm.SE3.Tz(a[0])),
        ('SE3.Eul', '[..]', [A, A, A], lambda a: sm.SE3.Eul([a[0], a[1], a[2]])),
        ('SE3.RPY', '[..]', [A, A, A], lambda a: sm.SE3.RPY([a[0], a[1], a[2]])),
        ('SE3.RPY', "[..],order='xyz'", [A, A, A], lambda a: sm.SE3.RPY([a[0], a[1], a[2]], order='xyz')),
        # differential motions only (documented domain): numeric Delta normalises, which is invisible below ~3e-7
        ('SE3.Delta', 'd', ['tiny'] * 6, lambda a: sm.SE3.Delta(list(a))),
        ('SE3.__init__', 'x,y,z', [L, L, L], lambda a: sm.SE3(a[0], a[1], a[2])),
        ('SE3.__init__', 'matrix', [A, L, L, L], lambda a: sm.SE3(T3(a), check=False)),
        ('SO3.__init__', 'matrix', [A, A], lambda a: sm.SO3(R3(a), check=False)),
        ('SO3.R', 'R', [A, A], lambda a: sm.SO3(R3(a), check=False).R),
        ('SE3.R', 'R', [A, L, L, L], lambda a: sm.SE3(T3(a), check=False).R),
        ('SE3.t', 't', [A, L, L, L], lambda a: sm.SE3(T3(a), check=False).t),
        ('SE3.inv', 'inv', [A, L, L, L], lambda a: sm.SE3(T3(a), check=False).inv()),
        ('SE3.Ad', 'Ad', [A, L, L, L], lambda a: sm.SE3(T3(a), check=False).Ad()),
        ('SE3.jacob', 'jacob', [A, L, L, L], lambda a: sm.SE3(T3(a), check=False).jacob()),
        ('SO3.simplify', 'simplify', [A, A], lambda a: sm.SO3(R3(a), check=False).simplify() if _issym(a) else sm.SO3(R3(a), check=False)),
        ('SE3.simplify', 'simplify', [A, L, L, L], lambda a: sm.SE3(T3(a), check=False).simplify() if _issym(a) else sm.SE3(T3(a), check=False)),
        ('SO2.simplify', 'simplify', [A], lambda a: sm.SO2(b.rot2(a[0]) @ b.rot2(a[0]), check=False).simplify() if _issym(a) else sm.SO2(b.rot2(a[0]) @ b.rot2(a[0]), check=False)),
        ('SE2.simplify', 'simplify', [A, L, L], lambda a: sm.SE2(_trot2sym(a), check=False).simplify() if _issym(a) else sm.SE2(b.trot2(a[0], t=[a[1], a[2]]), check=False)),
        # ... of objects whose array is a transposed view (what SO3.inv() holds) or Fortran-ordered
        ('SO3.simplify', 'inv().simplify()', [A, A], lambda a: sm.SO3(R3(a), check=False).inv().simplify() if _issym(a) else sm.SO3(R3(a), check=False).inv()),
        ('SE3.simplify', 'F-ordered.simplify()', [A, L, L, L], lambda a: sm.SE3(np.asfortranarray(T3(a)), check=False).simplify() if _issym(a) else sm.SE3(T3(a), check=False)),
        ('SE3.simplify', '(X*Y.inv()).simplify()', [A, L, L, L, A], lambda a: ((sm.SE3(T3(a), check=False) * sm.SE3.Ry(a[4]).inv()).simplify() if _issym(a) else sm.SE3(T3(a), check=False) * sm.SE3.Ry(a[4]).inv())),
        ('Twist3.Rx', 'theta', [A], lambda a: sm.Twist3.Rx(a[0])), ('Twist3.Ry', 'theta', [A], lambda a: sm.Twist3.Ry(a[0])),
        ('Twist3.Rz', 'theta', [A], lambda a: sm.Twist3.Rz(a[0])),
        # pose operators over symbolic values
        ('op:SE3*SE3', 'X*Y', [A, L, L, L, A], lambda a: sm.SE3(T3(a), check=False) * sm.SE3.Ry(a[4])),
        ('op:SE3*inv', 'X*X.inv()*Y', [A, L, L, L, A], lambda a: sm.SE3(T3(a), check=False).inv() * sm.SE3.Rz(a[4], t=[a[3], a[2], a[1]])),
        ('op:SE3*point', 'X*p', [A, L, L, L, L], lambda a: sm.SE3(T3(a), check=False) * [a[4], a[2], a[1]]),
        ('op:SO3*SO3', 'X*Y', [A, A, A], lambda a: sm.SO3.Rx(a[0]) * sm.SO3.Ry(a[1]) * sm.SO3.Rz(a[2])),
        ('op:SO3*point', 'X*p', [A, A, L], lambda a: (sm.SO3.Rx(a[0]) * sm.SO3.Ry(a[1])) * [a[2], 1, 2]),
        # scalar (number or symbol) on either side of a pose, + and - with a scalar: plain arrays
        ('op:scalar*SE3', 's*X', [G, A], lambda a: a[0] * sm.SE3.Rx(a[1])), ('op:SE3*scalar', 'X*s', [G, A], lambda a: sm.SE3.Rx(a[1]) * a[0]),
        ('op:scalar*SO3', 's*X', [G, A], lambda a: a[0] * sm.SO3.Ry(a[1])), ('op:scalar+SE3', 's+X', [G, A], lambda a: a[0] + sm.SE3.Rz(a[1])),
        ('op:SE3-scalar', 'X-s', [G, A], lambda a: sm.SE3.Rz(a[1]) - a[0]), ('op:SE3/scalar', 'X/s', [G, A], lambda a: sm.SE3.Rz(a[1]) / a[0]),
        # operands that are nearly, not exactly, equal (1e-9 apart): the quotient is a motion of 1e-9, not the identity
        ('op:SE3/SE3', 'nearly equal operands', [A], lambda a: (sm.SE3.Rx(a[0], t=[1, 2, 3]) / sm.SE3.Rx(a[0] + 1e-9, t=[1, 2, 3 + 2e-9])).A),
        ('op:SO3/SO3', 'nearly equal operands', [A], lambda a: (sm.SO3.Rz(a[0]) / sm.SO3.Rz(a[0] + 1e-9)).A),
        ('op:SE2/SE2', 'nearly equal operands', [A], lambda a: (sm.SE2(1, 2, a[0]) / sm.SE2(1 + 1e-9, 2, a[0] - 1e-9)).A),
        # == / != value by value on objects holding several values, some symbolic, some numeric (equal only to rounding)
        ('op:==', 'mixed sequence', [A], lambda a: [bool(v_) for v_ in (sm.SE3([sm.SE3.Rx(a[0]), sm.SE3.Rz(0.1) * sm.SE3.Rz(0.2), sm.SE3.Ry(a[0])]) == sm.SE3([sm.SE3.Rx(a[0]), sm.SE3.Rz(0.3), sm.SE3.Rx(a[0] + 1)]))]),
        ('op:!=', 'mixed sequence', [A], lambda a: [bool(v_) for v_ in (sm.SO3([sm.SO3.Rx(a[0]), sm.SO3.Rz(0.1) * sm.SO3.Rz(0.2)]) != sm.SO3([sm.SO3.Rx(a[0]), sm.SO3.Rz(0.3)]))]),
        # the same entries in their other documented call forms: separate scalars with unit='deg', option order, t= as tuple / ndarray
        ('base.eul2r', "phi,theta,psi,unit='deg'", [D, D, D], lambda a: b.eul2r(a[0], a[1], a[2], unit='deg')),
        ('base.eul2tr', "phi,theta,psi,unit='deg'", [D, D, D], lambda a: b.eul2tr(a[0], a[1], a[2], unit='deg')),
        ('base.trotx', 'theta,t=ndarray', [A, L, L, L], lambda a: b.trotx(a[0], t=np.array([a[1], a[2], a[3]]))),
        ('base.troty', 'theta,t=tuple', [A, L, L, L], lambda a: b.troty(a[0], t=(a[1], a[2], a[3]))),
        ('base.trotz', "unit='deg',t=ndarray", [D, L, L, L], lambda a: b.trotz(a[0], unit='deg', t=np.array([a[1], a[2], a[3]]))),
        ('SE3.Rx', 'theta,t=ndarray', [A, L, L, L], lambda a: sm.SE3.Rx(a[0], t=np.array([a[1], a[2], a[3]]))),
        ('SE3.Ry', "unit='deg',t=tuple", [D, L, L, L], lambda a: sm.SE3.Ry(a[0], unit='deg', t=(a[1], a[2], a[3]))),
        ('base.transl', 'ndarray', [L, L, L], lambda a: b.transl(np.array([a[0], a[1], a[2]]))),
        ('SE3.Eul', "[..],unit='deg'", [D, D, D], lambda a: sm.SE3.Eul([a[0], a[1], a[2]], unit='deg')),
        ('SE3.RPY', "[..],unit='deg',order='yxz'", [D, D, D], lambda a: sm.SE3.RPY([a[0], a[1], a[2]], unit='deg', order='yxz')),
        # comparison of symbolic poses (same-class == / != return booleans without raising: C08)
        ('op:SE3==SE3', 'X==X', [A, L], lambda a: np.array([float(sm.SE3.Rx(a[0], t=[a[1], 0, 1]) == sm.SE3.Rx(a[0], t=[a[1], 0, 1]))])),
        ('op:SO3!=SO3', 'X!=X', [A], lambda a: np.array([float(sm.SO3.Ry(a[0]) != sm.SO3.Ry(a[0]))])),
        ('op:SO2==SO2', 'X==X', [A], lambda a: np.array([float(sm.SO2(a[0]) == sm.SO2(a[0]))])),
        # pose objects holding several symbolic values
        ('op:SE3seq.inv', '[X,Y].inv()', [A, L, L, L, A, L, L, L], lambda a: sm.SE3([T3(a[:4]), T3(a[4:])], check=False).inv()),
        ('op:SE3seq*SE3', '[X,Y]*Z', [A, L, L, L, A, L, L, L], lambda a: sm.SE3([T3(a[:4]), T3(a[4:])], check=False) * sm.SE3.Rx(a[4], t=[a[1], 2, a[7]])),
        ('op:SE3/SE3seq', 'Z/[X,Y]', [A, L, L, L, A, L, L, L], lambda a: sm.SE3.Ry(a[0], t=[a[5], a[1], 1]) / sm.SE3([T3(a[:4]), T3(a[4:])], check=False)),
        ('op:SE3seq*point', '[X,Y]*p', [A, L, L, L, A, L, L, L], lambda a: sm.SE3([T3(a[:4]), T3(a[4:])], check=False) * [a[1], a[6], 3]),
        ('op:SO3seq.inv', '[X,Y].inv()', [A, A, A, A], lambda a: sm.SO3([R3(a[:2]), R3(a[2:])], check=False).inv()),
        ('op:SO3seq*SO3seq', '[X,Y]*[Y,X]', [A, A, A, A], lambda a: sm.SO3([R3(a[:2]), R3(a[2:])], check=False) * sm.SO3([R3(a[2:]), R3(a[:2])], check=False)),
        ('SE3.Tx', '[x,y]', [L, L], lambda a: sm.SE3.Tx([a[0], a[1]])),
        ('SO3.Rx', '[a,b]', [A, A], lambda a: sm.SO3.Rx([a[0], a[1]])),
    ]
    return out


def _issym(a):
    return any(isinstance(x, sy().Basic) for x in a)


def _trot2sym(a):
    """SE(2) matrix with possibly symbolic entries, built from the library's rot2 (trot2 pads with float zeros)"""
    b = B()
    R = b.rot2(a[0])
    T = np.zeros((3, 3), dtype=object)
    T[:2, :2] = R
    T[0, 2], T[1, 2], T[2, 2] = a[1], a[2], 1
    return T


def supported_by_reflection():
    """names whose docstring says ':SymPy: supported'"""
    import inspect
    b, sm = B(), S()
    pat = re.compile(r':SymPy:\s*supported')
    out = set()
    for n in dir(b):
        f = getattr(b, n)
        if callable(f) and getattr(f, '__module__', '').startswith('spatialmath') and pat.search(getattr(f, '__doc__', None) or ''):
            out.add('base.' + n)
    for c in ('SO2', 'SE2', 'SO3', 'SE3', 'Quaternion', 'UnitQuaternion', 'Twist2', 'Twist3', 'Plucker'):
        C = getattr(sm, c)
        for n in dir(C):
            try:
                v = inspect.getattr_static(C, n)
            except AttributeError:
                continue
            f = v.__func__ if isinstance(v, (classmethod, staticmethod)) else (v.fget if isinstance(v, property) else v)
            d = getattr(f, '__doc__', None)
            if d and pat.search(d):
                # attribute the entry to the class that defines it
                owner = next((K.__name__ for K in C.__mro__ if n in K.__dict__), c)
                if owner in ('SMPose', 'SMUserList'):
                    owner = c
                out.add('%s.%s' % (owner, n))
    return out


# ----------------------------------------------------------------------------- evaluation helpers
def flatten(res):
    """result -> flat list of entries (numbers or sympy expressions) + a shape tag"""
    d = getattr(res, 'data', None)
    if isinstance(d, list) and type(res).__module__.startswith('spatialmath'):
        parts = [np.asarray(x, dtype=object).reshape(-1) for x in d]
        return list(np.concatenate(parts)) if parts else [], (type(res).__name__, len(d), tuple(np.shape(d[0])) if d else ())
    if isinstance(res, (list, tuple)):
        flat, tags = [], []
        for x in res:
            f, t = flatten(x)
            flat += f
            tags.append(t)
        return flat, ('seq', tuple(tags))
    a = np.asarray(res, dtype=object)
    return list(a.reshape(-1)), ('nd', a.shape)


def evalf(x, sub):
    sympy = sy()
    if isinstance(x, sympy.Basic):
        v = x.subs(sub)
        v = sympy.N(v, 17)
        if v.free_symbols:
            raise ValueError('unresolved symbols %s' % v.free_symbols)
        return complex(v).real if abs(complex(v).imag) < 1e-300 else complex(v)
    return float(x)


def slot_value(rng, kind):
    if kind == 'ang':
        return gen.SPECIAL_ANGLES[rng.integers(len(gen.SPECIAL_ANGLES))] if rng.random() < 0.4 else float(rng.uniform(-math.pi, math.pi))
    if kind == 'angdeg':
        return float([0, 30, 45, 90, -90, 180, -180, 270][rng.integers(8)]) if rng.random() < 0.4 else float(rng.uniform(-180, 180))
    if kind == 'len':
        return float(gen.sign(rng) * gen.logu(rng, 1e-3, 1e3))
    if kind == 'tiny':
        return float(gen.sign(rng) * gen.logu(rng, 1e-9, 3e-7))
    return float(gen.sign(rng) * gen.logu(rng, 1e-2, 1e2))


def run_tmpl(ctx, p):
    sympy = sy()
    tname, form, kinds, fn = TEMPLATES()[p['t']]
    vals, mask = p['vals'], p['mask']
    syms = sympy.symbols('s0:%d' % len(vals), real=True)
    exact = p.get('exact') or [None] * len(vals)

    def exact_arg(d):       # an exact SymPy constant (n/d, or n/d * pi): symbolic, but with no free symbol
        return sympy.Rational(d[0], d[1]) * (sympy.pi if d[2] else 1)
    args = [exact_arg(exact[i]) if mask[i] == 'c' else (syms[i] if mask[i] else vals[i]) for i in range(len(vals))]
    sub = {syms[i]: vals[i] for i in range(len(vals)) if mask[i] is True}
    sig = dict(api=tname, form=form, mask=''.join('c' if m == 'c' else ('s' if m else 'n') for m in mask))
    try:
        num = fn(list(vals))
    except Exception as e:
        ctx.ood('accepts')       # the numeric call form itself is not accepted: nothing to compare with (other properties)
        ctx.cell('numeric_form_rejected', tname, form, type(e).__name__)
        return
    try:
        symres = fn(args)
    except Exception as e:
        ctx.bad('accepts', dict(sig, kind='symbolic_call_raised', exc=type(e).__name__),
                '%s (%s) with symbols in slots %s raised %r; the numeric call is accepted' % (tname, form, sig['mask'], e))
        return
    ctx.ok('accepts')
    fs, tag_s = flatten(symres)
    fn_, tag_n = flatten(num)
    if tag_s != tag_n or len(fs) != len(fn_):
        ctx.bad('value', dict(sig, kind='shape_or_type_differs'), '%s (%s): symbolic result %s, numeric result %s' % (tname, form, tag_s, tag_n))
        return
    worst, wi, werr = 0.0, -1, None
    # scale of the whole result: polynomial entries may cancel (e.g. q**3), their error scales with the largest term
    try:
        big = max([1.0] + [abs(float(x)) for x in fn_] + [abs(float(v)) ** 3 for v in vals if tname == 'base.qpow'])
    except Exception:
        big = 1.0
    for i, (xs, xn) in enumerate(zip(fs, fn_)):
        try:
            v = evalf(xs, sub)
            dn = float(xn)
            d = abs(v - dn) / big
        except Exception as e:
            d, werr = math.inf, e
        if not d <= worst:
            worst, wi = d, i
    ctx.judge('value', worst <= TOL, dict(sig, kind='value_differs'),
              lambda: '%s (%s) mask %s at %s: entry %d symbolic=%s -> %s, numeric=%r (rel diff %.3g) %s' % (
                  tname, form, sig['mask'], vals, wi, core.short(fs[wi], 200), core.short(fs[wi].subs(sub) if hasattr(fs[wi], 'subs') else fs[wi], 100), fn_[wi], worst, werr or ''))
    # structural constants
    consts = p.get('consts')
    if consts is not None and len(consts) == len(fs):
        bad = []
        for i, (c, xs) in enumerate(zip(consts, fs)):
            if c is None:
                continue
            isnum = not (isinstance(xs, sympy.Basic) and xs.free_symbols)
            try:
                exact = isnum and float(xs) == float(c)
            except Exception:
                exact = False
            if not exact:
                bad.append((i, c, xs))
        ctx.judge('constants', not bad, dict(sig, kind='structural_constant_not_exact'),
                  lambda: '%s (%s) mask %s: entries that are constant 0/1 in the numeric result are not exact: %s' % (tname, form, sig['mask'], core.short(bad, 300)))
    # (with exact SymPy constants as arguments -- pi/2, 1/3 -- only what the property states is judged: values, structural 0 / 1 entries,
    #  acceptance.  That cos(pi/2) comes out as an exact 0 is not promised: the library itself returns 1.2e-16 for 90 given in degrees)
    ctx.cell('tmpl', tname, form, sig['mask'])
    if any(mask):
        ctx.nontrivial(tname, form, sig['mask'])


def run_inthistory(ctx, p):
    """a symbolic call whose arguments are exact SymPy integers, then the numeric call with the equal Python ints (and the other way
    round with other integers): the numeric call returns plain numbers, equal to what it returns in a new process, and the symbolic
    result evaluates to the same values"""
    sympy = sy()
    tname, form, kinds, fn = TEMPLATES()[p['t']]
    sig = dict(api=tname, form=form)
    for order, ks in (('symbolic first', p['ks1']), ('numeric first', p['ks2'])):
        outs = {}
        for which in (('sym', 'num') if order == 'symbolic first' else ('num', 'sym')):
            try:
                outs[which] = fn([sympy.Integer(k) for k in ks] if which == 'sym' else [int(k) for k in ks])
            except Exception as e:
                outs[which] = e
        if isinstance(outs['num'], Exception):
            ctx.ood('value')
            continue
        fnum, _t = flatten(outs['num'])
        plain = [x for x in fnum if isinstance(x, sympy.Basic)]
        ctx.judge('value', not plain, dict(sig, kind='numeric_call_returns_symbolic_entries', order=order),
                  lambda: '%s (%s) with Python ints %s (%s with the equal SymPy integers): result holds SymPy objects %s' % (tname, form, ks, order, core.short(plain, 200)))
        if not isinstance(outs['sym'], Exception):
            fsym, _t3 = flatten(outs['sym'])
            if len(fsym) == len(fnum):
                try:
                    nums = [evalf(x, {}) for x in fnum]
                    big = max([1.0] + [abs(x) for x in nums])
                    d = max([abs(evalf(a_, {}) - b_) for a_, b_ in zip(fsym, nums)] + [0.0]) / big
                except Exception:
                    d = None
                if d is not None:
                    ctx.judge('value', d <= TOL, dict(sig, kind='value_differs', order=order),
                              lambda: '%s (%s) SymPy integers %s and the equal Python ints (%s): results differ by %.3g' % (tname, form, ks, order, d))
    ctx.cell('inthistory', tname, form)


RUNNERS = {'tmpl': run_tmpl, 'inthistory': run_inthistory}


def REACH():
    b = B()
    import spatialmath.base.symbolic as bs
    return [bs.sin, bs.cos, bs.sqrt, bs.issymbol, b.getvector, b.getunit, b.r2t, b.transl, b.trinv, b.trinv2, b.skewa, b.tr2jac]


def structural_constants(rng, fn, kinds):
    """entries of the numeric result that are exactly 0 or 1 at three generic points"""
    outs = []
    for _ in range(3):
        vals = [float(rng.uniform(0.3, 1.2)) * (40 if k == 'angdeg' else (1e-7 if k == 'tiny' else 1)) for k in kinds]
        try:
            f, _t = flatten(fn(vals))
            outs.append([float(x) for x in f])
        except Exception:
            return None
    if len({len(o) for o in outs}) != 1:
        return None
    res = []
    for i in range(len(outs[0])):
        col = {o[i] for o in outs}
        res.append(int(outs[0][i]) if len(col) == 1 and outs[0][i] in (0.0, 1.0) else None)
    return res


def run(ctx):
    rng = ctx.rng
    T = TEMPLATES()
    covered = {t[0] for t in T if not t[0].startswith('op:')}
    supp = supported_by_reflection()
    known_unjudged = {'base.symbol', 'base.S', 'base.simplify', 'SO3.simplify', 'SE3.simplify', 'SO2.simplify', 'SE2.simplify'}
    missing = sorted(s for s in supp if s not in covered and s not in known_unjudged)
    ctx.extra['sympy_supported_entries'] = sorted(supp)
    ctx.extra['entries_without_template'] = missing
    if missing:
        ctx.harness_errors.append("':SymPy: supported' entries without a template: %s" % missing)
    reps = 4 if ctx.tier == 'quick' else 240
    i = 0
    # first in each process (nothing remembered yet from earlier calls): exact SymPy integers and the equal Python ints in turn
    for ti, (tname, form, kinds, fn) in enumerate(T):
        if any(k not in ('ang', 'len', 'gen', 'angdeg') for k in kinds) or 'nearly equal' in form:
            continue
        for _ in range(ctx.scale(1, 20)):
            i += 1
            if not ctx.mine(i):
                continue
            ks = [int(x) for x in rng.choice(np.arange(2, 4000), size=2 * len(kinds), replace=False)]
            drive(RUNNERS, ctx, 'inthistory', dict(t=ti, ks1=ks[:len(kinds)], ks2=ks[len(kinds):]))
    for ti, (tname, form, kinds, fn) in enumerate(T):
        consts = structural_constants(np.random.default_rng(ti), fn, kinds)
        if 'nearly equal' in form:
            consts = None         # (cos(1e-9) rounds to 1.0 for every sample: not a structural constant)
        n = len(kinds)
        masks = list(itertools.product([True, False], repeat=n)) if n <= 4 else \
            [tuple([True] * n)] + [tuple(bool(x) for x in rng.integers(0, 2, n)) for _ in range(6)]
        for mask in masks:
            for _ in range(reps):
                i += 1
                if not ctx.mine(i):
                    continue
                vals = [slot_value(rng, k) for k in kinds]
                drive(RUNNERS, ctx, 'tmpl', dict(t=ti, vals=vals, mask=list(mask), consts=consts))
        if all(k in ('ang', 'len', 'gen', 'angdeg') for k in kinds):
            # exact SymPy constants (multiples of pi/2 and pi/3, whole degrees, small rationals) in some or all slots, free symbols in the rest
            for _ in range(reps):
                i += 1
                if not ctx.mine(i):
                    continue
                exact, vals, mask = [], [], []
                for k in kinds:
                    if k == 'ang':
                        d_ = [int(rng.integers(-4, 5)), int([2, 2, 2, 1, 3][rng.integers(5)]), 1]
                    elif k == 'angdeg':
                        d_ = [int([0, 90, -90, 180, 270, 45, 30, -180][rng.integers(8)]), 1, 0]
                    elif k == 'gen':      # (a general number: never exactly zero, it is a divisor in the X / s templates)
                        d_ = [int([-5, -4, -3, -2, -1, 1, 2, 3, 4, 5][rng.integers(10)]), int([1, 1, 2, 3][rng.integers(4)]), 0]
                    else:
                        d_ = [int(rng.integers(-5, 6)), int([1, 1, 2, 3][rng.integers(4)]), 0]
                    exact.append(d_)
                    vals.append(float(d_[0]) / d_[1] * (math.pi if d_[2] else 1.0))
                    mask.append('c' if rng.random() < 0.75 else True)
                if 'c' not in mask:
                    mask[0] = 'c'
                drive(RUNNERS, ctx, 'tmpl', dict(t=ti, vals=vals, mask=mask, exact=exact, consts=consts))
        if ti % 11 == 0:
            ctx.sample(dict(template=tname, form=form, slots=kinds), limit=10)
    ctx.extra['templates'] = len(T)
