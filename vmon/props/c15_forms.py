"""C15 -- argument forms and units are interchangeable.

Differential monitor at the public boundary of every catalogued callable (vmon.catalogue,
guarded by reflection against spatialmath.base.__all__): the same call is made with the
vector argument as list / tuple / 1-D array / row / column (classes: list / tuple / 1-D), with
integer and float elements, with wrong lengths 0..8, in scalar-triple and packed form, with
unit='deg' vs 'rad', and with misspelt order / unit names; results are compared bit for bit
(units: 1e-12 relative), exceptions must agree.
"""
import math

import numpy as np

from .. import catalogue as cat
from .. import core, gen
from ..compare import same, close
from ..core import drive

PROP = 'C15'
SHARDS = {'quick': 4, 'thorough': 16}
PI = math.pi
RULE = ('every catalogued callable (all names of spatialmath.base.__all__ that take a vector / angle / unit / order argument + '
        'class constructors, named constructors and accessors) x each vector parameter x 5 container forms (3 for classes) x '
        'int/float elements x lengths 0..8 x both units x documented and misspelt order/unit names. distinct = (callable, '
        'parameter index, form / length / option); non-trivial = the vector is non-zero')
ASSUMPTIONS = ['2-D arrays with their own documented meaning are exempt (h2e, e2h, homtrans, pose * d x N, SpatialVector(6xN), '
               'SE3(Nx3), SO3.Exp(Nx3), UnitQuaternion(Nx4)); row/column forms are only required of base-package functions',
               'if every form raises the case is not judged here (another property owns that defect)']
MIN_EVALS = {'forms': {'quick': 4500, 'thorough': 55000}, 'length': {'quick': 7000, 'thorough': 90000},
             'units': {'quick': 250, 'thorough': 3000}, 'options': {'quick': 1300, 'thorough': 16000},
             'triple': {'quick': 30, 'thorough': 400}, 'scalars': {'quick': 600, 'thorough': 12000}, 'keywords': {'quick': 1200, 'thorough': 30000}}
ENTRIES = cat.BASE + cat.CLASSES
BAD_ORDERS = ['zxy', 'XYZ', '', 'yzx', 'zyz']
# the container forms again, as objects a caller may hold: frozen, non-contiguous and reversed-stride arrays, lists of NumPy scalars
OBJFORMS = ['array:readonly', 'array:strided', 'array:negstride', 'list:npscalars', 'row:readonly', 'col:strided', 'row:fortran', 'col:readonly']
BAD_UNITS = ['degrees', 'grad', '', 'Deg', 'radians']


def call(entry, args, kwargs, recv=None):
    f = cat.resolve(entry['target'])
    if entry['target'].startswith('m:'):
        return f(recv, *args, **kwargs)
    return f(*args, **kwargs)


def attempt(entry, args, kwargs, recv):
    try:
        return ('ok', call(entry, args, kwargs, recv))
    except Exception as e:
        return ('exc', e)


def build_args(rng, entry, lengths=None):
    """concrete argument values (vectors as float 1-D arrays); lengths: {pos: n} overrides"""
    lengths = lengths or {}
    args = []
    for i, spec in enumerate(entry['args']):
        args.append(cat.gen_value(rng, spec, lengths.get(i)) if spec[0] == 'V' else cat.gen_value(rng, spec))
    kwargs = {k: (cat.gen_value(rng, spec, lengths.get(k)) if spec[0] == 'V' else cat.gen_value(rng, spec)) for k, spec in entry['kwargs'].items()}
    recv = cat.gen_value(rng, entry['recv']) if entry['recv'] else None
    if 'same01' in entry['tags']:        # the second vector equals the first (a predicate on two vectors is trivially False otherwise)
        args[1] = np.array(args[0], copy=True)
    if 'neg01' in entry['tags']:
        args[1] = -np.asarray(args[0])
    if 's01' in entry['tags']:
        args = [np.sort(np.random.default_rng(int(rng.integers(1 << 30))).random(len(a))) if isinstance(a, np.ndarray) else a for a in args]
    return args, kwargs, recv


def vec_positions(entry):
    pos = [i for i, s in enumerate(entry['args']) if s[0] in ('V', 'VSMALL3', 'Q', 'UNIT3', 'VTINY6')]
    kpos = [k for k, s in entry['kwargs'].items() if s[0] == 'V']
    return pos, kpos


def is_base(entry):
    return entry['target'].startswith('base.')


def recv_of(p):
    """rebuild the receiver from its description"""
    import spatialmath as sm
    r = p.get('recv')
    if r is None:
        return None
    c, arrs = r
    C = getattr(sm, c)
    arrs = [np.asarray(a, dtype=np.float64) for a in arrs]
    if c == 'Plucker':
        return C(arrs[0][:3], arrs[0][3:])
    return C(arrs) if len(arrs) > 1 else C(arrs[0])


def recv_desc(x):
    if x is None:
        return None
    return [type(x).__name__, [np.array(v) for v in x.data]]


def entry_of(p):
    return ENTRIES[p['entry']]


def setpos(args, kwargs, pos, value):
    args, kwargs = list(args), dict(kwargs)
    if isinstance(pos, int):
        args[pos] = value
    else:
        kwargs[pos] = value
    return args, kwargs


def getpos(args, kwargs, pos):
    return args[pos] if isinstance(pos, int) else kwargs[pos]


# ----------------------------------------------------------------------------- runners
def run_forms(ctx, p):
    e = entry_of(p)
    args, kwargs, pos = p['args'], p['kwargs'], p['pos']
    recv = recv_of(p)
    v = np.asarray(getpos(args, kwargs, pos))
    ints = p.get('ints', False)
    if ints:
        v = np.round(v).astype(int)
        if not np.any(v):
            v[0] = 1
        ref_v = v.astype(np.float64)
    else:
        ref_v = np.array(v, dtype=np.float64)
    a0, k0 = setpos(args, kwargs, pos, np.array(ref_v))
    base_res = attempt(e, a0, k0, recv)
    forms = gen.FORMS if (is_base(e) and 'forms3' not in e['tags']) else ['list', 'tuple', 'array']
    if ref_v.ndim == 1 and 0 < ref_v.size <= 12:
        forms = list(forms) + ['ntuple']
    forms = list(forms) + [x for x in p.get('objforms', []) if (is_base(e) and 'forms3' not in e['tags']) or not x.startswith(('row', 'col'))]
    outcomes = {}
    for form in forms:
        given = gen.layout(gen.as_form(v, form.split(':')[0]), form.split(':')[1]) if ':' in form else gen.as_form(v, form)
        a1, k1 = setpos(args, kwargs, pos, given)
        outcomes[form] = attempt(e, a1, k1, recv_of(p))
        if form == 'array' and outcomes[form][0] == 'ok' and 'random' not in e['tags']:
            # the same array object handed in a second time must be answered identically (forms are interchangeable only if
            # the call leaves the caller's container as it found it)
            again = attempt(e, a1, k1, recv_of(p))
            ctx.judge('forms', again[0] == 'ok' and same(again[1], outcomes[form][1]), dict(api=e['name'], pos=str(pos), form=form, kind='second_call_with_same_array_differs'),
                      lambda: '%s: argument %s given as the same 1-D array twice: first %s, then %s' % (
                          e['name'], pos, core.short(getattr(outcomes[form][1], 'data', outcomes[form][1]), 200), core.short(getattr(again[1], 'data', again[1]), 200)))
    if base_res[0] == 'exc' and all(o[0] == 'exc' for o in outcomes.values()):
        ctx.ood('forms')
        ctx.cell('all_forms_raise', e['name'], type(base_res[1]).__name__)
        return
    for form, o in outcomes.items():
        sig = dict(api=e['name'], pos=str(pos), form=form, ints=bool(ints))
        if o[0] != base_res[0]:
            ctx.bad('forms', dict(sig, kind='one_form_raises' if o[0] == 'exc' else 'only_this_form_accepted',
                                  exc=type(o[1]).__name__ if o[0] == 'exc' else type(base_res[1]).__name__),
                    '%s: argument %s as %s%s -> %s, as 1-D float array -> %s' % (
                        e['name'], pos, form, ' (int elements)' if ints else '', core.short(o[1], 200), core.short(base_res[1], 200)))
            continue
        if o[0] == 'exc':
            ctx.ok('forms')
            continue
        ctx.judge('forms', same(o[1], base_res[1]), dict(sig, kind='result_differs'),
                  lambda: '%s: argument %s as %s%s gives %s, as 1-D float array gives %s' % (
                      e['name'], pos, form, ' (int elements)' if ints else '', core.short(o[1].data if isinstance(getattr(o[1], "data", None), list) else o[1], 300), core.short(getattr(base_res[1], 'data', base_res[1]), 300)))
        ctx.cell('forms', e['name'], str(pos), form, 'int' if ints else 'float')
        if np.any(ref_v != 0):
            ctx.nontrivial('forms', e['name'], str(pos), form, ints)


def run_length(ctx, p):
    """a vector of the wrong length must be rejected with an exception"""
    e = entry_of(p)
    args, kwargs, pos, n, form = p['args'], p['kwargs'], p['pos'], p['n'], p['form']
    v = np.arange(1, n + 1, dtype=np.float64) * 0.25 + 0.1
    if p.get('fill') == 'zeros':        # (all zero: the value for which a shortcut ahead of the length test would answer)
        v = np.zeros(n)
    elif p.get('fill') == 'unit':
        v = np.eye(n)[0]
    if p.get('zero_scalars'):       # the angle / scalar arguments at zero (the null rotation needs no axis -- the length is still wrong)
        args = [0.0 if isinstance(a, float) else a for a in args]
    a1, k1 = setpos(args, kwargs, pos, gen.as_form(v, form) if n > 0 else ([] if form == 'list' else (() if form == 'tuple' else np.zeros((0,)))))
    o = attempt(e, a1, k1, recv_of(p))
    sig = dict(api=e['name'], pos=str(pos), n=n, form=form)
    if p.get('fill'):
        sig['fill'] = p['fill']
    if p.get('zero_scalars'):
        sig['zero_scalars'] = True
    ctx.judge('length', o[0] == 'exc', dict(sig, kind='wrong_length_accepted', got='None' if (o[0] == 'ok' and o[1] is None) else 'value'),
              lambda: '%s: argument %s with %d elements (%s) was accepted and returned %s' % (e['name'], pos, n, form, core.short(o[1].data if isinstance(getattr(o[1], "data", None), list) else o[1], 300)))
    ctx.cell('length', e['name'], str(pos), n)
    ctx.nontrivial('length', e['name'], str(pos), n, form)


def run_length2(ctx, p):
    """two vector arguments of fixed lengths, BOTH wrong, with the right total (4+2 for 3+3 ...): rejected, not re-split"""
    e = entry_of(p)
    args, kwargs = list(p['args']), dict(p['kwargs'])
    (i1, n1), (i2, n2) = p['lens']
    form = p['form']
    mkv = lambda n, off: gen.as_form(np.arange(1, n + 1, dtype=np.float64) * 0.25 + off, form) if n > 0 else ([] if form == 'list' else np.zeros((0,)))
    args[i1], args[i2] = mkv(n1, 0.1), mkv(n2, 0.6)
    o = attempt(e, args, kwargs, recv_of(p))
    sig = dict(api=e['name'], pos='%d,%d' % (i1, i2), form=form)
    ctx.judge('length', o[0] == 'exc', dict(sig, kind='wrong_lengths_with_right_total_accepted'),
              lambda: '%s: vector arguments %d and %d given with %d and %d elements (%s) were accepted: %s' % (
                  e['name'], i1, i2, n1, n2, form, core.short(o[1].data if isinstance(getattr(o[1], "data", None), list) else o[1], 300)))
    ctx.cell('length2', e['name'], n1, n2)
    ctx.nontrivial('length2', e['name'], n1, n2, form)


def run_triple(ctx, p):
    e = entry_of(p)
    args, kwargs = p['args'], p['kwargs']
    v = np.asarray(args[0], dtype=np.float64)
    packed = attempt(e, [v.tolist()] + list(args[1:]), kwargs, None)
    scal = attempt(e, [float(x) for x in v] + list(args[1:]), kwargs, None)
    sig = dict(api=e['name'])
    if packed[0] != scal[0]:
        ctx.bad('triple', dict(sig, kind='call_forms_disagree'), '%s: packed -> %s, separate scalars -> %s' % (e['name'], core.short(packed[1], 200), core.short(scal[1], 200)))
        return
    if packed[0] == 'exc':
        ctx.ood('triple')
        return
    def kinds(r):
        d_ = getattr(r, 'data', None)
        arrs = d_ if isinstance(d_, list) else [r]
        return [np.asarray(x).dtype.kind for x in arrs if isinstance(x, np.ndarray)]
    # element type of the result is part of the result: an integer matrix truncates whatever is written into it later
    ints = [float(round(x)) for x in v]
    pk, sc_ = attempt(e, [[int(x) for x in ints]] + list(args[1:]), kwargs, None), attempt(e, [int(x) for x in ints] + list(args[1:]), kwargs, None)
    if pk[0] == 'ok' and sc_[0] == 'ok':
        ctx.judge('triple', kinds(pk[1]) == kinds(sc_[1]), dict(sig, kind='call_forms_differ_in_dtype'),
                  lambda: '%s with integer values: packed form gives dtype kinds %s, separate scalars give %s' % (e['name'], kinds(pk[1]), kinds(sc_[1])))
    ctx.judge('triple', same(packed[1], scal[1]), dict(sig, kind='call_forms_differ'),
              lambda: '%s(%s): packed vector gives %s, separate scalars give %s' % (e['name'], v, core.short(getattr(packed[1], 'data', packed[1]), 300), core.short(getattr(scal[1], 'data', scal[1]), 300)))
    # the same with some of the numbers exactly zero (x alone, y alone, ...: a test such as `if not (y or theta)` reads a zero as "not given")
    import itertools as _it
    for keep in _it.product((True, False), repeat=len(v)):
        if all(keep) or not any(keep):
            continue
        vz = np.where(np.array(keep), v, 0.0)
        pz = attempt(e, [vz.tolist()] + list(args[1:]), kwargs, None)
        sz = attempt(e, [float(x) for x in vz] + list(args[1:]), kwargs, None)
        if pz[0] != sz[0]:
            ctx.bad('triple', dict(sig, kind='call_forms_disagree', zeros=''.join('x' if k_ else '0' for k_ in keep)),
                    '%s(%s): packed -> %s, separate scalars -> %s' % (e['name'], vz, core.short(pz[1], 200), core.short(sz[1], 200)))
        elif pz[0] == 'ok':
            ctx.judge('triple', same(pz[1], sz[1]), dict(sig, kind='call_forms_differ', zeros=''.join('x' if k_ else '0' for k_ in keep)),
                      lambda: '%s(%s): packed vector gives %s, separate scalars give %s' % (e['name'], vz, core.short(getattr(pz[1], 'data', pz[1]), 300), core.short(getattr(sz[1], 'data', sz[1]), 300)))
    # one of the separate scalars as a single-precision NumPy number (a value read from a float32 array): the number is the same,
    # so is the result -- to double precision, whatever the element type the first argument arrived in
    v32 = np.array(v)
    v32[0] = float(np.float32(v[0]))
    pk32 = attempt(e, [v32.tolist()] + list(args[1:]), kwargs, None)
    sc32 = attempt(e, [np.float32(v32[0])] + [float(x) for x in v32[1:]] + list(args[1:]), kwargs, None)
    if pk32[0] == 'ok':
        ok32 = sc32[0] == 'ok' and close(sc32[1], pk32[1], rtol=1e-12, atol=1e-12 * max(1.0, float(np.max(np.abs(v32)))))
        ctx.judge('triple', ok32, dict(sig, kind='single_precision_scalar_degrades_result'),
                  lambda: '%s(np.float32(%r), %s): %s; with the same number as a Python float: %s' % (
                      e['name'], float(v32[0]), [float(x) for x in v32[1:]], core.short(getattr(sc32[1], 'data', sc32[1]), 300), core.short(getattr(pk32[1], 'data', pk32[1]), 300)))
    ctx.cell('triple', e['name'])
    ctx.nontrivial('triple', e['name'], [float('%.9g' % x) for x in v])
    # too few separate scalars: like a vector that is too short -- an exception, or a call form with its own documented meaning
    # (e.g. SE2(x, y)); never a result padded with NaN / None or an object holding nothing
    for k in range(1, len(v)):
        short = attempt(e, [float(x) for x in v[:k]] + list(args[1:]), kwargs, None)
        if short[0] == 'exc':
            ctx.ok('triple')
            continue
        r = short[1]
        d_ = getattr(r, 'data', None)
        if isinstance(d_, list):
            ok = len(d_) >= 1 and all(isinstance(x, np.ndarray) and np.all(np.isfinite(np.asarray(x, dtype=np.float64))) for x in d_)
        else:
            ok = r is not None and isinstance(r, np.ndarray) and np.all(np.isfinite(np.asarray(r, dtype=np.float64)))
        ctx.judge('triple', ok, dict(sig, kind='too_few_scalars_padded', given=k),
                  lambda: '%s given %d of %d separate scalars returned %s' % (e['name'], k, len(v), core.short(d_ if isinstance(d_, list) else r, 200)))


def unit_kw(e):
    for k, s in e['kwargs'].items():
        if s[0] == 'U':
            return k
    return None


def run_units(ctx, p):
    e = entry_of(p)
    args, kwargs = list(p['args']), dict(p['kwargs'])
    uk = unit_kw(e)
    tags = e['tags']
    sig = dict(api=e['name'])
    intag = [t for t in tags if t.startswith('unit_in')]
    outtag = [t for t in tags if t.startswith('unit_out')]
    if intag:
        t = intag[0]
        # position of the angle argument
        apos = next((i for i, s in enumerate(e['args']) if s[0] in ('A',)), 0)
        a_rad = np.asarray(args[apos], dtype=np.float64)
        a_deg = np.array(a_rad, dtype=np.float64) * 180 / PI
        if t == 'unit_in:vec2':       # (x, y, theta): only theta carries the unit
            a_deg = np.array(a_rad, dtype=np.float64)
            a_deg[2] = a_rad[2] * 180 / PI
        conv = (lambda x: x.tolist() if x.ndim else float(x))
        r = attempt(e, args[:apos] + [conv(a_rad)] + args[apos + 1:], dict(kwargs, **{uk: 'rad'}), recv_of(p))
        d = attempt(e, args[:apos] + [conv(a_deg)] + args[apos + 1:], dict(kwargs, **{uk: 'deg'}), recv_of(p))
        if r[0] != d[0]:
            ctx.bad('units', dict(sig, kind='one_unit_raises', which='deg' if d[0] == 'exc' else 'rad'),
                    '%s: rad -> %s, deg -> %s' % (e['name'], core.short(r[1], 200), core.short(d[1], 200)))
            return
        if r[0] == 'exc':
            ctx.ood('units')
            return
        amax = float(np.max(np.abs(a_rad))) if np.size(a_rad) else 0.0
        ctx.judge('units', close(d[1], r[1], rtol=1e-12, atol=1e-12 * max(1.0, amax)), dict(sig, kind='deg_input_differs'),
                  lambda: "%s: unit='deg' with %s gives %s, unit='rad' with %s gives %s" % (
                      e['name'], a_deg, core.short(d[1].data if isinstance(getattr(d[1], "data", None), list) else d[1], 300), a_rad, core.short(r[1].data if isinstance(getattr(r[1], "data", None), list) else r[1], 300)))
        if t == 'unit_in:vec' and e['args'][apos][0] == 'V' and e['args'][apos][1] is None and 0 < np.size(a_rad) < 64:
            # the same angles repeated up to 70 elements: a long vector takes the same conversion as a short one
            aL, dL = np.resize(a_rad, 70), np.resize(a_deg, 70)
            r2 = attempt(e, args[:apos] + [aL.tolist()] + args[apos + 1:], dict(kwargs, **{uk: 'rad'}), recv_of(p))
            d2 = attempt(e, args[:apos] + [dL.tolist()] + args[apos + 1:], dict(kwargs, **{uk: 'deg'}), recv_of(p))
            if r2[0] == 'ok' or d2[0] == 'ok':
                ctx.judge('units', r2[0] == d2[0] and close(d2[1], r2[1], rtol=1e-12, atol=1e-12 * max(1.0, amax)), dict(sig, kind='deg_input_differs', long_vector=True),
                          lambda: "%s: a vector of 70 angles in degrees and the same in radians give different results (%s / %s)" % (e['name'], d2[0], r2[0]))
    elif outtag:
        t = outtag[0]
        r = attempt(e, args, dict(kwargs, **{uk: 'rad'}), recv_of(p))
        d = attempt(e, args, dict(kwargs, **{uk: 'deg'}), recv_of(p))
        if r[0] != d[0]:
            ctx.bad('units', dict(sig, kind='one_unit_raises', which='deg' if d[0] == 'exc' else 'rad'),
                    '%s: rad -> %s, deg -> %s' % (e['name'], core.short(r[1], 200), core.short(d[1], 200)))
            return
        if r[0] == 'exc':
            ctx.ood('units')
            return
        k = 180 / PI
        if t == 'unit_out:all':
            want = scale(r[1], k)
        elif t == 'unit_out:angvec':
            want = (r[1][0] * k, r[1][1])
        else:       # unit_out:2  -> index 2 of a vector
            want = np.array(r[1], dtype=np.float64)
            want[2] *= k
        ctx.judge('units', close(d[1], want, rtol=1e-12, atol=1e-12), dict(sig, kind='deg_output_differs'),
                  lambda: "%s: unit='deg' gives %s, unit='rad' x 180/pi gives %s" % (e['name'], core.short(d[1], 300), core.short(want, 300)))
    ctx.cell('units', e['name'])
    ctx.nontrivial('units', e['name'], core.short(core.J(args), 200))


def scale(x, k):
    if isinstance(x, (list, tuple)):
        return type(x)(scale(v, k) for v in x) if not hasattr(x, '_fields') else type(x)(*[scale(v, k) for v in x])
    return np.asarray(x, dtype=np.float64) * k if isinstance(x, np.ndarray) else x * k


def run_options(ctx, p):
    """unknown order name / unknown unit for an input angle must be rejected"""
    e = entry_of(p)
    kw = dict(p['kwargs'])
    kw[p['key']] = p['value']
    args_ = list(p['args'])
    sig = dict(api=e['name'], key=p['which'])
    if p.get('zero'):        # the other arguments at their degenerate values (zero axis / zero angle): the option is still checked
        args_ = [np.zeros_like(np.asarray(a, dtype=np.float64)) if isinstance(a, (np.ndarray, list)) else (0.0 if isinstance(a, float) else a) for a in args_]
        sig['zero_vector'] = True
    o = attempt(e, args_, kw, recv_of(p))
    ctx.judge('options', o[0] == 'exc', dict(sig, kind='unknown_option_accepted', value=p['value']),
              lambda: '%s accepted %s=%r and returned %s' % (e['name'], p['key'], p['value'], core.short(getattr(o[1], 'data', o[1]), 200)))
    ctx.cell('options', e['name'], p['which'])
    ctx.nontrivial('options', e['name'], p['key'], p['value'])


def run_scalars(ctx, p):
    """integer and float element types, for the scalar (angle / distance) arguments: a whole number given as Python int,
    Python float, NumPy float64 or NumPy int64 is the same number"""
    e = entry_of(p)
    args, kwargs, pos = p['args'], p['kwargs'], p['pos']
    v = int(p['value'])
    given = {'float': float(v), 'int': v, 'np.float64': np.float64(v), 'np.int64': np.int64(v), 'np.float32': np.float32(v), 'np.float16': np.float16(v)}
    base_res = attempt(e, *setpos(args, kwargs, pos, float(v)), recv_of(p))
    if 'random' in e['tags']:
        return
    for form, g in given.items():
        if form == 'float':
            continue
        o = attempt(e, *setpos(args, kwargs, pos, g), recv_of(p))
        sig = dict(api=e['name'], pos=str(pos), form=form)
        if o[0] != base_res[0]:
            ctx.bad('scalars', dict(sig, kind='one_form_raises' if o[0] == 'exc' else 'only_this_form_accepted',
                                    exc=type(o[1]).__name__ if o[0] == 'exc' else type(base_res[1]).__name__),
                    '%s: scalar argument %s = %d as %s -> %s, as float -> %s' % (e['name'], pos, v, form, core.short(o[1], 200), core.short(base_res[1], 200)))
            continue
        if o[0] == 'exc':
            ctx.ood('scalars')
            continue
        ctx.judge('scalars', same(o[1], base_res[1]), dict(sig, kind='result_differs'),
                  lambda: '%s: scalar argument %s = %d as %s gives %s, as float gives %s' % (
                      e['name'], pos, v, form, core.short(o[1].data if isinstance(getattr(o[1], "data", None), list) else o[1], 300), core.short(getattr(base_res[1], 'data', base_res[1]), 300)))
        ctx.cell('scalars', e['name'], str(pos), form)
        ctx.nontrivial('scalars', e['name'], str(pos), form, v)


def run_keywords(ctx, p):
    """the same call with every argument spelt by keyword (parameter names from the signature) and with the options spelt
    positionally in signature order: the spelling does not change the answer"""
    import inspect
    e = entry_of(p)
    if 'random' in e['tags']:
        return
    f = cat.resolve(e['target'])
    recv = recv_of(p)
    args, kwargs = list(p['args']), dict(p['kwargs'])
    try:
        sigf = inspect.signature(f)
        params = list(sigf.parameters.values())
        if e['target'].startswith('m:'):
            params = params[1:]
        if any(q.kind in (q.VAR_POSITIONAL, q.VAR_KEYWORD, q.POSITIONAL_ONLY) for q in params):
            ctx.ood('keywords')
            return
        names = [q.name for q in params]
        if len(args) > len(names) or any(k not in names for k in kwargs):
            ctx.ood('keywords')
            return
    except (TypeError, ValueError):
        ctx.ood('keywords')
        return
    base_res = attempt(e, args, kwargs, recv)
    allkw = dict(zip(names, args), **kwargs)
    sig = dict(api=e['name'])
    spellings = {'all_keywords': ([], allkw)}
    # options positionally, as far as the signature order allows without skipping a parameter
    pos = list(args)
    kinds_ = {q.name: q.kind for q in params}
    for nm in names[len(args):]:
        if nm in kwargs and kinds_[nm] == inspect.Parameter.POSITIONAL_OR_KEYWORD:
            pos.append(kwargs[nm])
        else:
            break
    if len(pos) > len(args):
        spellings['options_positional'] = (pos, {k: v for k, v in kwargs.items() if k not in names[len(args):len(pos)]})
    for sp, (a_, k_) in spellings.items():
        o = attempt(e, a_, k_, recv_of(p))
        if o[0] != base_res[0]:
            ctx.bad('keywords', dict(sig, kind='one_spelling_raises', spelling=sp, exc=type(o[1] if o[0] == 'exc' else base_res[1]).__name__),
                    '%s: as catalogued -> %s; %s %s %s -> %s' % (e['name'], core.short(base_res[1], 150), sp, core.short(a_, 150), sorted(k_), core.short(o[1], 150)))
            continue
        if o[0] == 'exc':
            ctx.ood('keywords')
            continue
        ctx.judge('keywords', same(o[1], base_res[1]), dict(sig, kind='spelling_changes_result', spelling=sp),
                  lambda: '%s: %s gives %s, the catalogued spelling gives %s' % (e['name'], sp, core.short(getattr(o[1], 'data', o[1]), 200), core.short(getattr(base_res[1], 'data', base_res[1]), 200)))
        ctx.cell('keywords', e['name'], sp)
        ctx.nontrivial('keywords', e['name'], sp)


def flag_params(e):
    """parameters of the entry's target whose default is a bool (on / off options: check, norm, twist, shortest, samebody ...)"""
    import inspect
    try:
        sg = inspect.signature(cat.resolve(e['target']))
    except (TypeError, ValueError):
        return []
    return [n for n, q in sg.parameters.items() if isinstance(q.default, bool) and n not in e['kwargs'] and n not in ('self',)
            and q.kind in (q.POSITIONAL_OR_KEYWORD, q.KEYWORD_ONLY)]


def run_flags(ctx, p):
    """an on / off option is read for its truth value: True, 1 and numpy.True_ (what any NumPy comparison returns) switch it on alike,
    False, 0 and numpy.False_ switch it off alike"""
    e = entry_of(p)
    if 'random' in e['tags'] or 'plot' in e['tags']:
        return
    name = p['flag']
    for truth in (True, False):
        kw = dict(p['kwargs'])
        kw[name] = truth
        base_res = attempt(e, list(p['args']), kw, recv_of(p))
        for form, g in (('int', int(truth)), ('np.bool_', np.bool_(truth))):
            kw2 = dict(p['kwargs'])
            kw2[name] = g
            o = attempt(e, list(p['args']), kw2, recv_of(p))
            sig = dict(api=e['name'], flag=name, form=form, on=truth)
            if o[0] != base_res[0]:
                ctx.bad('options', dict(sig, kind='one_form_raises' if o[0] == 'exc' else 'only_this_form_accepted',
                                        exc=type(o[1]).__name__ if o[0] == 'exc' else type(base_res[1]).__name__),
                        '%s: option %s=%r -> %s, %s=%r -> %s' % (e['name'], name, g, core.short(o[1], 200), name, truth, core.short(base_res[1], 200)))
                continue
            if o[0] == 'exc':
                ctx.ood('options')
                continue
            ctx.judge('options', same(o[1], base_res[1]), dict(sig, kind='result_differs'),
                      lambda: '%s: option %s=%r gives %s, %s=%r gives %s' % (
                          e['name'], name, g, core.short(o[1].data if isinstance(getattr(o[1], 'data', None), list) else o[1], 300), name, truth,
                          core.short(getattr(base_res[1], 'data', base_res[1]), 300)))
            ctx.cell('flags', e['name'], name, form, truth)


RUNNERS = {'flags': run_flags, 'length2': run_length2, 'keywords': run_keywords, 'forms': run_forms, 'length': run_length, 'triple': run_triple, 'units': run_units, 'options': run_options, 'scalars': run_scalars}


def REACH():
    import spatialmath.base as b
    return [b.getvector, b.isvector, b.getunit, b.getmatrix, b.transl, b.transl2, b.rpy2r, b.eul2r]


# ----------------------------------------------------------------------------- workload
def run(ctx):
    rng = ctx.rng
    un = cat.reflection_guard()
    ctx.extra['uncatalogued_public_names'] = un
    if un:
        ctx.harness_errors.append('catalogue out of date: %s exported by spatialmath.base but not catalogued' % un)
    reps = 8 if ctx.tier == 'quick' else 300
    i = 0
    for ei, e in enumerate(ENTRIES):
        for fl in flag_params(e):
            i += 1
            if not ctx.mine(i):
                continue
            for _ in range(ctx.scale(2, 40)):
                args, kwargs, recv = build_args(rng, e)
                drive(RUNNERS, ctx, 'flags', dict(entry=ei, args=args, kwargs=kwargs, recv=recv_desc(recv), flag=fl))
    for ei, e in enumerate(ENTRIES):
        pos, kpos = vec_positions(e)
        for _ in range(reps):
            i += 1
            if not ctx.mine(i):
                continue
            args, kwargs, recv = build_args(rng, e)
            base = dict(entry=ei, args=args, kwargs=kwargs, recv=recv_desc(recv))
            for ps in pos + kpos:
                drive(RUNNERS, ctx, 'forms', dict(base, pos=ps, ints=False, objforms=[OBJFORMS[int(k_)] for k_ in rng.choice(len(OBJFORMS), 3, replace=False)]))
                if 's01' not in e['tags'] and e['args'] and (not isinstance(ps, int) or e['args'][ps][0] == 'V'):
                    drive(RUNNERS, ctx, 'forms', dict(base, pos=ps, ints=True))
                spec = e['args'][ps] if isinstance(ps, int) else e['kwargs'][ps]
                if spec[0] == 'V' and spec[1] is not None and 'nolength' not in e['tags']:
                    allowed = set(spec[1]) if isinstance(spec[1], tuple) else {spec[1]}
                    for n in range(0, 9):
                        if n in allowed:
                            continue
                        for form in ((['array'] if 'listseq' in e['tags'] else ['list', 'array']) if n > 0 else ['list']):
                            drive(RUNNERS, ctx, 'length', dict(base, pos=ps, n=n, form=form))
                            if n > 0 and (i + n) % 3 == 0:
                                drive(RUNNERS, ctx, 'length', dict(base, pos=ps, n=n, form=form, fill=['zeros', 'unit'][(i + n) % 2]))
                            if n > 0 and (i + n) % 3 == 1 and any(isinstance(a_, float) for a_ in args):
                                drive(RUNNERS, ctx, 'length', dict(base, pos=ps, n=n, form=form, zero_scalars=True))
            for ps in [i_ for i_, s_ in enumerate(e['args']) if s_[0] in ('A', 'S', 'SPOS')]:
                v_ = int(rng.integers(1, 7)) * (1 if e['args'][ps][0] == 'SPOS' else int(gen.sign(rng)))
                drive(RUNNERS, ctx, 'scalars', dict(base, pos=ps, value=v_))
            drive(RUNNERS, ctx, 'keywords', base)
            fixed = [(i_, s_[1]) for i_, s_ in enumerate(e['args']) if s_[0] == 'V' and isinstance(s_[1], int)]
            if len(fixed) >= 2 and 'nolength' not in e['tags']:
                (i1, L1), (i2, L2) = fixed[0], fixed[1]
                for k_ in (-2, -1, 1, 2):
                    if L1 + k_ >= 0 and L2 - k_ >= 0:
                        drive(RUNNERS, ctx, 'length2', dict(base, lens=[[i1, L1 + k_], [i2, L2 - k_]], form=['list', 'array', 'tuple'][rng.integers(3)]))
            if any(t.startswith('triple') for t in e['tags']):
                drive(RUNNERS, ctx, 'triple', base)
            if any(t.startswith('unit_') for t in e['tags']):
                drive(RUNNERS, ctx, 'units', base)
                if any(t.startswith('unit_in') for t in e['tags']):
                    uk = unit_kw(e)
                    for bu in BAD_UNITS:
                        drive(RUNNERS, ctx, 'options', dict(base, key=uk, value=bu, which='unit'))
                    if any(isinstance(a_, np.ndarray) for a_ in args):
                        drive(RUNNERS, ctx, 'options', dict(base, key=uk, value=BAD_UNITS[int(rng.integers(len(BAD_UNITS)))], which='unit', zero=True))
            if 'order' in e['tags']:
                for bo in BAD_ORDERS:
                    drive(RUNNERS, ctx, 'options', dict(base, key='order', value=bo, which='order'))
                # ... and with every angle exactly zero (the result would be the identity whatever the order: the name is still checked)
                drive(RUNNERS, ctx, 'options', dict(base, key='order', value=BAD_ORDERS[int(rng.integers(len(BAD_ORDERS)))], which='order', zero=True))
                for go in ['zyx', 'xyz', 'yxz', 'vehicle', 'arm', 'camera']:
                    # documented names must be accepted
                    o = attempt(e, args, dict(kwargs, order=go), recv)
                    ctx.judge('options', o[0] == 'ok', dict(api=e['name'], key='order', kind='documented_order_rejected', value=go),
                              lambda: '%s rejected order=%r: %r' % (e['name'], go, o[1]))
        if ei % 13 == 0:
            ctx.sample(dict(entry=e['name'], args=[list(s) for s in e['args']], kwargs={k: list(s) for k, s in e['kwargs'].items()}), limit=10)
    ctx.extra['catalogue_entries'] = len(ENTRIES)
