"""C01 -- closure: every constructed or composed value is a valid group member.

Monitors: post-conditions (rebound on every binding) on the base functions that return
rotations / rigid motions / unit quaternions -- they fire for direct calls *and* for the
internal calls the class methods make -- plus an object-validity oracle on every value the
class constructors and the operators * / inv ** prod interp return (every element of a
multi-valued object).  Tolerance 1e-9 (statement).  Out-of-domain calls are counted only.
"""
import math

import numpy as np

from .. import core, ctors, gen, ref, trees
from ..instrument import hook_function
from ..core import drive

PROP = 'C01'
TOL = 1e-9
SHARDS = {'quick': 4, 'thorough': 16}
RULE = ('cases: (i) sweep of every group-valued base function over the angle/axis/translation/unit/order pools, '
        '(ii) every public constructor of SO2/SE2/SO3/SE3/UnitQuaternion, (iii) random expression trees '
        '(depth<=4 quick, <=5 thorough) over * / inv ** prod interp with single- and multi-valued leaves built '
        'both by the library and by an independent reference; every node is judged. distinct = (api, options, '
        'result rounded to 6 digits); non-trivial = result differs from the identity by > 1e-6')
ASSUMPTIONS = ['operands of an operator are in-domain when each element is valid to 1e-10; otherwise the '
               'evaluation is counted out_of_domain', 'graphics entry points are never driven']
MIN_EVALS = {'base.post': {'quick': 3000, 'thorough': 50000}, 'class.ctor': {'quick': 1000, 'thorough': 10000},
             'class.op': {'quick': 2000, 'thorough': 30000}}

CLASSES = ['SO2', 'SE2', 'SO3', 'SE3', 'UnitQuaternion']
KIND_OF = {'SO2': 'R2', 'SE2': 'T2', 'SO3': 'R3', 'SE3': 'T3', 'UnitQuaternion': 'Q'}


# ----------------------------------------------------------------------------- validity
def residual(x, kind):
    x = np.asarray(x)
    if x.dtype == object:
        return None
    try:
        x = x.astype(np.float64)
    except Exception:
        return math.inf
    shape = {'R2': (2, 2), 'R3': (3, 3), 'T2': (3, 3), 'T3': (4, 4), 'Q': (4,)}[kind]
    if x.shape != shape:
        return math.inf
    if not np.all(np.isfinite(x)):
        return math.inf
    if kind in ('R2', 'R3'):
        return ref.rot_residual(x)
    if kind in ('T2', 'T3'):
        return ref.hom_residual(x)
    return abs(float(np.linalg.norm(x)) - 1.0)


def kind_by_shape(x, three):
    """kind of an array result; `three` says what a 3x3 means for this function."""
    s = np.shape(x)
    return {(2, 2): 'R2', (4, 4): 'T3', (3, 3): three, (4,): 'Q'}.get(s)


def fin(x):
    try:
        a = np.asarray(x, dtype=np.float64)
    except Exception:
        return False
    return bool(np.all(np.isfinite(a)))


def finall(args, kwargs):
    for a in list(args) + list(kwargs.values()):
        if isinstance(a, str) or a is None or isinstance(a, bool):
            continue
        if not fin(a):
            return False
    return True


def axis_ok(v):
    if not fin(v):
        return False
    v = np.asarray(v, dtype=np.float64).reshape(-1)
    return v.size == 3 and 1e-3 <= np.linalg.norm(v) <= 1e6


def valid_arr(x, kind, tol=1e-10):
    r = residual(x, kind)
    return r is not None and r <= tol


# ----------------------------------------------------------------------------- base hooks
def g_any(args, kw):
    return finall(args, kw)


def g_angvec(args, kw):
    v = args[1] if len(args) > 1 else kw.get('v')
    th = args[0] if args else kw.get('theta')
    return fin(th) and np.ndim(th) == 0 and axis_ok(v)


def g_oa(args, kw):
    o = args[0] if args else kw.get('o')
    a = args[1] if len(args) > 1 else kw.get('a')
    if not (axis_ok(o) and axis_ok(a)):
        return False
    o = np.asarray(o, float).reshape(-1)
    a = np.asarray(a, float).reshape(-1)
    return np.linalg.norm(np.cross(o, a)) / (np.linalg.norm(o) * np.linalg.norm(a)) >= 3e-13      # non-parallel, however nearly


def g_rodrigues(args, kw):
    w = args[0]
    th = args[1] if len(args) > 1 else kw.get('theta')
    if not fin(w):
        return False
    w = np.asarray(w, float).reshape(-1)
    if th is None:
        return True
    return fin(th) and (abs(np.linalg.norm(w) - 1) < 1e-10 or np.linalg.norm(w) == 0)


def _g_exp(dim):
    """guard for trexp (dim 3) / trexp2 (dim 2): exact algebra structure, unit twist when theta is given"""
    nso, nse = (3, 6) if dim == 3 else (1, 3)

    def g(args, kw):
        S = args[0]
        th = args[1] if len(args) > 1 else kw.get('theta')
        if not fin(S):
            return False
        S = np.asarray(S, float)
        if S.ndim == 2 and S.shape[0] == S.shape[1] and S.shape[0] > 1:
            n = S.shape[0]
            if n == dim:
                if np.any(S + S.T != 0):
                    return False
            elif n == dim + 1:
                if np.any(S[-1, :] != 0) or np.any(S[:-1, :-1] + S[:-1, :-1].T != 0):
                    return False
            else:
                return False
            return th is None
        v = S.reshape(-1)
        if v.size not in (nso, nse):
            return False
        if th is None:
            return True
        if not fin(th) or np.ndim(th) != 0:
            return False
        if v.size == nso:
            return abs(np.linalg.norm(v) - 1) < 1e-15
        w, vv = v[nse - nso:], v[:nse - nso]
        return abs(np.linalg.norm(w) - 1) < 1e-15 or (np.linalg.norm(w) == 0 and abs(np.linalg.norm(vv) - 1) < 1e-15)
    return g


def g_q2r(args, kw):
    q = args[0]
    return fin(q) and np.size(q) == 4 and abs(np.linalg.norm(np.asarray(q, float)) - 1) <= 1e-12


def g_r2q(args, kw):
    R = args[0]
    return isinstance(R, np.ndarray) and R.shape == (3, 3) and valid_arr(R, 'R3')


def g_unit(args, kw):
    q = args[0]
    return fin(q) and np.size(q) == 4 and 1e-6 <= np.linalg.norm(np.asarray(q, float)) <= 1e6


def g_slerp(args, kw):
    q0, q1 = args[0], args[1]
    s = args[2] if len(args) > 2 else kw.get('s')
    shortest = args[3] if len(args) > 3 else kw.get('shortest', False)
    if not (fin(q0) and fin(q1) and fin(s)) or np.size(q0) != 4 or np.size(q1) != 4:
        return False
    q0 = np.asarray(q0, float).reshape(-1)
    q1 = np.asarray(q1, float).reshape(-1)
    if abs(np.linalg.norm(q0) - 1) > 1e-10 or abs(np.linalg.norm(q1) - 1) > 1e-10:
        return False
    if not 0 <= s <= 1:
        return False
    d = float(np.dot(q0, q1))
    if shortest:
        d = abs(d)
    return d > -1 + 1e-6     # antipodal pairs excluded unless the shorter arc is requested


def _interp_guard(kindR, kindT):
    def g(args, kw):
        start, end = args[0], args[1]
        s = args[2] if len(args) > 2 else kw.get('s')
        if s is None or not fin(s) or np.ndim(s) != 0 or not 0 <= s <= 1:
            return False
        if not isinstance(end, np.ndarray):
            return False
        k = kindR if end.shape == ({'R2': (2, 2), 'R3': (3, 3)}[kindR]) else kindT
        if not valid_arr(end, k):
            return False
        if start is not None and not (isinstance(start, np.ndarray) and start.shape == end.shape and valid_arr(start, k)):
            return False
        if kindR == 'R3':
            # both ends half turns: quaternion pair may be antipodal (excluded by the statement)
            a1 = ref.rot_angle(end[:3, :3])
            a0 = ref.rot_angle(start[:3, :3]) if start is not None else 0
            if a1 > math.pi - 1e-6 and a0 > math.pi - 1e-6:
                return False
            R0 = start[:3, :3] if start is not None else np.eye(3)
            if ref.rot_angle(R0.T @ end[:3, :3]) > math.pi - 1e-6:
                return False
        return True
    return g


def g_trnorm(args, kw):
    T = args[0]
    if not (isinstance(T, np.ndarray) and fin(T) and T.shape in ((3, 3), (4, 4))):
        return False
    if T.shape == (4, 4) and np.max(np.abs(T[3, :] - np.array([0, 0, 0, 1]))) > 1e-2:
        return False         # (a nearly valid last row is part of "nearly valid": the result carries [0 0 0 1])
    return ref.dist_to_SO(T[:3, :3]) <= 1e-2


def _valid_in(kind):
    def g(args, kw):
        T = args[0]
        return isinstance(T, np.ndarray) and valid_arr(T, kind)
    return g


def g_r2t(args, kw):
    R = args[0]
    return isinstance(R, np.ndarray) and R.dtype != object and R.shape in ((2, 2), (3, 3)) and \
        valid_arr(R, 'R2' if R.shape == (2, 2) else 'R3')


def g_rt2tr(args, kw):
    return g_r2t(args, kw) and fin(args[1])


# name -> (module attr, meaning of a 3x3 result, guard)
BASE_HOOKS = {
    'rotx': ('R3', g_any), 'roty': ('R3', g_any), 'rotz': ('R3', g_any),
    'trotx': ('T3', g_any), 'troty': ('T3', g_any), 'trotz': ('T3', g_any),
    'rot2': ('R2', g_any), 'trot2': ('T2', g_any), 'xyt2tr': ('T2', g_any),
    'transl': ('T3', g_any), 'transl2': ('T2', g_any),
    'rpy2r': ('R3', g_any), 'rpy2tr': ('T3', g_any), 'eul2r': ('R3', g_any), 'eul2tr': ('T3', g_any),
    'angvec2r': ('R3', g_angvec), 'angvec2tr': ('T3', g_angvec), 'oa2r': ('R3', g_oa), 'oa2tr': ('T3', g_oa),
    'rodrigues': ('R3', g_rodrigues), 'trexp': ('R3', _g_exp(3)), 'trexp2': ('T2', _g_exp(2)),
    'q2r': ('R3', g_q2r), 'r2q': ('Q', g_r2q), 'unit': ('Q', g_unit), 'slerp': ('Q', g_slerp),
    'trinterp': ('R3', _interp_guard('R3', 'T3')), 'trinterp2': ('T2', _interp_guard('R2', 'T2')),
    'trnorm': ('R3', g_trnorm), 'trinv': ('T3', _valid_in('T3')), 'trinv2': ('T2', _valid_in('T2')),
    'r2t': ('T2', g_r2t), 'rt2tr': ('T2', g_rt2tr), 'rand': ('Q', lambda a, k: True),
}
VECTOR_RETURN_OK = {'transl', 'transl2'}   # transl(T) returns the translation vector: not judged

_ctx = None


def _opts(kw):
    return {k: v for k, v in kw.items() if isinstance(v, (str, bool))}


def _make_hook(name, three, guard):
    def on_return(args, kw, res, st):
        ctx = _ctx
        try:
            ind = bool(guard(args, kw))
        except Exception:
            ind = False
        if not ind:
            ctx.ood('base.post')
            return
        if name in VECTOR_RETURN_OK and np.ndim(res) == 1:
            ctx.ood('base.post')
            return
        if name == 'r2t' or name == 'rt2tr':
            kind = {(3, 3): 'T2', (4, 4): 'T3'}.get(np.shape(res))
        elif name in ('trinterp2',):
            kind = {(2, 2): 'R2', (3, 3): 'T2'}.get(np.shape(res))
        elif name == 'rodrigues':
            kind = {(2, 2): 'R2', (3, 3): 'R3'}.get(np.shape(res))
        else:
            kind = kind_by_shape(res, three)
        r = residual(res, kind) if kind else math.inf
        if r is None:
            ctx.ood('base.post')
            return
        sig = dict(api='base.' + name, opts=_opts(kw), kind='residual' if kind and np.isfinite(r) else 'not_a_member')
        if ctx.judge('base.post', r <= TOL, sig,
                     lambda: 'base.%s(%s, %s) -> residual %.3g (kind %s) result=%s' % (
                         name, core.short(args, 300), kw, r, kind, core.short(res, 300))):
            if r is not None and not _is_identity(res):
                ctx.nontrivial('base.' + name, sorted(_opts(kw).items()), np.round(np.asarray(res, float), 6).tolist())
            ctx.cell('base', name, *['%s=%s' % kv for kv in sorted(_opts(kw).items())])

    def on_raise(args, kw, exc, st):
        ctx = _ctx
        try:
            ind = bool(guard(args, kw))
        except Exception:
            ind = False
        if not ind or isinstance(exc, (KeyboardInterrupt, SystemExit)):
            ctx.ood('base.post')
            return
        ctx.bad('base.post', dict(api='base.' + name, opts=_opts(kw), kind='raised', exc=type(exc).__name__),
                'base.%s(%s, %s) raised %r for in-domain arguments' % (name, core.short(args, 300), kw, exc))
    return on_return, on_raise


def _is_identity(x):
    x = np.asarray(x, dtype=np.float64)
    if x.ndim == 2:
        return np.max(np.abs(x - np.eye(x.shape[0]))) <= 1e-6
    return min(np.max(np.abs(x - np.r_[1, 0, 0, 0])), np.max(np.abs(x + np.r_[1, 0, 0, 0]))) <= 1e-6


def setup(ctx):
    global _ctx
    _ctx = ctx
    import spatialmath.base as base
    mods = {}
    for name, (three, guard) in BASE_HOOKS.items():
        fn = getattr(base, name)
        mod = __import__(fn.__module__, fromlist=['x'])
        on_ret, on_raise = _make_hook(name, three, guard)
        n = hook_function(mod, name, on_ret, on_raise, mid='C01.' + name)
        mods[name] = n
    ctx.extra['bindings_rebound'] = mods


def REACH():
    import spatialmath.base as b
    return [b.angvec2r, b.oa2r, b.rodrigues, b.trexp, b.trexp2, b.q2r, b.r2q, b.unit, b.slerp, b.trinterp,
            b.trinterp2, b.trnorm, b.rpy2r, b.eul2r, b.trinv, b.trinv2]


# ----------------------------------------------------------------------------- object oracle
def check_object(ctx, monitor, obj, clsname, sig, what):
    """every element of obj.data must be a valid member"""
    kind = KIND_OF[clsname]
    C = ctors.cls(clsname)
    if type(obj) is not C:
        ctx.bad(monitor, dict(sig, kind='wrong_class', got=type(obj).__name__), '%s returned %s' % (what(), type(obj).__name__))
        return False
    worst, wi = 0.0, -1
    for i, x in enumerate(obj.data):
        r = residual(x, kind) if isinstance(x, np.ndarray) else math.inf
        if r is None:
            ctx.ood(monitor)
            return True
        if r > worst:
            worst, wi = r, i
    ok = ctx.judge(monitor, worst <= TOL, dict(sig, kind='residual' if np.isfinite(worst) else 'not_a_member'),
                   lambda: '%s -> element %d of %d has residual %.3g: %s' % (what(), wi, len(obj.data), worst,
                                                                            core.short(obj.data[wi], 300)))
    if ok and len(obj.data) and not all(_is_identity(x) for x in obj.data):
        ctx.nontrivial(sig.get('api'), sig.get('opts'), [np.round(np.asarray(x, float), 6).tolist() for x in obj.data])
    return ok


def operands_valid(objs, clsname):
    kind = KIND_OF[clsname]
    return all(isinstance(x, np.ndarray) and valid_arr(x, kind) for o in objs for x in o.data)


# ----------------------------------------------------------------------------- runners
def run_base(ctx, p):
    import spatialmath.base as base
    fn = getattr(base, p['name'])
    kw = dict(p['kwargs'])
    if '_seed' in kw:
        np.random.seed(kw.pop('_seed'))
    try:
        fn(*p['args'], **kw)
    except Exception:
        pass     # judged by the hook (in-domain raise = violation)


def run_ctor(ctx, p):
    clsname, name, args, kw = p['cls'], p['name'], p['args'], p['kwargs']
    sig = dict(api='%s.%s' % (clsname, name or '__init__'), opts=_opts(kw), form=_argform(args))
    try:
        obj = ctors.call(clsname, name, args, kw)
    except Exception as e:
        ctx.bad('class.ctor', dict(sig, kind='raised', exc=type(e).__name__),
                '%s.%s(%s, %s) raised %r' % (clsname, name, core.short(args, 300), kw, e))
        return
    check_object(ctx, 'class.ctor', obj, clsname, sig,
                 lambda: '%s.%s(%s, %s)' % (clsname, name, core.short(args, 300), kw))
    ctx.cell('ctor', clsname, name or '__init__', *['%s=%s' % kv for kv in sorted(_opts(kw).items())])


def _argform(args):
    out = []
    for a in args:
        if isinstance(a, np.ndarray):
            out.append('nd%s' % (a.shape,))
        elif isinstance(a, (list, tuple)):
            out.append('%s%d' % (type(a).__name__, len(a)))
        else:
            out.append('scalar')
    return ','.join(out)


def interp_in_domain(clsname, a):
    """statement (C11 wording): antipodal quaternion pairs are excluded when the shorter arc is not requested"""
    x = a.data[0]
    if clsname == 'UnitQuaternion':
        return x[0] > -1 + 1e-6
    if clsname in ('SO3', 'SE3'):
        return ref.rot_angle(x[:3, :3]) <= math.pi - 1e-6
    return True


def run_tree(ctx, p):
    clsname, tree = p['cls'], p['tree']

    def obs(op, operands, extra, result):
        exc = extra.get('exc')
        if op == 'ref':
            if exc is not None:
                raise exc
            return
        if op == 'ctor':
            sig = dict(api='%s.%s' % (clsname, extra['name'] or '__init__'), opts=_opts(extra['kwargs']),
                       form=_argform(extra['args']))
            what = lambda: '%s.%s(%s, %s)' % (clsname, extra['name'], core.short(extra['args'], 300), extra['kwargs'])
            if exc is not None:
                ctx.bad('class.ctor', dict(sig, kind='raised', exc=type(exc).__name__), '%s raised %r' % (what(), exc))
            else:
                check_object(ctx, 'class.ctor', result, clsname, sig, what)
            return
        if not operands_valid(operands, clsname) or (op == 'interp' and not interp_in_domain(clsname, operands[0])):
            ctx.ood('class.op')
            return
        lens = 'x'.join('1' if len(o) == 1 else 'M' for o in operands)
        sig = dict(api='%s.%s' % (clsname, op), lens=lens)
        what = lambda: '%s %s on operands %s extra %s' % (clsname, op, core.short([o.data for o in operands], 500),
                                                          {k: v for k, v in extra.items() if k != 'exc'})
        if exc is not None:
            ctx.bad('class.op', dict(sig, kind='raised', exc=type(exc).__name__, where=_where(exc)),
                    '%s raised %r' % (what(), exc))
            return
        check_object(ctx, 'class.op', result, clsname, sig, what)
        ctx.cell('op', clsname, op, lens)
    try:
        top = trees.evaluate(tree, obs)
    except trees.Abort:
        return
    # "quaternion-to-matrix" and back on the value the tree produced, single- or multi-valued: every element of the converted
    # object is a member of the class it was converted to, one per value
    if not operands_valid([top], clsname):
        return
    sm = ctors.cls
    conv = {'UnitQuaternion': [('UnitQuaternion.SO3()', 'SO3', lambda x: x.SO3()), ('UnitQuaternion.SE3()', 'SE3', lambda x: x.SE3())],
            'SO3': [('UnitQuaternion(SO3)', 'UnitQuaternion', lambda x: sm('UnitQuaternion')(x))],
            'SE3': [('UnitQuaternion(SE3)', 'UnitQuaternion', lambda x: sm('UnitQuaternion')(x))],
            'SO2': [('SO2.SE2()', 'SE2', lambda x: x.SE2())], 'SE2': [('SE2.SE3()', 'SE3', lambda x: x.SE3())]}.get(clsname, [])
    for name, target, f in conv:
        sig = dict(api=name, lens='1' if len(top) == 1 else 'M')
        what = lambda: '%s of a %s holding %d value(s) %s' % (name, clsname, len(top), core.short(top.data, 300))
        try:
            r = f(top)
        except ValueError as exc:
            # the converting constructor re-validates with its own (100 eps) test, which a value that has drifted through several
            # products may fail: a refusal, not a returned non-member.  A value that passes the library's own test is owed a result.
            try:
                fresh = all((abs(float(np.linalg.norm(x)) - 1) < 2e-15) if clsname == 'UnitQuaternion' else bool(type(top).isvalid(x, check=True)) for x in top.data)
            except Exception:
                fresh = False
            if fresh:
                ctx.bad('class.op', dict(sig, kind='conversion_refused', exc='ValueError', where=_where(exc)), '%s raised %r although every value passes the validity test of its class' % (what(), exc))
            else:
                ctx.ood('class.op')
            continue
        except Exception as exc:
            ctx.bad('class.op', dict(sig, kind='raised', exc=type(exc).__name__, where=_where(exc)), '%s raised %r' % (what(), exc))
            continue
        if check_object(ctx, 'class.op', r, target, sig, what):
            ctx.judge('class.op', len(r) == len(top), dict(sig, kind='wrong_number_of_values'), lambda: '%s gives %d value(s)' % (what(), len(r)))
        ctx.cell('op', clsname, name, sig['lens'])


def _where(e):
    import traceback
    tb = traceback.extract_tb(e.__traceback__)
    for fr in reversed(tb):
        if 'spatialmath' in fr.filename:
            return '%s:%s' % (fr.filename.split('spatialmath/')[-1], fr.name)
    return tb[-1].name if tb else '?'


def run_integrate(ctx, p):
    """an attitude integration: thousands of small rotations exp(w_k), each constructed by the library, composed one after the
    other (R = R * Exp(w dt), the inner loop of every strap-down integrator) or by prod(): the result is still a member.  Each single
    factor may be off by 1e-12 without any per-value monitor noticing; 20 000 of them with a defect of one sign are not"""
    import spatialmath as sm
    c, n, how = p['cls'], int(p['n']), p['how']
    w0 = np.asarray(p['w'], dtype=np.float64)
    C = getattr(sm, c)
    d3 = c in ('SO3', 'SE3')
    sig = dict(api='%s.%s' % (c, how), opts='integrate')

    def step(k):
        f_ = 1 + 0.1 * math.sin(0.37 * k)
        if c == 'SO3':
            return w0 * f_
        if c == 'SE3':
            return np.r_[np.asarray(p['v'], dtype=np.float64) * f_, w0 * f_]
        return float(w0[0]) * f_
    try:
        if how == 'prod':
            if c == 'SO3':
                X = C.Exp(np.array([step(k) for k in range(n)]), so3=False).prod()
            else:
                X = C.Exp([step(k) for k in range(n)]).prod()
        else:
            X = C()
            for k in range(n):
                E = C.Exp(step(k)) if c != 'SO2' else C(step(k))
                if how == 'imul':
                    X *= E
                else:
                    X = X * E
    except Exception as e:
        ctx.bad('class.op', dict(sig, kind='raised', exc=type(e).__name__), '%s integration of %d steps raised %r' % (c, n, e))
        return
    check_object(ctx, 'class.op', X, c, sig, lambda: '%s: %d rotations of %.3g rad composed by %s' % (c, n, float(np.linalg.norm(w0)), how))
    ctx.cell('integrate', c, how)


RUNNERS = {'base': run_base, 'ctor': run_ctor, 'tree': run_tree, 'integrate': run_integrate}


# ----------------------------------------------------------------------------- workload
def base_case(rng):
    """one call of a group-valued base function with in-domain arguments"""
    names = ['rotx', 'roty', 'rotz', 'trotx', 'troty', 'trotz', 'rot2', 'trot2', 'xyt2tr', 'transl', 'transl2',
             'rpy2r', 'rpy2tr', 'eul2r', 'eul2tr', 'angvec2r', 'angvec2tr', 'oa2r', 'oa2tr', 'rodrigues',
             'trexp', 'trexp2', 'q2r', 'r2q', 'unit', 'slerp', 'trinterp', 'trinterp2', 'trnorm', 'trinv',
             'trinv2', 'r2t', 'rt2tr', 'rand']
    name = names[rng.integers(len(names))]
    unit = ctors.UNITS[rng.integers(2)]
    A = lambda: ctors._ang(rng, unit)
    kw = {}
    if name in ('rotx', 'roty', 'rotz', 'rot2'):
        args = [A()]
        kw = {'unit': unit}
    elif name in ('trotx', 'troty', 'trotz'):
        args = [A()]
        kw = {'unit': unit}
        if rng.random() < 0.6:
            kw['t'] = gen.transl(rng).tolist()
    elif name == 'trot2':
        args = [A()]
        kw = {'unit': unit}
        if rng.random() < 0.6:
            kw['t'] = gen.transl(rng, 2).tolist()
    elif name == 'xyt2tr':
        args = [np.r_[gen.transl(rng, 2), A()].tolist()]
        kw = {'unit': unit}
    elif name == 'transl':
        t = gen.transl(rng)
        args = [t.tolist()] if rng.random() < 0.5 else [float(x) for x in t]
    elif name == 'transl2':
        t = gen.transl(rng, 2)
        args = [t.tolist()] if rng.random() < 0.5 else [float(x) for x in t]
    elif name in ('rpy2r', 'rpy2tr'):
        a = [A(), A(), A()]
        args = [a] if rng.random() < 0.5 else a
        kw = {'unit': unit, 'order': ctors.ORDERS[rng.integers(6)]}
    elif name in ('eul2r', 'eul2tr'):
        a = [A(), A(), A()]
        args = [a] if rng.random() < 0.5 else a
        kw = {'unit': unit}
    elif name in ('angvec2r', 'angvec2tr'):
        args = [A(), gen.axis(rng).tolist()]
        kw = {'unit': unit}
    elif name in ('oa2r', 'oa2tr'):
        o, a = ctors.nonparallel_pair(rng)
        args = [o.tolist(), a.tolist()]
    elif name == 'rodrigues':
        if rng.random() < 0.5:
            args = [(gen.unit_axis(rng) * abs(gen.angle(rng))).tolist()]
        elif rng.random() < 0.5:
            args = [gen.unit_axis(rng).tolist(), gen.angle(rng)]
        else:
            args = [[gen.angle(rng)]]
    elif name == 'trexp':
        w = gen.unit_axis(rng) * (gen.rot_angle(rng) if rng.random() < 0.6 else abs(gen.angle(rng)))
        k = rng.integers(6)
        if k == 0:
            args = [w.tolist()]
        elif k == 1:
            args = [ref.skew(w)]
        elif k == 2:
            args = [np.r_[gen.transl(rng), w].tolist()]
        elif k == 3:
            args = [ref.skewa(np.r_[gen.transl(rng), w])]
        elif k == 4:
            u = gen.unit_axis(rng)
            u = u / np.linalg.norm(u)
            args = [np.r_[gen.transl(rng), u].tolist(), gen.angle(rng)]
        else:
            args = [np.r_[gen.transl(rng), 0, 0, 0].tolist()]
    elif name == 'trexp2':
        k = rng.integers(4)
        th = gen.angle(rng)
        if k == 0:
            args = [[th]]
        elif k == 1:
            args = [ref.skew(np.array([th]))]
        elif k == 2:
            args = [np.r_[gen.transl(rng, 2), th].tolist()]
        else:
            args = [ref.skewa(np.r_[gen.transl(rng, 2), th])]
    elif name == 'q2r':
        args = [gen.unit_quat(rng).tolist()]
    elif name == 'r2q':
        args = [gen.so3(rng)] if rng.random() < 0.7 else [gen.exact_so3(rng, ['float32', 'float16', 'int8', 'int64'][rng.integers(4)])]
    elif name == 'unit':
        args = [(gen.unit_quat(rng) * gen.logu(rng, 1e-6, 1e6)).tolist()]
    elif name == 'slerp':
        q0, q1 = gen.unit_quat(rng), gen.unit_quat(rng)
        if rng.random() < 0.3:   # nearly identical endpoints
            a, th, _ = gen.rotation(rng)
            q1 = np.array(ref.qmul(q0, ref.q_from_axis_angle(a, gen.logu(rng, 1e-12, 1e-3))), dtype=float)
            q1 /= np.linalg.norm(q1)
        s = [0.0, 1.0, 1e-12, 1 - 1e-12, 0.5][rng.integers(5)] if rng.random() < 0.4 else float(rng.random())
        args = [q0.tolist(), q1.tolist(), s]
        kw = {'shortest': bool(rng.integers(2))}
    elif name == 'trinterp':
        se = rng.random() < 0.5
        mk = (lambda: gen.se3(rng)) if se else (lambda: gen.so3(rng))
        s = [0.0, 1.0, 1e-12, 1 - 1e-12, 0.5][rng.integers(5)] if rng.random() < 0.4 else float(rng.random())
        args = [mk() if rng.random() < 0.6 else None, mk(), s]
    elif name == 'trinterp2':
        se = rng.random() < 0.5
        mk = (lambda: gen.se2(rng)) if se else (lambda: gen.so2(rng))
        s = [0.0, 1.0, 1e-12, 1 - 1e-12, 0.5][rng.integers(5)] if rng.random() < 0.4 else float(rng.random())
        args = [mk() if rng.random() < 0.6 else None, mk(), s]
    elif name == 'trnorm':
        T = gen.se3(rng) if rng.random() < 0.5 else gen.so3(rng)
        T = T.copy()
        T[:3, :3] += rng.normal(size=(3, 3)) * gen.logu(rng, 1e-15, 1e-3)
        if T.shape == (4, 4) and rng.random() < 0.4:
            T[3, :] += rng.normal(size=4) * gen.logu(rng, 1e-15, 1e-3)       # noise on the last row as well: the result has [0 0 0 1]
        args = [T]
    elif name == 'trinv':
        args = [gen.se3(rng)]
    elif name == 'trinv2':
        args = [gen.se2(rng)]
    elif name == 'r2t':
        args = [gen.so3(rng) if rng.random() < 0.5 else gen.so2(rng)]
    elif name == 'rt2tr':
        args = [gen.so3(rng), gen.transl(rng).tolist()] if rng.random() < 0.5 else [gen.so2(rng), gen.transl(rng, 2).tolist()]
    else:
        args = []
        kw = {'_seed': int(rng.integers(2 ** 31))}
    return dict(name=name, args=args, kwargs=kw)


def run(ctx):
    mod = RUNNERS
    rng = ctx.rng
    for _ in range(ctx.scale(12000, 400000)):
        p = base_case(rng)
        drive(mod, ctx, 'base', p)
        if ctx.ncases % 997 == 1:
            ctx.sample(dict(kind='base', **p))
    for _ in range(ctx.scale(4000, 100000)):
        c = CLASSES[rng.integers(5)]
        nm, args, kw = ctors.ctor(rng, c, multi=rng.random() < 0.2)
        if '_layout' not in kw and nm not in ('OA', 'Vec3') and rng.random() < 0.12:      # (OA: rounding can make the pair parallel; Vec3: |v| <= 1)
            kw = dict(kw, _layout=['float32', 'float16', 'int'][rng.integers(3)])     # vectors (axes, angle triples) of a narrow element type
        drive(mod, ctx, 'ctor', dict(cls=c, name=nm, args=args, kwargs=kw))
    k_ = 0
    for c in ('SO3', 'SE3', 'SO2'):
        for how in ('mul', 'imul', 'prod'):
            for _ in range(ctx.scale(1, 4)):
                k_ += 1
                if not ctx.mine(k_):
                    continue
                mag_ = float(rng.uniform(5e-7, 1e-6)) if rng.random() < 0.7 else float(gen.logu(rng, 1e-9, 1e-4))
                w_ = gen.unit_axis(rng) * mag_ if c != 'SO2' else np.array([mag_])
                drive(mod, ctx, 'integrate', dict(cls=c, how=how, n=20000 if ctx.tier == 'quick' else 30000, w=w_, v=gen.unit_axis(rng) * float(gen.logu(rng, 1e-6, 1e-3))))
    depth = 4 if ctx.tier == 'quick' else 5
    for _ in range(ctx.scale(2400, 60000)):
        c = CLASSES[rng.integers(5)]
        t = trees.build(rng, c, int(rng.integers(1, depth + 1)))
        drive(mod, ctx, 'tree', dict(cls=c, tree=t))
        if ctx.ncases % 499 == 1:
            ctx.sample(dict(kind='tree', cls=c, tree=t), limit=8)
