"""C03 -- exponential and logarithm are correct and mutually inverse on the whole group.

Contracts (rebound on every binding) on trexp, trexp2, trlog, trlog2 judge *every* in-domain
call -- direct ones from the workload and the internal ones made by Exp / log / Twist
conversion and twist composition -- against the reference exponential (closed form in
longdouble; a sample of every run is cross-checked against mpmath at 50 digits).
The class wrappers are judged at their own boundary as well.
"""
import math

import itertools
import numpy as np

from .. import core, gen, ref
from ..core import drive
from ..instrument import hook_function

PROP = 'C03'
SHARDS = {'quick': 4, 'thorough': 16}
TOL = 1e-7
PI = math.pi
RULE = ('cases: algebra elements S=(v,w) with |w| log-uniform 1e-12..pi, pi-1e-12..pi, exactly 0 and pi, many turns (exp '
        'only); axes incl. coordinate and near-degenerate; |v| in {0} U log-uniform 1e-6..1e6; vector and matrix forms; '
        'twist=True/False; 2-D and 3-D; unit-twist + theta form; class wrappers Exp/log/Twist3/Twist2/exp/SE3/SE2. '
        'distinct = (api, form, S rounded to 9 significant digits); non-trivial = rotation part non-zero')
ASSUMPTIONS = ['reference exponential: closed form in numpy.longdouble with series below 1e-2 rad, validated against '
               'mpmath.expm at 50 digits (a sample of each run is re-checked; count in coverage.mp_crosschecks)',
               'log direction: T is the reference exponential rounded to float64, a group member to 1 ulp']
MIN_EVALS = {'exp.contract': {'quick': 3000, 'thorough': 50000}, 'log.contract': {'quick': 3000, 'thorough': 50000},
             'class': {'quick': 1500, 'thorough': 20000}, 'logexp': {'quick': 800, 'thorough': 10000}}

_ctx = None


def fin(x):
    try:
        return bool(np.all(np.isfinite(np.asarray(x, dtype=np.float64))))
    except Exception:
        return False


def tnorm(T):
    n = T.shape[0] - 1
    return float(np.linalg.norm(np.asarray(T, dtype=np.float64)[:n, n]))


def wband(th):
    return gen.angle_band(th) if th <= PI else 'manyturns'


def vband(v):
    return core.band(np.linalg.norm(v))


# ----------------------------------------------------------------------------- parse algebra argument
def parse_alg(S, dim):
    """-> (kind 'so'|'se', vector, form) or None if not exactly of algebra form"""
    nso, nse = (3, 6) if dim == 3 else (1, 3)
    S = np.asarray(S, dtype=np.float64)
    if S.ndim == 2 and S.shape[0] == S.shape[1] and S.shape[0] > 1:
        n = S.shape[0]
        if n == dim:
            if np.any(S + S.T != 0):
                return None
            return 'so', ref.vex(S), 'mat'
        if n == dim + 1:
            if np.any(S[-1, :] != 0) or np.any(S[:-1, :-1] + S[:-1, :-1].T != 0):
                return None
            return 'se', ref.vexa(S), 'mat'
        return None
    v = S.reshape(-1)
    if v.size == nso:
        return 'so', v, 'vec'
    if v.size == nse:
        return 'se', v, 'vec'
    return None


def ref_exp(kind, vec):
    return ref.exp_rot_ld(vec) if kind == 'so' else ref.exp_twist_ld(vec)


def check_exp_value(ctx, monitor, api, kind, vec, got, form, extra_sig=None):
    """got must be the exponential of the algebra element `vec`"""
    want = ref.f64(ref_exp(kind, vec))
    th = float(np.linalg.norm(vec if kind == 'so' else vec[len(vec) // 2 if len(vec) == 6 else 2:]))
    sc = max(1.0, tnorm(want)) if kind == 'se' else 1.0
    got = np.asarray(got)
    sig = dict(api=api, algebra=kind, form=form, **(extra_sig or {}))
    if got.shape != want.shape or got.dtype == object or not fin(got):
        ctx.bad(monitor, dict(sig, kind='not_finite_or_shape', wband=wband(th)),
                '%s(%s) returned %s' % (api, core.short(vec), core.short(got)))
        return
    d = float(np.max(np.abs(np.asarray(got, dtype=np.float64) - want)))
    ok = ctx.judge(monitor, d <= TOL * sc, dict(sig, kind='mismatch', wband=wband(th)),
                   lambda: '%s of %s algebra element %s (|w|=%.3g) differs from the reference exponential by %.3g '
                           '(allowed %.3g): got %s want %s' % (api, kind, core.short(vec), th, d, TOL * sc,
                                                                core.short(got, 300), core.short(want, 300)))
    ctx.cell('exp', api, kind, form, wband(th), vband(vec[:len(vec) - (3 if len(vec) == 6 else 1)]) if kind == 'se' else '-')
    if ok and th > 0:
        ctx.nontrivial(api, form, [float('%.9g' % x) for x in vec])
    if ok and ctx.extra.get('mp_budget', 0) > 0:     # 50-digit cross-check of the reference itself
        ctx.extra['mp_budget'] -= 1
        M = ref.skew(vec) if kind == 'so' else ref.skewa(vec)
        E = ref.expm_ref(M)
        dd = float(np.max(np.abs(E - want))) / sc
        ctx.extra['mp_crosschecks'] = ctx.extra.get('mp_crosschecks', 0) + 1
        ctx.extra['mp_worst'] = max(ctx.extra.get('mp_worst', 0.0), dd)
        if dd > 1e-12:
            ctx.harness_errors.append('reference exponentials disagree (closed form vs mpmath) by %g for %r' % (dd, vec))


# ----------------------------------------------------------------------------- contracts
def exp_hook(dim, name):
    def on_return(args, kw, res, st):
        ctx = _ctx
        S = args[0]
        th = args[1] if len(args) > 1 else kw.get('theta')
        try:
            pa = parse_alg(S, dim) if fin(S) and not isinstance(S, str) else None
        except Exception:
            pa = None
        if pa is None or (th is not None and (not fin(th) or np.ndim(th) != 0)):
            ctx.ood('exp.contract')
            return
        kind, vec, form = pa
        if th is not None:
            # exp(S, theta) = exp(theta S) for a unit twist
            w = vec if kind == 'so' else vec[len(vec) - (3 if dim == 3 else 1):]
            v = vec[:len(vec) - len(w)]
            unit = abs(np.linalg.norm(w) - 1) < 1e-15 or (kind == 'se' and np.linalg.norm(w) == 0 and abs(np.linalg.norm(v) - 1) < 1e-15)
            if not unit:
                ctx.ood('exp.contract')
                return
            vec = vec * float(th)
            form = 'unit+theta' if form == 'vec' else form + '+theta'
        check_exp_value(ctx, 'exp.contract', 'base.' + name, kind, vec, res, form)

    def on_raise(args, kw, exc, st):
        ctx = _ctx
        S = args[0] if args else None
        th = args[1] if len(args) > 1 else kw.get('theta')
        try:
            pa = parse_alg(S, dim) if fin(S) else None
        except Exception:
            pa = None
        if pa is not None and th is not None:
            # exp(S, theta): a unit twist (either rotation sense, or prismatic) with a finite scalar theta must be accepted
            kind, vec, form = pa
            w = vec if kind == 'so' else vec[len(vec) - (3 if dim == 3 else 1):]
            v = vec[:len(vec) - len(w)]
            unit = abs(np.linalg.norm(w) - 1) < 1e-15 or (kind == 'se' and np.linalg.norm(w) == 0 and abs(np.linalg.norm(v) - 1) < 1e-15)
            if unit and fin(th) and np.ndim(th) == 0:
                ctx.bad('exp.contract', dict(api='base.' + name, algebra=kind, form=form + '+theta', kind='raised', exc=type(exc).__name__),
                        'base.%s(%s, %r) raised %r for a unit twist' % (name, core.short(S), th, exc))
                return
        if pa is None or th is not None:
            ctx.ood('exp.contract')
            return
        ctx.bad('exp.contract', dict(api='base.' + name, algebra=pa[0], form=pa[2], kind='raised', exc=type(exc).__name__),
                'base.%s(%s) raised %r for a valid algebra element' % (name, core.short(S), exc))
    return on_return, on_raise


def group_kind(T, dim):
    """'so'/'se' if T is a member of SO(dim)/SE(dim) to 1e-10, else None"""
    if not isinstance(T, np.ndarray) or T.dtype == object or not fin(T):
        return None
    if T.shape == (dim, dim):
        return 'so' if ref.rot_residual(T) <= 1e-10 else None
    if T.shape == (dim + 1, dim + 1):
        return 'se' if ref.hom_residual(T) <= 1e-10 else None
    return None


def check_log_value(ctx, monitor, api, T, L, twist, dim):
    """L = log(T): finite, real, algebra form, |w| <= pi, exp(L) = T"""
    kind = 'so' if T.shape == (dim, dim) else 'se'
    th_T = ref.rot_angle(T[:dim, :dim])
    sig = dict(api=api, algebra=kind, twist=bool(twist), wband=gen.angle_band(th_T))
    L = np.asarray(L)
    what = lambda: '%s(T, twist=%s) for T=%s (rotation angle %.17g, |t|=%.3g)' % (
        api, twist, core.short(T, 400), th_T, tnorm(T) if kind == 'se' else 0)
    if L.dtype == object or np.iscomplexobj(L) or not fin(L):
        ctx.bad(monitor, dict(sig, kind='nonfinite_or_complex'), '%s returned %s' % (what(), core.short(L, 300)))
        return None
    L = L.astype(np.float64)
    nso, nse = (3, 6) if dim == 3 else (1, 3)
    if twist:
        want_shape = (nso,) if kind == 'so' else (nse,)
        if L.shape != want_shape:
            ctx.bad(monitor, dict(sig, kind='shape'), '%s returned shape %s' % (what(), L.shape))
            return None
        vec = L
    else:
        n = dim if kind == 'so' else dim + 1
        if L.shape != (n, n):
            ctx.bad(monitor, dict(sig, kind='shape'), '%s returned shape %s' % (what(), L.shape))
            return None
        blk = L[:dim, :dim]
        sc = max(1.0, float(np.max(np.abs(L))))
        if np.max(np.abs(blk + blk.T)) > 1e-12 * sc or (kind == 'se' and np.any(L[-1, :] != 0)):
            ctx.bad(monitor, dict(sig, kind='not_algebra_form'), '%s returned %s which is not of algebra form' % (what(), core.short(L, 300)))
            return None
        vec = ref.vex(L) if kind == 'so' else ref.vexa(L)
    w = vec if kind == 'so' else vec[nse - nso:]
    th = float(np.linalg.norm(w))
    if th > PI + 1e-9:
        ctx.bad(monitor, dict(sig, kind='angle_gt_pi'), '%s has rotation magnitude %.17g > pi' % (what(), th))
        return None
    E = ref.f64(ref_exp(kind, vec))
    sc = max(1.0, tnorm(T)) if kind == 'se' else 1.0
    d = float(np.max(np.abs(E - T)))
    ok = ctx.judge(monitor, d <= TOL * sc, dict(sig, kind='exp_log_mismatch'),
                   lambda: '%s: exp(L) differs from T by %.3g (allowed %.3g); L=%s' % (what(), d, TOL * sc, core.short(vec, 300)))
    ctx.cell('log', api, kind, 'twist' if twist else 'mat', gen.angle_band(th_T), core.band(tnorm(T)) if kind == 'se' else '-')
    if ok and th_T > 0:
        ctx.nontrivial(api, twist, [float('%.9g' % x) for x in np.asarray(T).reshape(-1)])
    return vec if ok else None


def log_hook(dim, name):
    def on_return(args, kw, res, st):
        ctx = _ctx
        T = args[0]
        gk = group_kind(T, dim)
        if gk is None:
            ctx.ood('log.contract')
            return
        twist = args[2] if len(args) > 2 else kw.get('twist', False)
        check_log_value(ctx, 'log.contract', 'base.' + name, T, res, twist, dim)

    def on_raise(args, kw, exc, st):
        ctx = _ctx
        T = args[0] if args else None
        gk = group_kind(T, dim)
        if gk is None:
            ctx.ood('log.contract')
            return
        ctx.bad('log.contract', dict(api='base.' + name, algebra=gk, kind='raised', exc=type(exc).__name__,
                                     wband=gen.angle_band(ref.rot_angle(T[:dim, :dim]))),
                'base.%s raised %r for the valid group element %s' % (name, exc, core.short(T, 400)))
    return on_return, on_raise


def setup(ctx):
    global _ctx
    _ctx = ctx
    import spatialmath.base.transforms3d as t3
    import spatialmath.base.transforms2d as t2
    n = {}
    for mod, name, dim, mk in ((t3, 'trexp', 3, exp_hook), (t2, 'trexp2', 2, exp_hook),
                               (t3, 'trlog', 3, log_hook), (t2, 'trlog2', 2, log_hook)):
        r, e = mk(dim, name)
        n[name] = hook_function(mod, name, r, e, mid='C03.' + name)
    ctx.extra['bindings_rebound'] = n
    ctx.extra['mp_budget'] = 150 if ctx.tier == 'quick' else 400


def REACH():
    import spatialmath.base as b
    import spatialmath as sm
    return [b.trexp, b.trexp2, b.trlog, b.trlog2, b.rodrigues, b.unittwist_norm, b.unittwist2_norm,
            sm.super_pose.SMPose.__dict__['log'], sm.SE3.__dict__['Twist3'], sm.SE2.__dict__['Twist2'],
            sm.Twist3.__dict__['exp'], sm.Twist2.__dict__['exp']]


REQUIRED_REACH = {
    'trlog': ['return np.zeros((6,))', 'return np.r_[t, 0, 0, 0]', 'Ginv = ', 'w = li / 2 * (theta / st)', 'M = (R + R.T) / 2'],
    'rodrigues': ['return np.eye(3)', 'return np.eye(2)'],
    'unittwist_norm': ['th = norm(v)', 'th = norm(w)'],
    'unittwist2_norm': ['th = norm(v)', 'th = abs(w)'],
    'trexp': ['return np.eye(4)', 'return base.rodrigues(w, theta)'],
}


# ----------------------------------------------------------------------------- runners
def run_exp(ctx, p):
    import spatialmath.base as base
    f = base.trexp if p['dim'] == 3 else base.trexp2
    S_ = p['S']
    if p.get('layout') and isinstance(S_, np.ndarray):
        S_ = gen.layout(S_, p['layout'])       # same values, another object: Fortran-ordered / frozen / strided / reversed strides
    try:
        if p.get('theta') is not None:
            th = p['theta']
            if p.get('thtype'):       # the same number as a NumPy scalar of another type / a Python int (values exactly representable there)
                th = {'np.float64': np.float64, 'np.float32': np.float32, 'np.float16': np.float16, 'int': int, 'np.int64': np.int64}[p['thtype']](th)
            f(S_, th)
        else:
            f(S_)
    except Exception:
        pass   # the contract has judged it


def run_log(ctx, p):
    """T = reference exp(S) rounded; log contracts judge trlog/trlog2; the runner adds log(exp(S)) = S"""
    import spatialmath.base as base
    dim, kind = p['dim'], p['kind']
    f = base.trlog if dim == 3 else base.trlog2
    if 'T' in p:
        # a matrix given as such (exactly representable rotations: quarter, third and half turns of the cube): the contracts hooked on
        # trlog / trlog2 judge exp(log(T)) = T; there is no S to compare with
        T = np.asarray(p['T'], dtype=np.float64)
        for twist in (True, False):
            try:
                f(T, twist=twist)
            except Exception:
                pass
        return
    S = np.asarray(p['S'], dtype=np.float64)
    T = ref.f64(ref_exp(kind, S))
    if p.get('layout'):
        T = gen.layout(T, p['layout'])
    nso, nse = (3, 6) if dim == 3 else (1, 3)
    w = S if kind == 'so' else S[nse - nso:]
    th = float(np.linalg.norm(w))
    for twist in (True, False):
        try:
            L = f(T, twist=twist)
        except Exception:
            continue
        if th <= PI - 1e-6:
            L = np.asarray(L)
            if L.dtype == object or np.iscomplexobj(L) or not fin(L):
                continue
            try:
                vec = L if twist else (ref.vex(L) if kind == 'so' else ref.vexa(L))
            except Exception:
                continue
            if np.shape(vec) != S.shape:
                continue
            sc = max(1.0, tnorm(T)) if kind == 'se' else 1.0
            d = float(np.max(np.abs(vec - S)))
            ctx.judge('logexp', d <= TOL * sc, dict(api='base.' + f.__name__, algebra=kind, twist=twist, kind='log_exp_mismatch',
                                                     wband=gen.angle_band(th)),
                      lambda: 'log(exp(S)) differs from S by %.3g (allowed %.3g): S=%s log=%s' % (d, TOL * sc, core.short(S), core.short(vec)))


def run_class(ctx, p):
    """class wrappers: Exp, log, pose<->twist conversion, Twist.exp / SE3 / SE2"""
    import spatialmath as sm
    dim, kind = p['dim'], p['kind']
    which = p['which']
    C = {(3, 'so'): sm.SO3, (3, 'se'): sm.SE3, (2, 'so'): sm.SO2, (2, 'se'): sm.SE2}[(dim, kind)]
    api = '%s.%s' % (C.__name__, which)
    nso, nse = (3, 6) if dim == 3 else (1, 3)
    if 'T' in p:           # (log / Twist of a matrix given as such)
        T = np.asarray(p['T'], dtype=np.float64)
        S = np.zeros(nso if kind == 'so' else nse)
        th = float(ref.rot_angle(T[:dim, :dim]))
    else:
        S = np.asarray(p['S'], dtype=np.float64)
        w = S if kind == 'so' else S[nse - nso:]
        th = float(np.linalg.norm(w))
        T = ref.f64(ref_exp(kind, S))
    sig = dict(api=api, algebra=kind)
    try:
        if which == 'Exp':
            arg = p.get('form', 'vec')
            a = S.tolist() if arg == 'list' else (S if arg == 'vec' else (ref.skew(S) if kind == 'so' else ref.skewa(S)))
            if p.get('layout') and arg != 'list':
                a = gen.layout(a, p['layout'])
            X = C.Exp(a)
            if type(X) is not C or len(X) != 1:
                ctx.bad('class', dict(sig, kind='wrong_type'), '%s(%s) returned %r' % (api, core.short(a), X))
                return
            check_exp_value(ctx, 'class', api, kind, S, X.A, arg)
        elif which == 'log':
            X = C(T)
            for twist in (True, False):
                check_log_value(ctx, 'class', api, T, X.log(twist=twist), twist, dim)
        elif which == 'Twist':        # pose -> twist -> pose
            X = C(T)
            tw = X.Twist3() if dim == 3 else X.Twist2()
            vec = check_log_value(ctx, 'class', api, T, tw.S, True, dim)
            back = tw.SE3() if dim == 3 else tw.SE2()
            if vec is not None:
                check_exp_value(ctx, 'class', 'Twist%d.SE%d' % (dim, dim), 'se', np.asarray(tw.S, dtype=np.float64), back.A, 'obj')
            tw2 = (sm.Twist3 if dim == 3 else sm.Twist2)(X)      # Twist(pose) constructor
            check_log_value(ctx, 'class', 'Twist%d.__init__(pose)' % dim, T, tw2.S, True, dim)
        elif which == 'twexp':        # Twist.exp(theta) = exp(theta S)
            TW = sm.Twist3 if dim == 3 else sm.Twist2
            tw = TW(S)
            k = p.get('theta')
            got = tw.exp() if k is None else tw.exp(k)
            check_exp_value(ctx, 'class', 'Twist%d.exp' % dim, 'se', S * (1.0 if k is None else k), got.A,
                            'theta' if k is not None else 'default')
    except Exception as e:
        ctx.bad('class', dict(sig, kind='raised', exc=type(e).__name__, wband=wband(th)),
                '%s raised %r for S=%s' % (api, e, core.short(S)))


def run_class_multi(ctx, p):
    """sequence forms of the class wrappers: Exp of several algebra elements, log / twist of a multi-valued pose"""
    import spatialmath as sm
    dim, kind = p['dim'], p['kind']
    Ss = [np.asarray(x, dtype=np.float64) for x in p['S']]
    C = {(3, 'so'): sm.SO3, (3, 'se'): sm.SE3, (2, 'so'): sm.SO2, (2, 'se'): sm.SE2}[(dim, kind)]
    api = C.__name__
    Ts = [ref.f64(ref_exp(kind, S)) for S in Ss]
    try:
        if p['which'] == 'Exp':
            if dim == 3 and kind == 'so':
                X = C.Exp(np.array(Ss), so3=False)
            elif dim == 3:
                X = C.Exp([S for S in Ss])
            else:
                X = C.Exp([S for S in Ss])
            if type(X) is not C or len(X) != len(Ss):
                ctx.bad('class', dict(api=api + '.Exp[seq]', kind='wrong_type_or_length'), '%s.Exp of %d elements returned %s[%d]' % (api, len(Ss), type(X).__name__, len(X)))
                return
            for S, T in zip(Ss, X.data):
                check_exp_value(ctx, 'class', api + '.Exp[seq]', kind, S, T, 'seq')
        else:
            X = C(Ts)
            for twist in (True, False):
                L = X.log(twist=twist)
                if not isinstance(L, list) or len(L) != len(Ts):
                    ctx.bad('class', dict(api=api + '.log[seq]', kind='wrong_type_or_length'), '%s.log of %d values returned %s' % (api, len(Ts), core.short(L, 100)))
                    return
                for T, l in zip(Ts, L):
                    check_log_value(ctx, 'class', api + '.log[seq]', T, l, twist, dim)
    except Exception as e:
        ctx.bad('class', dict(api=api + '.' + p['which'] + '[seq]', kind='raised', exc=type(e).__name__), '%s %s on a sequence raised %r' % (api, p['which'], e))


RUNNERS = {'exp': run_exp, 'log': run_log, 'class': run_class, 'class_multi': run_class_multi}


# ----------------------------------------------------------------------------- workload
def rot_mag(rng, many=False):
    r = rng.random()
    if many and r < 0.15:
        return abs(gen.angle(rng))
    if r < 0.3:
        return gen.logu(rng, 1e-12, PI)
    if r < 0.5:
        return PI - gen.logu(rng, 1e-12, 1e-3)
    if r < 0.56:
        return PI
    if r < 0.62:
        return 0.0
    if r < 0.7:
        return gen.logu(rng, 1e-12, 1e-6)
    if r < 0.75:       # below the quantifier's 1e-12: "every element", across the library's zero thresholds (10 and 100 eps)
        return gen.logu(rng, 1e-18, 1e-12)
    return float(rng.uniform(0, PI))


def algebra(rng, dim, kind, many=False):
    th = rot_mag(rng, many)
    if dim == 3:
        w = gen.unit_axis(rng) * th
    else:
        w = np.array([gen.sign(rng) * th])
    if kind == 'so':
        return w
    v = gen.transl(rng, dim, pzero=0.15)
    return np.r_[v, w]


def cube_rotations():
    """the 24 rotations of the cube as exact matrices (trace exactly 3, 1, 0 or -1: identity, quarter, third and half turns)"""
    out = []
    for perm in itertools.permutations(range(3)):
        for sg in itertools.product((1.0, -1.0), repeat=3):
            P = np.eye(3)[list(perm)] * np.array(sg)[:, None] + 0.0
            if abs(np.linalg.det(P) - 1) < 1e-9:
                out.append(P)
    return out


def run(ctx):
    rng = ctx.rng
    # exactly representable rotations, alone and with a translation, through every log entry point
    k = 0
    for rep_ in range(ctx.scale(1, 20)):
        for R in cube_rotations():
            for kind in ('so', 'se'):
                k += 1
                if not ctx.mine(k):
                    continue
                T = R if kind == 'so' else ref.f64(ref.rt2tr(R, gen.transl(rng, 3, hi=1e3) if rep_ or rng.random() < 0.5 else np.zeros(3)))
                drive(RUNNERS, ctx, 'log', dict(dim=3, kind=kind, T=T))
                drive(RUNNERS, ctx, 'class', dict(dim=3, kind=kind, T=T, which='log'))
                if kind == 'se':
                    drive(RUNNERS, ctx, 'class', dict(dim=3, kind=kind, T=T, which='Twist'))
        for c_, s_ in ((1.0, 0.0), (0.0, 1.0), (-1.0, 0.0), (0.0, -1.0)):
            for kind in ('so', 'se'):
                k += 1
                if not ctx.mine(k):
                    continue
                R = np.array([[c_, -s_], [s_, c_]]) + 0.0
                T = R if kind == 'so' else ref.f64(ref.rt2tr(R, gen.transl(rng, 2, hi=1e3)))
                drive(RUNNERS, ctx, 'log', dict(dim=2, kind=kind, T=T))
                drive(RUNNERS, ctx, 'class', dict(dim=2, kind=kind, T=T, which='log'))
                if kind == 'se':
                    drive(RUNNERS, ctx, 'class', dict(dim=2, kind=kind, T=T, which='Twist'))
    for _ in range(ctx.scale(9000, 300000)):
        dim = int(rng.integers(2, 4))
        kind = 'so' if rng.random() < 0.35 else 'se'
        S = algebra(rng, dim, kind, many=True)
        form = rng.integers(3)
        p = dict(dim=dim, S=S)
        if form == 1:
            p['S'] = ref.skew(S) if kind == 'so' else ref.skewa(S)
        elif form == 2:
            p['S'] = S.tolist()
        if rng.random() < 0.2:       # unit twist + theta
            nso = 3 if dim == 3 else 1
            if kind == 'so' or rng.random() < 0.8:
                w = gen.unit_axis(rng) if dim == 3 else np.array([gen.sign(rng)])
                w = w / np.linalg.norm(w)
                U = w if kind == 'so' else np.r_[gen.transl(rng, dim), w]
            else:
                u = gen.unit_axis(rng)[:dim]
                u = u / np.linalg.norm(u)
                U = np.r_[u, np.zeros(nso)]
            if abs(np.linalg.norm(U[len(U) - nso:]) - 1) < 1e-15 or np.linalg.norm(U[len(U) - nso:]) == 0:
                p = dict(dim=dim, S=U if rng.random() < 0.7 else (ref.skew(U) if kind == 'so' else ref.skewa(U)), theta=float(gen.angle(rng)))
                if rng.random() < 0.3:
                    tt = ['np.float64', 'np.float32', 'np.float16', 'int', 'np.int64'][rng.integers(5)]
                    p['theta'] = float(rng.integers(-3, 4)) if tt.endswith(('int', 'int64')) else float(rng.integers(-24, 25)) / 8
                    p['thtype'] = tt
        if rng.random() < 0.25:
            p['layout'] = gen.LAYOUTS[rng.integers(4)]
        drive(RUNNERS, ctx, 'exp', p)
        if ctx.ncases % 1999 == 1:
            ctx.sample(dict(case='exp', **p))
    for _ in range(ctx.scale(6000, 200000)):
        dim = int(rng.integers(2, 4))
        kind = 'so' if rng.random() < 0.3 else 'se'
        p = dict(dim=dim, kind=kind, S=algebra(rng, dim, kind))
        if rng.random() < 0.2:
            p['layout'] = gen.LAYOUTS[rng.integers(4)]
        drive(RUNNERS, ctx, 'log', p)
        if ctx.ncases % 1999 == 1:
            ctx.sample(dict(case='log', **p))
    for _ in range(ctx.scale(3000, 80000)):
        dim = int(rng.integers(2, 4))
        which = ['Exp', 'log', 'Twist', 'twexp'][rng.integers(4)]
        kind = 'se' if which in ('Twist', 'twexp') else ('so' if rng.random() < 0.4 else 'se')
        with_theta = which == 'twexp' and rng.random() < 0.6
        # many-turn rotation vectors only without an extra theta factor (the product would leave the stated range)
        p = dict(dim=dim, kind=kind, S=algebra(rng, dim, kind, many=which in ('Exp', 'twexp') and not with_theta), which=which)
        if which == 'Exp':
            p['form'] = ['vec', 'list', 'mat'][rng.integers(3)]
            if rng.random() < 0.3:
                p['layout'] = gen.LAYOUTS[rng.integers(4)]
        if with_theta:
            p['theta'] = float(gen.angle(rng))
        drive(RUNNERS, ctx, 'class', p)
        if rng.random() < 0.15:
            k2 = 'so' if rng.random() < 0.4 else 'se'
            n = int(rng.integers(2, 8))
            drive(RUNNERS, ctx, 'class_multi', dict(dim=dim, kind=k2, which=['Exp', 'log'][rng.integers(2)], S=[algebra(rng, dim, k2) for _ in range(n)]))
