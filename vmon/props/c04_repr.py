"""C04 -- all representations of the same motion agree; conversions are homomorphisms.

(a) multi-representation evaluator: one random expression tree (*, inv) over reference-built
    leaves is evaluated independently in every representation -- SO3, SE3, UnitQuaternion,
    Twist3, UnitDualQuaternion (rotation-only trees in all five, rigid trees in SE3 / Twist3 /
    UnitDualQuaternion) and SO2, SE2, Twist2 -- using the library's own conversions and
    operators; every node is mapped back to a matrix by *reference* formulas and compared with
    the longdouble evaluation of the same tree (=> convert(X*Y) = convert(X)*convert(Y),
    convert(X^-1) = convert(X)^-1, and round trips).
(b) the library's back-conversions (.SO3() .SE3() .R .exp() ...) are compared with the same matrix.
(c) shared named constructors give the same rotation in SO3 / SE3 / UnitQuaternion.
(d) double cover: UnitQuaternion(q) == UnitQuaternion(-q); embeddings preserve the action on points.
Agreement 1e-6 (relative to max(1,|t|)).
"""
import math

import numpy as np

from .. import core, ctors, gen, ref
from ..core import drive

PROP = 'C04'
SHARDS = {'quick': 4, 'thorough': 16}
TOL = 1e-6
RULE = ('trees over {*, inv} depth<=4 with reference-built leaves (rotation angle mixture incl. within 1e-9 of 0 and pi, '
        'translations <= 1e6) evaluated in each representation; shared constructors x options; double-cover and embedding '
        'cases. distinct = (case kind, representation set, leaf values rounded to 6 digits); non-trivial = some leaf has '
        'rotation angle > 1e-6 and (rigid trees) non-zero translation')
ASSUMPTIONS = ['the inverse of a unit dual quaternion is taken with conj() (the class has no inv())',
               'Twist composition is judged as the motion it generates']
MIN_EVALS = {'multirep': {'quick': 8000, 'thorough': 150000}, 'backconv': {'quick': 3000, 'thorough': 50000},
             'shared_ctor': {'quick': 1500, 'thorough': 30000}, 'doublecover': {'quick': 300, 'thorough': 5000},
             'embedding': {'quick': 500, 'thorough': 8000}}


# ----------------------------------------------------------------------------- representations
def sm():
    import spatialmath
    return spatialmath


def udq_to_matrix(d):
    qr = np.asarray(d.real.data[0], dtype=ref.LD)
    qd = np.asarray(d.dual.data[0], dtype=ref.LD)
    R = ref.q2r(qr)
    t = 2 * ref.qmul(qd, ref.qconj(qr))
    return ref.f64(ref.rt2tr(R, t[1:4]))


REPS = {
    # name: (from_matrix, mul, inv, to_matrix(reference), back-conversions [(label, fn -> matrix)])
    # (conversions applied to COMPUTED objects -- products, inverses, whose arrays may be views or Fortran-ordered -- not only to
    #  freshly constructed ones: convert(X*Y), convert(X.inv()))
    'SO3': (lambda T: sm().SO3(T[:3, :3]), None, lambda a: a.inv(), lambda a: a.data[0],
            [('UnitQuaternion(SO3 result)', lambda a: sm().UnitQuaternion(a).R),
             ('SE3.SO3(SO3 result)', lambda a: sm().SE3.SO3(a).R), ('SO3.Exp(SO3 result.log())', lambda a: sm().SO3.Exp(a.log(twist=True)).A),
             ('r2q(SO3 result.A)', lambda a: ref.f64(ref.q2r(__import__('spatialmath.base', fromlist=['x']).r2q(a.A)))),
             ('SO3(SO3 result.A.T).inv()', lambda a: sm().SO3(a.A.T).inv().A)]),
    'SE3': (lambda T: sm().SE3(T), None, lambda a: a.inv(), lambda a: a.data[0],
            [('SE3.R', lambda a: ref.rt2tr(a.R, a.t)), ('SE3.Ad_free', None),
             ('UnitQuaternion(SE3 result)', lambda a: ref.rt2tr(sm().UnitQuaternion(a).R, a.t)), ('SE3 result.Twist3().SE3()', lambda a: a.Twist3().SE3().A),
             ('UnitDualQuaternion(SE3 result).SE3()', lambda a: sm().UnitDualQuaternion(a).SE3().A),
             ('SE3.Exp(SE3 result.log())', lambda a: sm().SE3.Exp(a.log(twist=True)).A)]),
    'UQ': (lambda T: sm().UnitQuaternion(sm().SO3(T[:3, :3])), None, lambda a: a.inv(),
           lambda a: ref.f64(ref.q2r(a.data[0])),
           [('UnitQuaternion.R', lambda a: a.R), ('UnitQuaternion.SO3', lambda a: a.SO3().A),
            ('UnitQuaternion.SE3', lambda a: a.SE3().A[:3, :3]),
            ('UnitQuaternion(matrix)', lambda a: sm().UnitQuaternion(np.array(a.R)).R)]),
    'Twist3': (lambda T: sm().SE3(T).Twist3(), None, lambda a: a.inv(),
               lambda a: ref.f64(ref.exp_twist_ld(a.data[0])),
               [('Twist3.SE3', lambda a: a.SE3().A), ('Twist3.exp', lambda a: a.exp().A),
                ('Twist3(SE3)', lambda a: sm().Twist3(a.SE3()).SE3().A)]),
    'UDQ': (lambda T: sm().UnitDualQuaternion(sm().SE3(T)), None, lambda a: a.conj(), udq_to_matrix,
            [('UnitDualQuaternion.SE3', lambda a: a.SE3().A)]),
    'SO2': (lambda T: sm().SO2(T[:2, :2]), None, lambda a: a.inv(), lambda a: a.data[0],
            [('SO2 result.SE2()', lambda a: a.SE2().A[:2, :2]), ('SO2.Exp(SO2 result.log())', lambda a: sm().SO2.Exp(a.log(twist=True)).A)]),
    'SE2': (lambda T: sm().SE2(T), None, lambda a: a.inv(), lambda a: a.data[0],
            [('SE2 result.Twist2().SE2()', lambda a: a.Twist2().SE2().A), ('SE2.Exp(SE2 result.log())', lambda a: sm().SE2.Exp(a.log(twist=True)).A)]),
    'Twist2': (lambda T: sm().SE2(T).Twist2(), None, lambda a: a.inv(),
               lambda a: ref.f64(ref.exp_twist_ld(a.data[0])),
               [('Twist2.SE2', lambda a: a.SE2().A), ('Twist2.exp', lambda a: a.exp().A),
                ('Twist2(SE2)', lambda a: sm().Twist2(a.SE2()).SE2().A)]),
}
ROT3 = ['SO3', 'SE3', 'UQ', 'Twist3', 'UDQ']
RIG3 = ['SE3', 'Twist3', 'UDQ']
ROT2 = ['SO2', 'SE2', 'Twist2']
RIG2 = ['SE2', 'Twist2']


def ref_eval(tree, leaves):
    """longdouble evaluation; returns list of node values in post-order"""
    out = []

    def ev(n):
        if n[0] == 'leaf':
            v = np.asarray(leaves[n[1]], dtype=ref.LD)
        elif n[0] == 'mul':
            v = ev(n[1]) @ ev(n[2])
        elif n[0] == 'pow':
            a = ev(n[1])
            if n[2] < 0:
                k = a.shape[0] - 1
                ai = np.eye(k + 1, dtype=ref.LD)
                ai[:k, :k] = a[:k, :k].T
                ai[:k, k] = -(a[:k, :k].T @ a[:k, k])
                a = ai
            v = np.eye(a.shape[0], dtype=ref.LD)
            for _ in range(abs(n[2])):
                v = v @ a
        else:
            a = ev(n[1])
            k = a.shape[0] - 1
            v = np.eye(k + 1, dtype=ref.LD)
            v[:k, :k] = a[:k, :k].T
            v[:k, k] = -(a[:k, :k].T @ a[:k, k])
        out.append(v)
        return v
    ev(tree)
    return out


def rep_eval(tree, leaves, rep, on_node):
    frm, _, inv, tomat, back = REPS[rep]
    idx = [0]

    def ev(n):
        if n[0] == 'leaf':
            v = frm(np.array(leaves[n[1]], dtype=np.float64))
            op = 'convert'
        elif n[0] == 'mul':
            a = ev(n[1])
            b = ev(n[2])
            v = a * b
            op = 'mul'
        elif n[0] == 'pow':
            # an integer power: the ** operator where the representation has one, the repeated product otherwise
            a = ev(n[1])
            if rep in ('Twist3', 'Twist2', 'UDQ'):
                b_ = inv(a) if n[2] < 0 else a
                v = b_
                for _ in range(abs(n[2]) - 1):
                    v = v * b_
            else:
                v = a ** n[2]
            op = 'pow'
        else:
            v = inv(ev(n[1]))
            op = 'inv'
        on_node(idx[0], op, v)
        idx[0] += 1
        return v
    return ev(tree)


def build_tree(rng, nleaves, depth):
    if depth <= 0 or rng.random() < 0.2:
        return ['leaf', int(rng.integers(nleaves))]
    if rng.random() < 0.1:
        # (a power of a LEAF: a power of a power is a product of up to 64 factors, whose drift the library's own converting
        #  constructors refuse -- out of the stated domain, section 10.3)
        return ['pow', ['leaf', int(rng.integers(nleaves))], int([-5, -4, -3, -2, 2, 3, 4, 5, 6, 8][rng.integers(10)])]
    if rng.random() < 0.3:
        return ['inv', build_tree(rng, nleaves, depth - 1)]
    return ['mul', build_tree(rng, nleaves, depth - 1), build_tree(rng, nleaves, depth - 1)]


def sub_of(M, rep, dim):
    """matrix to compare for a representation: rotation block for rotation-only reps"""
    if rep in ('SO3', 'UQ'):
        return M[:3, :3]
    if rep == 'SO2':
        return M[:2, :2]
    return M


def run_multirep(ctx, p):
    dim, rigid, tree = p['dim'], p['rigid'], p['tree']
    leaves = [np.asarray(L, dtype=np.float64) for L in p['leaves']]
    reps = (RIG3 if rigid else ROT3) if dim == 3 else (RIG2 if rigid else ROT2)
    want = ref_eval(tree, leaves)
    sc = max([1.0] + [float(np.linalg.norm(np.array(w[:dim, dim], dtype=np.float64))) for w in want])
    nt = any(ref.rot_angle(L[:dim, :dim]) > 1e-6 and (not rigid or np.linalg.norm(L[:dim, dim]) > 0) for L in leaves)
    for rep in reps:
        frm, _, inv, tomat, back = REPS[rep]
        state = {}

        def on_node(i, op, v, rep=rep, tomat=tomat, back=back):
            W = ref.f64(want[i])
            exp_cls = {'SO3': 'SO3', 'SE3': 'SE3', 'UQ': 'UnitQuaternion', 'Twist3': 'Twist3', 'UDQ': 'UnitDualQuaternion',
                       'SO2': 'SO2', 'SE2': 'SE2', 'Twist2': 'Twist2'}[rep]
            sig = dict(rep=rep, op=op, rigid=rigid)
            # conj() of a unit dual quaternion is documented to return a DualQuaternion: class not judged for UDQ
            if type(v).__name__ != exp_cls and not (rep == 'UDQ' and type(v).__name__ == 'DualQuaternion'):
                ctx.bad('multirep', dict(sig, kind='wrong_class', got=type(v).__name__), '%s %s returned %s' % (rep, op, type(v).__name__))
                return
            M = np.asarray(tomat(v), dtype=np.float64)
            Ws = sub_of(W, rep, dim)
            Ms = sub_of(M, rep, dim) if M.shape == W.shape else M
            d = float(np.max(np.abs(Ms - Ws))) if Ms.shape == Ws.shape and np.all(np.isfinite(Ms)) else math.inf
            ctx.judge('multirep', d <= TOL * sc, dict(sig, kind='mismatch' if math.isfinite(d) else 'nonfinite'),
                      lambda: 'node %d (%s) evaluated in %s differs from the reference evaluation by %.3g (allowed %.3g): '
                              'got %s want %s' % (i, op, rep, d, TOL * sc, core.short(Ms, 300), core.short(Ws, 300)))
            ctx.cell('multirep', rep, op, 'rigid' if rigid else 'rot')
            for label, fn in back:
                if fn is None or (rep == 'UDQ' and not hasattr(v, 'SE3')):
                    continue
                try:
                    B = np.asarray(fn(v), dtype=np.float64)
                except Exception as e:
                    ctx.bad('backconv', dict(api=label, kind='raised', exc=type(e).__name__),
                            '%s raised %r on %s' % (label, e, core.short(getattr(v, 'data', v), 300)))
                    continue
                Bs = sub_of(B, rep, dim) if B.shape == W.shape else B
                d2 = float(np.max(np.abs(Bs - Ws))) if Bs.shape == Ws.shape and np.all(np.isfinite(Bs)) else math.inf
                ctx.judge('backconv', d2 <= TOL * sc, dict(api=label, kind='mismatch' if math.isfinite(d2) else 'nonfinite'),
                          lambda: '%s gives %s, the motion is %s (diff %.3g, allowed %.3g)' % (label, core.short(Bs, 300), core.short(Ws, 300), d2, TOL * sc))
        try:
            rep_eval(tree, leaves, rep, on_node)
        except Exception as e:
            ctx.bad('multirep', dict(rep=rep, rigid=rigid, kind='raised', exc=type(e).__name__, where=_where(e)),
                    'evaluating %s in %s raised %r; leaves=%s' % (tree, rep, e, core.short(leaves, 600)))
    if nt:
        ctx.nontrivial('multirep', dim, rigid, tree, [np.round(L, 6).tolist() for L in leaves])


def _where(e):
    import traceback
    tb = traceback.extract_tb(e.__traceback__)
    for fr in reversed(tb):
        if 'spatialmath' in fr.filename:
            return '%s:%s' % (fr.filename.split('spatialmath/')[-1], fr.name)
    return tb[-1].name if tb else '?'


# ----------------------------------------------------------------------------- shared constructors
def run_shared(ctx, p):
    name, args, kw = p['name'], p['args'], p['kwargs']
    S = sm()
    vals = {}
    for cname in ('SO3', 'SE3', 'UnitQuaternion'):
        C = getattr(S, cname)
        if not hasattr(C, name):
            continue
        a = list(args)
        if name == 'Exp' and cname == 'SE3':
            a = [np.r_[0, 0, 0, np.asarray(args[0], dtype=float)].tolist()]
        try:
            X = getattr(C, name)(*a, **kw)
            vals[cname] = np.asarray(X.R, dtype=np.float64)
            if cname == 'UnitQuaternion':
                vals[cname] = ref.f64(ref.q2r(X.data[0]))
        except Exception as e:
            ctx.bad('shared_ctor', dict(api='%s.%s' % (cname, name), opts={k: v for k, v in kw.items()}, kind='raised', exc=type(e).__name__),
                    '%s.%s(%s, %s) raised %r' % (cname, name, core.short(args), kw, e))
    names = sorted(vals)
    for i, a in enumerate(names):
        for b in names[i + 1:]:
            A, B = vals[a], vals[b]
            d = float(np.max(np.abs(A - B))) if A.shape == B.shape == (3, 3) and np.all(np.isfinite(A)) and np.all(np.isfinite(B)) else math.inf
            ctx.judge('shared_ctor', d <= TOL, dict(api=name, pair='%s/%s' % (a, b), opts={k: v for k, v in kw.items()}, kind='mismatch'),
                      lambda: '%s(%s, %s): %s and %s give rotations differing by %.3g: %s vs %s' % (
                          name, core.short(args), kw, a, b, d, core.short(A, 300), core.short(B, 300)))
    ctx.cell('shared', name, *['%s=%s' % kv for kv in sorted(kw.items())])
    if vals and ref.rot_angle(next(iter(vals.values()))) > 1e-6:
        ctx.nontrivial('shared', name, sorted(kw.items()), core.J(args))


def run_shared_multi(ctx, p):
    """the shared axis-rotation constructors given N angles (list / tuple / array, either unit): N values in every class, value i
    the rotation by angle i, the same in SO3, SE3, UnitQuaternion and Twist3"""
    S = sm()
    name, angles, unit, form = p['name'], [float(a) for a in p['angles']], p['unit'], p['form']
    n = len(angles)
    k = 180 / math.pi if unit == 'deg' else 1.0
    given = gen.as_form(np.array(angles) * k, form)
    axis = {'Rx': [1, 0, 0], 'Ry': [0, 1, 0], 'Rz': [0, 0, 1]}[name]
    want = [ref.f64(ref.rot_ld(axis, a)) for a in angles]
    for cname in ('SO3', 'SE3', 'UnitQuaternion', 'Twist3'):
        C = getattr(S, cname)
        sig = dict(api='%s.%s' % (cname, name), unit=unit, form=form, kind='sequence_form')
        try:
            X = getattr(C, name)(given, unit) if cname != 'Twist3' else getattr(C, name)(given, unit=unit)
            if cname == 'UnitQuaternion':
                got = [ref.f64(ref.q2r(q)) for q in X.data]
            elif cname == 'Twist3':
                got = [ref.f64(ref.exp_twist_ld(np.asarray(s_, dtype=np.float64)))[:3, :3] for s_ in X.data]
            else:
                got = [np.asarray(M, dtype=np.float64)[:3, :3] for M in X.data]
        except Exception as e:
            ctx.bad('shared_ctor', dict(sig, kind='raised', exc=type(e).__name__), '%s.%s(%d angles as %s, %s) raised %r' % (cname, name, n, form, unit, e))
            continue
        ok = type(X) is C and len(got) == n
        d = max(float(np.max(np.abs(g - w))) for g, w in zip(got, want)) if ok else math.inf
        ctx.judge('shared_ctor', d <= TOL, dict(sig, n=n if n in (3, 4) else 'other'),
                  lambda: '%s.%s(%s as %s, %s): %d value(s), worst difference from the rotations by the given angles %.3g' % (cname, name, angles, form, unit, len(got), d))
    ctx.cell('shared_multi', name, unit, form, n)
    ctx.nontrivial('shared_multi', name, unit, form, [float('%.9g' % a) for a in angles])


# ----------------------------------------------------------------------------- double cover and embeddings
def run_doublecover(ctx, p):
    S = sm()
    q = np.asarray(p['q'], dtype=np.float64)
    try:
        a, b = S.UnitQuaternion(q), S.UnitQuaternion(-q)
        r1, r2 = a == b, a != b
        ctx.judge('doublecover', r1 is True or r1 == True, dict(api='UnitQuaternion.__eq__', kind='q_vs_minus_q'),  # noqa: E712
                  'UnitQuaternion(q) == UnitQuaternion(-q) is %r for q=%s' % (r1, q))
        ctx.judge('doublecover', r2 is False or r2 == False, dict(api='UnitQuaternion.__ne__', kind='q_vs_minus_q'),  # noqa: E712
                  'UnitQuaternion(q) != UnitQuaternion(-q) is %r for q=%s' % (r2, q))
        import spatialmath.base as base
        ctx.judge('doublecover', bool(base.isequal(q, -q, unitq=True)), dict(api='base.isequal', kind='q_vs_minus_q'),
                  'isequal(q, -q, unitq=True) false for q=%s' % q)
        d = float(np.max(np.abs(a.R - b.R)))
        ctx.judge('doublecover', d <= TOL, dict(api='UnitQuaternion.R', kind='q_vs_minus_q'), 'R(q) and R(-q) differ by %g' % d)
        # a genuinely different rotation must not compare equal
        o = np.asarray(p['other'], dtype=np.float64)
        if ref.q_same_rotation(q, o) > 1e-3:
            c = S.UnitQuaternion(o)
            ctx.judge('doublecover', not (a == c), dict(api='UnitQuaternion.__eq__', kind='different_rotations_equal'),
                      'UnitQuaternion(%s) == UnitQuaternion(%s)' % (q, o))
    except Exception as e:
        ctx.bad('doublecover', dict(api='UnitQuaternion', kind='raised', exc=type(e).__name__), 'double cover case raised %r for q=%s' % (e, q))
    ctx.nontrivial('doublecover', np.round(q, 6).tolist())


def run_embed(ctx, p):
    """SO2->SE2, SO3->SE3, SE2->SE3 are homomorphisms preserving the action on points"""
    S = sm()
    which = p['which']
    A, B = np.asarray(p['A'], dtype=np.float64), np.asarray(p['B'], dtype=np.float64)
    pt = np.asarray(p['pt'], dtype=np.float64)
    try:
        if which == 'SO2.SE2':
            X, Y = S.SO2(A), S.SO2(B)
            emb = lambda x: x.SE2()
        elif which == 'SE3.SO3':
            X, Y = S.SO3(A), S.SO3(B)
            emb = lambda x: S.SE3.SO3(x)
        else:
            X, Y = S.SE2(A), S.SE2(B)
            emb = lambda x: x.SE3()
        eX, eY, eXY, eXi = emb(X), emb(Y), emb(X * Y), emb(X.inv())
        sc = max(1.0, float(np.max(np.abs(pt))), float(np.linalg.norm(A[:, -1])) if which == 'SE2.SE3' else 1.0,
                 float(np.linalg.norm(B[:, -1])) if which == 'SE2.SE3' else 1.0)
        sig = dict(api=which)
        d1 = float(np.max(np.abs((eX * eY).A - eXY.A)))
        ctx.judge('embedding', d1 <= TOL * sc * sc, dict(sig, kind='not_homomorphism_mul'), 'emb(X)*emb(Y) != emb(X*Y) by %g for %s' % (d1, which))
        d2 = float(np.max(np.abs(eX.inv().A - eXi.A)))
        ctx.judge('embedding', d2 <= TOL * sc, dict(sig, kind='not_homomorphism_inv'), 'emb(X).inv() != emb(X.inv()) by %g' % d2)
        # action on points
        n = 2 if which != 'SE3.SO3' else 3
        lo = np.asarray(X * pt[:n]).reshape(-1)
        if which == 'SE2.SE3':
            hi = np.asarray(eX * np.r_[pt[:2], 0.0]).reshape(-1)
            d3 = float(np.max(np.abs(hi - np.r_[lo, 0.0])))
        else:
            hi = np.asarray(eX * pt[:n]).reshape(-1)
            d3 = float(np.max(np.abs(hi - lo)))
        ctx.judge('embedding', d3 <= TOL * sc, dict(sig, kind='action_changed'),
                  '%s changes the action on the point %s: %s vs %s' % (which, pt, hi, lo))
        # multi-valued objects: when the embedding returns a value it must be element-wise
        Ms = [np.asarray(m, dtype=np.float64) for m in p.get('multi', [])]
        if len(Ms) > 1:
            XM = type(X)(Ms)
            try:
                EM = emb(XM)
            except Exception:
                ctx.cell('embed_multi_unsupported', which)
                EM = None
            if EM is not None:
                singles = [emb(type(X)(m)).A for m in Ms]
                okl = len(EM) == len(Ms)
                dm = max(float(np.max(np.abs(np.asarray(e) - s1))) for e, s1 in zip(EM.data, singles)) if okl else math.inf
                ctx.judge('embedding', okl and dm <= TOL * sc, dict(sig, kind='multi_not_elementwise'),
                          '%s of a %d-valued object: length %d, worst element difference %g from the single-valued embedding' % (
                              which, len(Ms), len(EM), dm))
                ctx.cell('embed_multi', which, len(Ms))
    except Exception as e:
        ctx.bad('embedding', dict(api=which, kind='raised', exc=type(e).__name__, where=_where(e)), '%s case raised %r' % (which, e))
    ctx.cell('embed', which)
    ctx.nontrivial('embed', which, np.round(A, 6).tolist(), np.round(B, 6).tolist())


def run_halfturn_eq(ctx, p):
    """the same rotation reached by different routes compares equal, in particular a half turn (scalar part at rounding level
    of either sign): +theta / -theta about the same axis for theta = pi, the matrix route, degrees, and products"""
    S = sm()
    ax = np.asarray(p['axis'], dtype=np.float64)
    which = p['which']
    sig = dict(api='UnitQuaternion.__eq__', kind='same_rotation_unequal', route=which)
    try:
        PI = math.pi
        if which == 'axis':
            k = p['k']
            f = [S.UnitQuaternion.Rx, S.UnitQuaternion.Ry, S.UnitQuaternion.Rz][k]
            g = [S.SO3.Rx, S.SO3.Ry, S.SO3.Rz][k]
            qs = [f(PI), f(-PI), f(180, 'deg'), f(-180, 'deg'), S.UnitQuaternion(g(PI)), S.UnitQuaternion(g(-PI)), f(PI / 2) * f(PI / 2), f(3 * PI), f(0.5) * f(PI - 0.5)]
        else:
            A = S.UnitQuaternion.AngVec
            qs = [A(PI, ax), A(-PI, ax), A(PI, -ax), A(180, ax, unit='deg'), S.UnitQuaternion(S.SO3.AngVec(PI, ax)), S.UnitQuaternion(S.SO3.AngVec(-PI, ax)),
                  A(PI / 2, ax) * A(PI / 2, ax), A(3 * PI, ax)]
        multi = S.UnitQuaternion([q.A for q in qs])
        for i, a in enumerate(qs):
            for j, b in enumerate(qs):
                same_rot = float(np.max(np.abs(np.asarray(a.R) - np.asarray(b.R)))) <= 1e-12
                if not same_rot:
                    continue
                r1, r2 = a == b, a != b
                ctx.judge('doublecover', bool(r1) is True and bool(r2) is False, sig,
                          lambda: 'two quaternions of the same half turn compare unequal: %s (route %d) vs %s (route %d): == %r, != %r' % (a.A, i, b.A, j, r1, r2))
            rm = multi == a
            ok = isinstance(rm, list) and len(rm) == len(qs) and all(bool(x) for x in rm)
            ctx.judge('doublecover', ok, dict(sig, seq=True), lambda: 'sequence == single for the same half turn gives %r' % (rm,))
    except Exception as e:
        ctx.bad('doublecover', dict(api='UnitQuaternion', kind='raised', exc=type(e).__name__), 'half-turn equality case raised %r' % (e,))
    ctx.cell('halfturn_eq', which)
    ctx.nontrivial('halfturn_eq', which, np.round(ax, 9).tolist(), p.get('k'))


def run_multiconv(ctx, p):
    """conversions of an object holding several (up to 100) rotations or rigid motions, exact half turns among them: value k of
    the converted object describes motion k -- judged against the matrices the object was built from, not against the single-
    valued conversion"""
    import spatialmath as sm

    def md(a_, b_):
        a_, b_ = np.asarray(a_, dtype=np.float64), np.asarray(b_, dtype=np.float64)
        return float(np.max(np.abs(a_ - b_))) if a_.shape == b_.shape and np.all(np.isfinite(a_)) else math.inf
    Ms = [np.asarray(m, dtype=np.float64) for m in p['mats']]
    rigid = Ms[0].shape == (4, 4)
    sig = dict(api='multiconv', rigid=rigid, n=core.band(len(Ms)))
    try:
        X = (sm.SE3 if rigid else sm.SO3)(Ms)
        q = sm.UnitQuaternion(X)
        back = [np.asarray(r_, dtype=np.float64) for r_ in (q.SO3().data if len(q) == len(Ms) else [])]
        ok = len(q) == len(Ms) and all(md(b_, m_[:3, :3]) <= TOL for b_, m_ in zip(back, Ms))
        ctx.judge('backconv', ok, dict(sig, kind='sequence_to_quaternion_wrong'),
                  lambda: 'UnitQuaternion(%s of %d values).SO3(): %d values, worst difference %.3g' % (type(X).__name__, len(Ms), len(q), max([md(b_, m_[:3, :3]) for b_, m_ in zip(back, Ms)] or [math.inf])))
        if rigid:
            tw = X.Twist3()
            Y = tw.SE3()
            sc = max(1.0, max(float(np.max(np.abs(m_[:3, 3]))) for m_ in Ms))
            ok = len(tw) == len(Ms) and len(Y) == len(Ms) and all(md(y_, m_) <= TOL * sc for y_, m_ in zip(Y.data, Ms))
            ctx.judge('backconv', ok, dict(sig, kind='sequence_to_twist_wrong'), lambda: 'SE3 of %d values .Twist3().SE3(): %d values' % (len(Ms), len(Y)))
    except Exception as e:
        ctx.bad('backconv', dict(sig, kind='raised', exc=type(e).__name__, where=_where(e)), 'conversions of a %d-valued object raised %r' % (len(Ms), e))
        return
    ctx.cell('multiconv', rigid, sig['n'])
    ctx.nontrivial('multiconv', rigid, len(Ms), [float('%.9g' % x) for x in Ms[0].reshape(-1)])


RUNNERS = {'multiconv': run_multiconv, 'shared_multi': run_shared_multi, 'halfturn_eq': run_halfturn_eq, 'multirep': run_multirep, 'shared': run_shared, 'doublecover': run_doublecover, 'embed': run_embed}


def REACH():
    import spatialmath.base as b
    S = sm()
    return [b.r2q, b.q2r, b.isequal, S.UnitQuaternion.__dict__['__init__'], S.UnitQuaternion.__dict__['SO3'],
            S.UnitQuaternion.__dict__['SE3'], S.SE3.__dict__['Twist3'], S.Twist3.__dict__['SE3'],
            S.UnitDualQuaternion.__dict__['__init__'], S.UnitDualQuaternion.__dict__['SE3'],
            S.SO2.__dict__['SE2'], S.SE2.__dict__['SE3'], S.SE3.__dict__['SO3']]


REQUIRED_REACH = {'r2q': ['ky1 = R[1, 0] + R[0, 1]  # Ny + Ox', 'ky1 = R[1, 1] - R[0, 0] - R[2, 2] + 1', 'kz1 = R[2, 2] - R[0, 0] - R[1, 1] + 1',
                          'kx = kx - kx1']}


# ----------------------------------------------------------------------------- workload
def rot_near(rng):
    """rotation incl. angles within 1e-9 of 0 and pi"""
    a = gen.unit_axis(rng)
    r = rng.random()
    if r < 0.06:
        # an exact half turn whose matrix is exactly symmetric (2 n n' - I, or a signed permutation): the skew part, from which
        # the sign of the axis is normally read, is exactly zero
        if rng.random() < 0.5:
            n_ = a / np.linalg.norm(a)
            return 2.0 * np.outer(n_, n_) - np.eye(3)
        k = int(rng.integers(3))
        D = -np.eye(3)
        D[k, k] = 1.0
        return D
    if r < 0.15:
        th = math.pi - gen.logu(rng, 1e-12, 1e-6)
    elif r < 0.3:
        th = gen.logu(rng, 1e-12, 1e-6)
    else:
        th = gen.rot_angle(rng)
    return ref.rot(a, th)


def run(ctx):
    rng = ctx.rng
    for _ in range(ctx.scale(2400, 60000)):
        dim = 3 if rng.random() < 0.7 else 2
        rigid = bool(rng.random() < 0.5)
        nl = int(rng.integers(1, 4))
        leaves = []
        for _ in range(nl):
            if dim == 3:
                R = rot_near(rng)
                t = gen.transl(rng) if rigid else np.zeros(3)
            else:
                R = gen.so2(rng)
                t = gen.transl(rng, 2) if rigid else np.zeros(2)
            leaves.append(ref.rt2tr(R, t))
        tree = build_tree(rng, nl, int(rng.integers(0, 4 if ctx.tier == 'quick' else 5)))
        p = dict(dim=dim, rigid=rigid, tree=tree, leaves=leaves)
        drive(RUNNERS, ctx, 'multirep', p)
        if ctx.ncases % 499 == 1:
            ctx.sample(dict(kind='multirep', **p), limit=5)
    for _ in range(ctx.scale(1200, 30000)):
        nm, args, kw = ctors.rotation_ctor(rng, 'SO3')
        drive(RUNNERS, ctx, 'shared', dict(name=nm, args=args, kwargs=kw))
    for _ in range(ctx.scale(150, 3000)):
        n = int(rng.integers(2, 8))
        if rng.random() < 0.1:
            n = int([16, 64, 65, 100][rng.integers(4)])        # many angles (a vectorised path would show here)
        drive(RUNNERS, ctx, 'shared_multi', dict(name=['Rx', 'Ry', 'Rz'][rng.integers(3)], angles=[gen.angle(rng) for _ in range(n)],
                                                 unit=['rad', 'deg'][rng.integers(2)], form=['list', 'tuple', 'array'][rng.integers(3)]))
    for _ in range(ctx.scale(120, 2500)):
        n = int([2, 3, 5, 8, 16, 17, 40, 100][rng.integers(8)])
        rigid = bool(rng.integers(2))
        mats = [ref.rt2tr(rot_near(rng), gen.transl(rng, hi=1e3)) if rigid else rot_near(rng) for _ in range(n)]
        drive(RUNNERS, ctx, 'multiconv', dict(mats=mats))
    for _ in range(ctx.scale(200, 4000)):
        drive(RUNNERS, ctx, 'doublecover', dict(q=gen.unit_quat(rng), other=gen.unit_quat(rng)))
        if rng.random() < 0.15:
            if rng.random() < 0.5:
                drive(RUNNERS, ctx, 'halfturn_eq', dict(which='axis', k=int(rng.integers(3)), axis=np.zeros(3)))
            else:
                drive(RUNNERS, ctx, 'halfturn_eq', dict(which='general', axis=gen.axis(rng, 1e-2, 1e2)))
    for _ in range(ctx.scale(400, 8000)):
        which = ['SO2.SE2', 'SE3.SO3', 'SE2.SE3'][rng.integers(3)]
        mk = {'SO2.SE2': lambda: gen.so2(rng), 'SE3.SO3': lambda: gen.so3(rng), 'SE2.SE3': lambda: gen.se2(rng)}[which]
        multi = [mk() for _ in range(int(rng.integers(2, 8)))] if rng.random() < 0.5 else []
        drive(RUNNERS, ctx, 'embed', dict(which=which, A=mk(), B=mk(), pt=gen.vec(rng, 3, 1e-3, 1e3), multi=multi))
