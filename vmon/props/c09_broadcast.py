"""C09 -- sequence broadcasting: element-wise results and strict length rules.

Monitor: for operands holding m and n pairwise distinct values, the vectorised operator is
executed once and compared, element by element and bit for bit, with the same operator
applied to single-valued objects built from the corresponding elements (self-consistency:
the same arithmetic is executed, so equality is exact).  Length rule 1,1->1; 1,M->M; M,1->M;
M,M->M; m != n both > 1 -> ValueError.  Per-value accessors / unary methods on M values must
return M results equal to per-element application (the stacking axis is not fixed by the
statement and is identified from the shape).
"""
import math
import operator

import numpy as np

from .. import core, gen, ref
from ..core import drive

PROP = 'C09'
SHARDS = {'quick': 4, 'thorough': 16}
RULE = ('8 list-capable classes x {*, /, +, -, ==, !=, **, pose*point} x all length pairs (m, n) in 1..5 x 1..5 with pairwise '
        'distinct element values, and every per-value accessor named in the statement on objects holding 1..5 values. '
        'distinct = (class, operator/accessor, m, n); non-trivial = m*n > 1 (operators) / M > 1 (accessors)')
ASSUMPTIONS = ['binary operators are compared bit for bit; per-value accessors to 1e-14 relative (iteration re-normalises unit quaternions, a 1-ulp effect)',
               'the single-valued reference uses objects rebuilt from the stored element arrays (check=False), not indexing',
               'stacking axis of vectorised accessors is not judged: any axis along which the M per-element results appear is accepted']
MIN_EVALS = {'binop': {'quick': 900, 'thorough': 12000}, 'accessor': {'quick': 450, 'thorough': 6000},
             'mismatch': {'quick': 700, 'thorough': 9000}}
EXHAUSTIVE = True

POSES = ['SO2', 'SE2', 'SO3', 'SE3']
CLS = POSES + ['Quaternion', 'UnitQuaternion', 'Twist2', 'Twist3']
TW = ['Twist2', 'Twist3']
OPS_FOR = {
    'SO2': ['mul', 'truediv', 'add', 'sub', 'eq', 'ne'], 'SE2': ['mul', 'truediv', 'add', 'sub', 'eq', 'ne'],
    'SO3': ['mul', 'truediv', 'add', 'sub', 'eq', 'ne'], 'SE3': ['mul', 'truediv', 'add', 'sub', 'eq', 'ne'],
    'Quaternion': ['mul', 'add', 'sub', 'eq', 'ne'], 'UnitQuaternion': ['mul', 'truediv', 'add', 'sub', 'eq', 'ne'],
    'Twist2': ['mul', 'eq', 'ne'], 'Twist3': ['mul', 'eq', 'ne'],
}
OP = {'mul': operator.mul, 'truediv': operator.truediv, 'add': operator.add, 'sub': operator.sub, 'eq': operator.eq,
      'ne': operator.ne}


def S():
    import spatialmath
    return spatialmath


def element(rng, c):
    # one value in five is of a special kind (identity, pure translation, prismatic or pure-rotation twist, half turn about a
    # coordinate axis ...), so that an object holding several values usually mixes kinds: a vectorised method must choose per value
    if rng.random() < 0.2:
        k = int(rng.integers(3))
        if c == 'SO2':
            return ref.rot2([0.0, math.pi, math.pi / 2][k])
        if c == 'SE2':
            return np.array([[1.0, 0, rng.uniform(-9, 9)], [0, 1, rng.uniform(-9, 9)], [0, 0, 1]]) if k else np.eye(3)
        if c == 'SO3':
            return [np.eye(3), np.diag([1.0, -1, -1]), ref.rot(np.eye(3)[2], rng.uniform(0.05, 3.0))][k]
        if c == 'SE3':
            return [np.eye(4), ref.rt2tr(np.eye(3), gen.transl(rng, hi=1e3)), ref.rt2tr(ref.rot(np.eye(3)[2], rng.uniform(0.05, 3.0)), np.zeros(3))][k]
        if c == 'Quaternion':
            return [np.r_[rng.uniform(0.5, 2), 0, 0, 0], np.r_[0, gen.vec(rng, 3, 1e-2, 1e2)], np.eye(4)[rng.integers(4)]][k]
        if c == 'UnitQuaternion':
            return [np.r_[1.0, 0, 0, 0], np.r_[0, gen.unit_axis(rng)], np.r_[-1.0, 0, 0, 0]][k]
        if c == 'Twist2':
            return [np.r_[gen.vec(rng, 2, 1e-2, 1e2), 0.0], np.r_[0.0, 0, rng.uniform(-3, 3)], np.r_[gen.unit_axis(rng)[:2], 0.0]][k]
        return [np.r_[gen.vec(rng, 3, 1e-2, 1e2), 0, 0, 0], np.r_[0.0, 0, 0, gen.unit_axis(rng) * rng.uniform(0.1, 3)], np.r_[gen.unit_axis(rng), 0, 0, 0]][k]
    if c == 'SO2':
        return gen.so2(rng)
    if c == 'SE2':
        return gen.se2(rng, hi=1e3)
    if c == 'SO3':
        return ref.rot(gen.unit_axis(rng), rng.uniform(0.05, 3.0))
    if c == 'SE3':
        return ref.rt2tr(ref.rot(gen.unit_axis(rng), rng.uniform(0.05, 3.0)), gen.transl(rng, hi=1e3))
    if c == 'Quaternion':
        return gen.vec(rng, 4, 1e-2, 1e2)
    if c == 'UnitQuaternion':
        return gen.unit_quat(rng)
    if c == 'Twist2':
        return np.r_[gen.vec(rng, 2, 1e-2, 1e2), rng.uniform(-3, 3)]
    return np.r_[gen.vec(rng, 3, 1e-2, 1e2), gen.unit_axis(rng) * rng.uniform(0.1, 3)]


def elements(rng, c, n):
    return gen.distinct(rng, lambda r: element(r, c), n)


def mk(c, arrs):
    C = getattr(S(), c)
    arrs = [np.array(a, dtype=np.float64) for a in arrs]
    kw = {} if c in ('Quaternion',) else {'check': False}
    if len(arrs) == 1:
        return C(arrs[0], **kw)
    return C(arrs, **kw)


def dat(x):
    d = getattr(x, 'data', None)
    return d if isinstance(d, list) else x


def same(a, b):
    """bitwise-equal results (objects by their data, arrays, lists, bools)"""
    if hasattr(a, 'data') and isinstance(getattr(a, 'data'), list):
        return type(a) is type(b) and len(a.data) == len(b.data) and all(same(x, y) for x, y in zip(a.data, b.data))
    if isinstance(a, np.ndarray) or isinstance(b, np.ndarray):
        try:
            return np.shape(a) == np.shape(b) and np.array_equal(np.asarray(a), np.asarray(b), equal_nan=True)
        except Exception:
            return False
    if isinstance(a, (list, tuple)) and isinstance(b, (list, tuple)):
        return len(a) == len(b) and all(same(x, y) for x, y in zip(a, b))
    if isinstance(a, (float, np.floating)) and isinstance(b, (float, np.floating)) and math.isnan(a) and math.isnan(b):
        return True
    try:
        return bool(a == b)
    except Exception:
        return False


def items(res, n):
    """split a vectorised result into n items: object -> elements, list -> items, array -> along an axis of length n"""
    if hasattr(res, 'data') and isinstance(res.data, list):
        if len(res.data) != n:
            return None
        return [[type(res), x] for x in res.data]
    if isinstance(res, (list, tuple)):
        return list(res) if len(res) == n else None
    if n == 1:
        return [res]
    return None


def single_items(x):
    """the single-valued result in comparable form"""
    if hasattr(x, 'data') and isinstance(x.data, list):
        return [type(x), x.data[0]] if len(x.data) == 1 else None
    return x


# ----------------------------------------------------------------------------- binary operators
def equality_boundary(c, x, e):
    """two values x + t e on either side of the point where the library's own single-valued == stops calling them equal to x
    (adjacent floating point t): the sequence forms must draw the line exactly where the single-valued operation does"""
    one = mk(c, [x])

    def eq(t):
        try:
            return bool(one == mk(c, [x + t * e]))
        except Exception:
            return None
    lo, hi = 0.0, 1e-20
    for _ in range(80):
        r = eq(hi)
        if r is None:
            return None
        if not r:
            break
        lo, hi = hi, hi * 8
    else:
        return None
    for _ in range(90):
        mid = 0.5 * (lo + hi)
        if mid == lo or mid == hi:
            break
        if eq(mid):
            lo = mid
        else:
            hi = mid
    return x + lo * e, x + hi * e


def run_binop(ctx, p):
    c, op, A, B = p['cls'], p['op'], p['A'], p['B']
    m, n = len(A), len(B)
    sig = dict(api='%s.%s' % (c, op), lens='%s,%s' % ('1' if m == 1 else 'M', '1' if n == 1 else 'M'))
    try:
        L, R = mk(c, A), mk(c, B)
        if p.get('sameobj'):
            R = L          # both operands are one and the same Python object (x op x, an alias, two references out of a container)
            sig['sameobj'] = True
    except Exception as e:
        ctx.harness_errors.append('mk %s failed %r' % (c, e))
        return
    want_n = max(m, n)
    mismatch = m != n and m > 1 and n > 1
    try:
        res = OP[op](L, R)
        raised = None
    except Exception as e:
        res, raised = None, e
    what = lambda: '%s(%d values) %s %s(%d values)' % (c, m, op, c, n)
    if mismatch:
        ok = isinstance(raised, ValueError)
        ctx.judge('mismatch', ok, dict(sig, kind='length_mismatch_not_ValueError', got=type(raised).__name__ if raised else 'returned'),
                  lambda: '%s must raise ValueError, got %s' % (what(), repr(raised) if raised else core.short(dat(res), 200)))
        ctx.cell('mismatch', c, op, m, n)
        ctx.nontrivial('mismatch', c, op, m, n)
        iop = {'mul': operator.imul, 'truediv': operator.itruediv, 'add': operator.iadd, 'sub': operator.isub}.get(op)
        if iop is not None:       # the augmented form refuses as well, and leaves its left operand as it was
            L2 = mk(c, A)
            try:
                iop(L2, R)
                r2 = None
            except Exception as e:
                r2 = e
            ctx.judge('mismatch', isinstance(r2, ValueError) and same(L2, mk(c, A)), dict(sig, kind='augmented_length_mismatch', got=type(r2).__name__ if r2 else 'returned'),
                      lambda: '%s (augmented form) must raise ValueError and leave x unchanged, got %s; x now holds %s' % (what(), repr(r2) if r2 else 'a result', core.short(dat(L2), 200)))
        return
    if raised is not None:
        ctx.bad('binop', dict(sig, kind='raised', exc=type(raised).__name__), '%s raised %r' % (what(), raised))
        return
    it = items(res, want_n)
    if it is None:
        ctx.bad('binop', dict(sig, kind='wrong_length', got=core.short(type(res).__name__)),
                '%s returned %s, expected %d results' % (what(), core.short(dat(res), 200), want_n))
        return
    worst = None
    for i in range(want_n):
        li = mk(c, [A[i if m > 1 else 0]])
        ri = mk(c, [B[i if n > 1 else 0]])
        try:
            w = single_items(OP[op](li, ri))
        except Exception as e:
            ctx.bad('binop', dict(sig, kind='single_raised', exc=type(e).__name__), 'single-valued %s %s raised %r' % (c, op, e))
            return
        if not same(it[i], w):
            worst = (i, it[i], w)
            break
    ctx.judge('binop', worst is None, dict(sig, kind='element_mismatch'),
              lambda: '%s: element %d is %s, the single-valued operation on the corresponding elements gives %s' % (
                  what(), worst[0], core.short(worst[1], 300), core.short(worst[2], 300)))
    ctx.cell('binop', c, op, m, n)
    if m * n > 1:
        ctx.nontrivial('binop', c, op, m, n)
    # the augmented form (x op= y) combines the lengths in the same way and gives the same values, bit for bit
    iop = {'mul': operator.imul, 'truediv': operator.itruediv, 'add': operator.iadd, 'sub': operator.isub}.get(op)
    if iop is not None:
        try:
            L2 = mk(c, A)
            res2 = iop(L2, L2 if p.get('sameobj') else R)
            ok2 = same(res2, res)
            got2 = core.short(dat(res2), 300)
        except Exception as e:
            ok2, got2 = False, 'raised %r' % e
        ctx.judge('binop', ok2, dict(sig, kind='augmented_form_differs'),
                  lambda: '%s: x %s= y gives %s, x %s y gives %s' % (what(), op, got2, op, core.short(dat(res), 300)))


def run_pow(ctx, p):
    c, A, k = p['cls'], p['A'], p['n']
    m = len(A)
    sig = dict(api='%s.pow' % c, lens='1' if m == 1 else 'M')
    try:
        res = mk(c, A) ** k
        it = items(res, m)
        want = [single_items(mk(c, [a]) ** k) for a in A]
    except Exception as e:
        ctx.bad('binop', dict(sig, kind='raised', exc=type(e).__name__), '%s(%d values) ** %d raised %r' % (c, m, k, e))
        return
    ok = it is not None and all(same(x, y) for x, y in zip(it, want))
    ctx.judge('binop', ok, dict(sig, kind='element_mismatch'), lambda: '%s(%d values) ** %d is not the per-element power' % (c, m, k))
    try:
        X2 = mk(c, A)
        X2 **= k
        ok2 = same(X2, res)
    except Exception as e:
        ok2 = False
    ctx.judge('binop', ok2, dict(sig, kind='augmented_form_differs'), lambda: '%s(%d values): x **= %d differs from x ** %d' % (c, m, k, k))
    ctx.cell('binop', c, 'pow', m)
    if m > 1:
        ctx.nontrivial('pow', c, m, k)


def run_point(ctx, p):
    """M poses times one point -> one column per pose value"""
    c, A, pt = p['cls'], p['A'], np.asarray(p['pt'], dtype=np.float64)
    m = len(A)
    sig = dict(api='%s.point' % c, lens='1' if m == 1 else 'M')
    try:
        if p.get('prime'):
            # what the process did just before must not matter: a sequence of the other dimension applied to some other point
            pr = p['prime']
            mk(pr['cls'], pr['A']) * np.asarray(pr['pt'], dtype=np.float64)
            sig['after'] = 'a %s sequence times a point' % pr['cls']
        res = np.asarray(mk(c, A) * pt)
        want = [np.asarray(mk(c, [a]) * pt).reshape(-1) for a in A]
    except Exception as e:
        ctx.bad('binop', dict(sig, kind='raised', exc=type(e).__name__), '%s(%d values) * point raised %r' % (c, m, e))
        return
    d = len(pt)
    if m == 1:
        ok = res.size == d and np.array_equal(res.reshape(-1), want[0])
    else:
        ok = res.shape == (d, m) and all(np.array_equal(res[:, i], want[i]) for i in range(m))
    ctx.judge('binop', ok, dict(sig, kind='element_mismatch'),
              lambda: '%s(%d values) * point: got %s, per-element results %s' % (c, m, core.short(res, 300), core.short(want, 300)))
    ctx.cell('binop', c, 'point', m)
    if m > 1:
        ctx.nontrivial('point', c, m)


# ----------------------------------------------------------------------------- per-value accessors
def ACC():
    """accessor name -> (classes, callable(obj))"""
    P3, P2 = ['SO3', 'SE3'], ['SO2', 'SE2']
    return {
        'inv': (POSES + ['UnitQuaternion', 'Twist2', 'Twist3'], lambda x: x.inv()),
        'R': (POSES + ['UnitQuaternion'], lambda x: x.R),
        't': (['SE2', 'SE3'], lambda x: x.t),
        'eul': (P3 + ['UnitQuaternion'], lambda x: x.eul()),
        'rpy': (P3 + ['UnitQuaternion'], lambda x: x.rpy()),
        'rpy_xyz_deg': (P3 + ['UnitQuaternion'], lambda x: x.rpy(unit='deg', order='xyz')),
        'eul_deg': (P3 + ['UnitQuaternion'], lambda x: x.eul(unit='deg')),
        'log': (POSES, lambda x: x.log()),
        'log_twist': (POSES, lambda x: x.log(twist=True)),
        'det': (POSES, lambda x: x.det()),
        'norm': (P3 + ['Quaternion', 'UnitQuaternion'], lambda x: x.norm()),
        'conj': (['Quaternion', 'UnitQuaternion'], lambda x: x.conj()),
        'theta': (P2, lambda x: x.theta()),
        'theta_deg': (P2, lambda x: x.theta(unit='deg')),
        'xyt': (['SE2'], lambda x: x.xyt()),
        's': (['Quaternion', 'UnitQuaternion'], lambda x: x.s),
        'v': (['Quaternion', 'UnitQuaternion'], lambda x: x.v),
        'vec': (['Quaternion', 'UnitQuaternion'], lambda x: x.vec),
        'unit': (['Quaternion', 'UnitQuaternion'], lambda x: x.unit()),
        # conversions to another class: one converted value per value held
        'interp(0.5)': (POSES + ['UnitQuaternion'], lambda x: x.interp(0.5) if type(x).__name__ != 'UnitQuaternion' else
                        type(x)([q * (1.0 if q[0] >= 0 else -1.0) for q in x.data]).interp(0.5)),
        'to.UnitQuaternion': (P3, lambda x: S().UnitQuaternion(x)), 'to.SO3': (['UnitQuaternion'], lambda x: x.SO3()),
        'to.SE3': (['UnitQuaternion', 'SE2'], lambda x: x.SE3()), 'to.SE2': (['SO2'], lambda x: x.SE2()),
        'to.Twist': (['SE2', 'SE3'], lambda x: x.Twist3() if type(x).__name__ == 'SE3' else x.Twist2()),
        'to.Twist.ctor': (['SE2', 'SE3'], lambda x: S().Twist3(x) if type(x).__name__ == 'SE3' else S().Twist2(x)),
        'to.SE.from_Twist': (TW, lambda x: S().SE3(x) if type(x).__name__ == 'Twist3' else S().SE2(x)),
        'to.SO3.from_SE3': (['SE3'], lambda x: S().SO3(x)), 'to.SO2.from_SE2': (['SE2'], lambda x: S().SO2(x)),
        'Ad': (['SE3'], lambda x: x.Ad()), 'jacob': (['SE3'], lambda x: x.jacob()),
        # twists: every per-value member documented on the Twist classes
        'tw.S': (TW, lambda x: x.S), 'tw.v': (TW, lambda x: x.v), 'tw.w': (TW, lambda x: x.w), 'tw.unit': (TW, lambda x: x.unit),
        'tw.isunit': (TW, lambda x: x.isunit), 'tw.isprismatic': (TW, lambda x: x.isprismatic), 'tw.isrevolute': (TW, lambda x: x.isrevolute),
        'tw.se': (TW, lambda x: x.se3() if type(x).__name__ == 'Twist3' else x.se2()),
        'tw.SE': (TW, lambda x: x.SE3() if type(x).__name__ == 'Twist3' else x.SE2()),
        'tw.exp': (TW, lambda x: x.exp()), 'tw.exp_theta': (TW, lambda x: x.exp(0.7)), 'tw.exp_deg': (TW, lambda x: x.exp(40.0, 'deg')),
        'tw.pitch': (['Twist3'], lambda x: x.pitch()), 'tw.pole': (['Twist3'], lambda x: x.pole()), 'tw.theta': (['Twist3'], lambda x: x.theta()),
        'tw.line': (['Twist3'], lambda x: x.line()), 'tw.Ad': (['Twist3'], lambda x: x.Ad()), 'tw.ad': (['Twist3'], lambda x: x.ad()),
        'tw.prod': (TW, None),      # placeholder: sequence product is a reduction, judged by C02/C18 (never called here)
    }


def close(a, b):
    """accessors: equal up to a few ulp (iterating over a UnitQuaternion re-normalises each element)"""
    a, b = np.asarray(a), np.asarray(b)
    if a.shape != b.shape:
        return False
    if a.dtype == object or b.dtype == object or a.dtype.kind not in 'fiu':
        return same(a, b)
    return bool(np.allclose(a, b, rtol=1e-14, atol=1e-300, equal_nan=True))


def split_any_axis(res, m, singles):
    """True if the M per-element results appear in `res` (object, list, or array stacked along any axis)"""
    if hasattr(res, 'data') and isinstance(res.data, list):
        return len(res.data) == m and all(hasattr(s, 'data') and type(s) is type(res) and close(res.data[i], s.data[0]) for i, s in enumerate(singles))
    if isinstance(res, (list, tuple)):
        return len(res) == m and all(close(np.asarray(res[i]), np.asarray(s)) for i, s in enumerate(singles))
    if isinstance(res, np.ndarray):
        s0 = np.asarray(singles[0])
        for ax in range(res.ndim):
            if res.shape[ax] != m:
                continue
            parts = [np.take(res, i, axis=ax) for i in range(m)]
            if all(close(p, s) for p, s in zip(parts, singles)):
                return True
        return False
    return False


def run_acc(ctx, p):
    c, name, A = p['cls'], p['acc'], p['A']
    m = len(A)
    f = ACC()[name][1]
    sig = dict(api='%s.%s' % (c, name))
    try:
        from .c17_immutable import clone
        singles = [clone(f(mk(c, [a]))) for a in A]      # copied at once: a result buffer shared between calls must not hide differences
    except Exception as e:
        ctx.ood('accessor')        # single-valued accessor itself fails: other properties decide that
        ctx.cell('acc_single_raises', c, name, type(e).__name__)
        return
    try:
        res = f(mk(c, A))
    except Exception as e:
        ctx.bad('accessor', dict(sig, kind='raised_on_sequence', exc=type(e).__name__),
                '%s.%s on an object holding %d values raised %r' % (c, name, m, e))
        return
    if m == 1:
        ok = same(res, singles[0]) or split_any_axis(res, 1, singles) or (isinstance(res, (np.ndarray, float, np.floating)) and close(res, singles[0]))
    else:
        ok = split_any_axis(res, m, singles)
    ctx.judge('accessor', ok, dict(sig, kind='not_per_element'),
              lambda: '%s.%s on %d values gives %s; per-element results are %s' % (c, name, m, core.short(dat(res), 400), core.short([dat(s) for s in singles], 400)))
    ctx.cell('acc', c, name, m)
    if m > 1:
        ctx.nontrivial('acc', c, name, m)


def run_interp(ctx, p):
    """interp over a vector of s on a single-valued pose gives the corresponding sequence"""
    c, A, svec = p['cls'], p['A'], p['s']
    sig = dict(api='%s.interp' % c)
    if c == 'UnitQuaternion':
        # interpolation from the identity along the arc actually taken; (nearly) antipodal pairs are outside C11's domain
        A = [np.asarray(a, dtype=np.float64) * (1.0 if np.asarray(a)[0] >= 0 else -1.0) for a in A]
    try:
        X = mk(c, A)
        if p.get('start') is not None and c != 'UnitQuaternion':
            # the two-pose form: the same start for the vector call and for the per-s calls (poses a long way apart included:
            # both forms must take the same arc)
            S0 = mk(c, [np.asarray(p['start'], dtype=np.float64)])
            sig['start'] = True
            res = X.interp(np.array(svec), start=S0)
            singles = [X.interp(float(s), start=S0) for s in svec]
        else:
            res = X.interp(np.array(svec))
            singles = [X.interp(float(s)) for s in svec]
    except Exception as e:
        ctx.bad('accessor', dict(sig, kind='raised_on_sequence', exc=type(e).__name__), '%s.interp(vector s) raised %r' % (c, e))
        return
    ok = hasattr(res, 'data') and len(res.data) == len(svec) and all(close(res.data[i], s.data[0]) for i, s in enumerate(singles))
    ctx.judge('accessor', ok, dict(sig, kind='not_per_element'),
              lambda: '%s.interp(%s) has %d elements / differs from per-s interpolation' % (c, svec, len(getattr(res, 'data', []))))
    ctx.cell('acc', c, 'interp', len(svec))
    ctx.nontrivial('interp', c, len(svec))


def run_scalar(ctx, p):
    """object holding M values combined with a real scalar (either side of *, right of /): M results equal to the single-valued operation"""
    c, A, k, op = p['cls'], p['A'], p['k'], p['op']
    m = len(A)
    sig = dict(api='%s.scalar' % c, op=op, lens='1' if m == 1 else 'M', ktype=type(k).__name__)
    f = {'mul': lambda x: x * k, 'rmul': lambda x: k * x, 'truediv': lambda x: x / k, 'add': lambda x: x + k, 'radd': lambda x: k + x,
         'sub': lambda x: x - k, 'rsub': lambda x: k - x, 'imul': lambda x: operator.imul(x, k), 'itruediv': lambda x: operator.itruediv(x, k),
         'iadd': lambda x: operator.iadd(x, k), 'isub': lambda x: operator.isub(x, k)}[op]
    try:
        singles = [f(mk(c, [a])) for a in A]
    except Exception as e:
        ctx.ood('binop')
        ctx.cell('scalar_single_raises', c, op, type(e).__name__)
        return
    try:
        res = f(mk(c, A))
    except Exception as e:
        ctx.bad('binop', dict(sig, kind='raised_on_sequence', exc=type(e).__name__), '%s (%d values) %s %r raised %r; the single-valued operation works' % (c, m, op, k, e))
        return
    if m == 1:
        ok = same(res, singles[0]) or split_any_axis(res, 1, singles) or (isinstance(res, np.ndarray) and close(res, singles[0]))
    else:
        ok = split_any_axis(res, m, singles)
    ctx.judge('binop', ok, dict(sig, kind='element_mismatch'),
              lambda: '%s (%d values) %s %r gives %s; per-element results are %s' % (c, m, op, k, core.short(dat(res), 400), core.short([dat(x) for x in singles], 400)))
    ctx.cell('binop', c, 'scalar_' + op, m, type(k).__name__)
    if m > 1:
        ctx.nontrivial('scalar', c, op, m, k)


def run_twexp(ctx, p):
    """Twist.exp(theta): M twists with N angles combine as 1xN, Mx1, MxM; two different lengths > 1 raise ValueError"""
    c, A, ths = p['cls'], p['A'], [float(t) for t in p['thetas']]
    m, n = len(A), len(ths)
    sig = dict(api='%s.exp' % c, lens='%sx%s' % ('1' if m == 1 else 'M', '1' if n == 1 else 'N'))
    arg = ths[0] if n == 1 and (m > 1 or p.get('scalar', True)) else (np.array(ths) if p.get('form', 'array') == 'array' else tuple(ths) if p.get('form') == 'tuple' else list(ths))
    ukw = {}
    if p.get('units') == 'deg':       # the same angles given in degrees, to the sequence call and to the single-valued calls alike
        ukw = {'units': 'deg'}
        sig['units'] = 'deg'
    try:
        res = mk(c, A).exp(arg, **ukw)
        raised = None
    except Exception as e:
        res, raised = None, e
    if m != n and m > 1 and n > 1:
        ctx.judge('mismatch', isinstance(raised, ValueError), dict(sig, kind='length_mismatch_not_ValueError', got=type(raised).__name__ if raised else 'returned'),
                  lambda: '%s holding %d twists .exp(%d angles) must raise ValueError; %s' % (c, m, n, repr(raised) if raised else 'returned %d values' % len(getattr(res, 'data', []))))
        ctx.cell('mismatch', c, 'exp', m, n)
        ctx.nontrivial('mismatch', c, 'exp', m, n)
        return
    if raised is not None:
        ctx.bad('binop', dict(sig, kind='raised_on_sequence', exc=type(raised).__name__), '%s (%d twists).exp(%d angles) raised %r' % (c, m, n, raised))
        return
    k = max(m, n)
    try:
        singles = [mk(c, [A[i if m > 1 else 0]]).exp(ths[i if n > 1 else 0], **ukw) for i in range(k)]
    except Exception:
        ctx.ood('binop')
        return
    ok = hasattr(res, 'data') and isinstance(res.data, list) and len(res.data) == k and all(close(res.data[i], singles[i].data[0]) for i in range(k))
    ctx.judge('binop', ok, dict(sig, kind='element_mismatch'), lambda: '%s (%d twists).exp(%d angles) is not the per-pair exponential: %s' % (c, m, n, core.short(dat(res), 300)))
    ctx.cell('binop', c, 'exp', m, n)
    if k > 1:
        ctx.nontrivial('twexp', c, m, n)


RUNNERS = {'twexp': run_twexp, 'scalar': run_scalar, 'binop': run_binop, 'pow': run_pow, 'point': run_point, 'acc': run_acc, 'interp': run_interp}


def REACH():
    sm = S()
    return [sm.smuserlist.SMUserList.__dict__['binop'], sm.smuserlist.SMUserList.__dict__['unop'],
            sm.super_pose.SMPose.__dict__['_op2'], sm.super_pose.SMPose.__dict__['__mul__'],
            sm.SO3.__dict__['R'], sm.SO3.__dict__['inv'], sm.SO3.__dict__['eul'], sm.SO3.__dict__['rpy'], sm.SE3.__dict__['t'],
            sm.SE3.__dict__['inv'], sm.SO2.__dict__['R'], sm.SO2.__dict__['theta'], sm.SE2.__dict__['t'], sm.SE2.__dict__['xyt'],
            sm.super_pose.SMPose.__dict__['det'], sm.super_pose.SMPose.__dict__['log'], sm.super_pose.SMPose.__dict__['interp'],
            sm.Quaternion.__dict__['s'], sm.Quaternion.__dict__['v'], sm.Quaternion.__dict__['norm'], sm.UnitQuaternion.__dict__['R']]


REQUIRED_REACH = {
    'SMUserList.binop': ['return [op(left._A, right._A)]', 'return [op(left.A, x) for x in right.A]',
                         'return [op(x, right.A) for x in left.A]', 'return [op(x, y) for (x, y) in zip(left.A, right.A)]',
                         "raise ValueError('length of lists to == must be same length')"],
    'SMPose._op2': ['return op(left.A, right.A)', 'return [op(left.A, x) for x in right.A]', 'return [op(x, right.A) for x in left.A]',
                    'return [op(x, y) for (x, y) in zip(left.A, right.A)]', "raise ValueError('length of lists to == must be same length')"],
}


# ----------------------------------------------------------------------------- workload
def run(ctx):
    rng = ctx.rng
    reps = 3 if ctx.tier == 'quick' else 160
    i = 0
    for c in CLS:
        for op in OPS_FOR[c]:
            for m in range(1, 8):
                for n in range(1, 8):
                    i += 1
                    if not ctx.mine(i):
                        continue
                    for _ in range(reps):
                        els = elements(rng, c, m + n)
                        A, B = els[:m], els[m:]
                        if op in ('eq', 'ne') and rng.random() < 0.5:      # some equal elements so == is not always False
                            for k in range(min(m, n)):
                                if rng.random() < 0.5:
                                    B[k] = A[k].copy()
                            if (m == 1) != (n == 1) and rng.random() < 0.5:
                                if m == 1:
                                    B[int(rng.integers(n))] = A[0].copy()
                                else:
                                    A[int(rng.integers(m))] = B[0].copy()
                        drive(RUNNERS, ctx, 'binop', dict(cls=c, op=op, A=A, B=B))
                    if m == n:
                        A = elements(rng, c, m)
                        drive(RUNNERS, ctx, 'binop', dict(cls=c, op=op, A=A, B=[a_.copy() for a_ in A], sameobj=True))
                    if i % 211 == 0:
                        ctx.sample(dict(case='binop', cls=c, op=op, m=m, n=n), limit=8)
            # objects holding many values (a batch path, a chunk size, a preallocated buffer would show here), with repeated
            # values among them (drawn from a pool of three: coincidences of equal elements)
            huge_ = int([2000, 2048, 2500, 17000][rng.integers(4)] if ctx.tier == 'quick' else [2000, 2048, 2500, 4096, 10007, 20011, 40009][rng.integers(7)])
            for m, n in ((16, 16), (17, 1), (1, 33), (64, 64), (16, 17), (8, 8), (100, 1), (128, 128), (128, 129), (256, 300), (129, 128), (257, 1), (1, 256),
                         (huge_, huge_), (1, huge_), (huge_, 1), (huge_, huge_ + 1)):
                i += 1
                if not ctx.mine(i):
                    continue
                if m >= 2000 or n >= 2000:
                    if op not in (('mul', 'truediv', 'eq') if ctx.tier == 'quick' else ('mul', 'truediv', 'eq', 'add', 'sub', 'ne')):
                        continue          # (trajectory-sized objects: the main operators)
                pool_ = elements(rng, c, 3)
                A = [pool_[int(k_)].copy() for k_ in rng.integers(3, size=m)]
                B = [pool_[int(k_)].copy() for k_ in rng.integers(3, size=n)]
                if rng.random() < 0.5:
                    A = [element(rng, c) for _ in range(m)]
                drive(RUNNERS, ctx, 'binop', dict(cls=c, op=op, A=A, B=B))
        # four values that, stacked, happen to form a valid homogeneous matrix (the units 1, i, j, k: an N x 4 array with N = 4 has
        # two readings): the result of an operator holds four values all the same
        if c in ('Quaternion', 'UnitQuaternion'):
            for op in OPS_FOR[c]:
                i += 1
                if not ctx.mine(i):
                    continue
                E4 = [np.eye(4)[k_] for k_ in range(4)]
                for A_, B_ in ((E4, [E4[0]]), ([E4[0]], E4), (E4, E4), ([E4[1]], E4), (E4, [E4[3]]), ([E4[k_] for k_ in (0, 2, 1, 3)], [E4[0]]),
                               ([-E4[0], E4[1], E4[2], E4[3]], [E4[0]])):
                    drive(RUNNERS, ctx, 'binop', dict(cls=c, op=op, A=[a_.copy() for a_ in A_], B=[b_.copy() for b_ in B_]))
        # == and != exactly at the line between "equal" and "not equal" of the single-valued operation (found by bisection with the
        # library's own ==): every sequence form answers as the single-valued form does, with the operands in either order
        for op in ('eq', 'ne'):
            for dense in (False, True):
                i += 1
                if not ctx.mine(i):
                    continue
                for _ in range(reps):
                    x = element(rng, c)
                    e_ = rng.normal(size=x.shape) if dense else np.zeros(x.shape)
                    if not dense:
                        e_.reshape(-1)[int(rng.integers(e_.size))] = float(gen.sign(rng))
                    if c in ('SE2', 'SE3') and not dense:       # (a translation component: the scale-dependent side of a relative test)
                        e_ = np.zeros(x.shape)
                        e_[int(rng.integers(x.shape[0] - 1)), -1] = float(gen.sign(rng))
                    pair = equality_boundary(c, x, e_)
                    if pair is None:
                        continue
                    for A_, B_ in (([x], [pair[0], pair[1], x]), ([pair[0], pair[1], x], [x]), ([x, x, pair[1]], [pair[0], pair[1], x]),
                                   ([pair[0]], [x, pair[1]]), ([pair[1], x], [x, pair[0]])):
                        drive(RUNNERS, ctx, 'binop', dict(cls=c, op=op, A=[np.array(a_) for a_ in A_], B=[np.array(b_) for b_ in B_], boundary=True))
        for m in list(range(1, 6)) + [16, 64]:
            i += 1
            if not ctx.mine(i):
                continue
            for _ in range(reps if m < 16 else 1):
                if c not in ('Twist2', 'Twist3'):
                    drive(RUNNERS, ctx, 'pow', dict(cls=c, A=elements(rng, c, m), n=int(rng.integers(-4, 5))))
                if c in POSES + ['UnitQuaternion']:
                    d = 2 if c in ('SO2', 'SE2') else 3
                    drive(RUNNERS, ctx, 'point', dict(cls=c, A=elements(rng, c, m), pt=gen.vec(rng, d, 1e-2, 1e2)))
                    if c in POSES:
                        oc = {'SO2': 'SE3', 'SE2': 'SE3', 'SO3': 'SE2', 'SE3': 'SE2'}[c]
                        od = 3 if oc == 'SE3' else 2
                        drive(RUNNERS, ctx, 'point', dict(cls=c, A=elements(rng, c, m), pt=gen.vec(rng, d, 1e-2, 1e2),
                                                          prime=dict(cls=oc, A=elements(rng, oc, int(rng.integers(2, 4))), pt=gen.vec(rng, od, 1e-1, 1e1))))
    for c in CLS:
        for op in ('mul', 'rmul', 'truediv', 'add', 'radd', 'sub', 'rsub', 'imul', 'itruediv', 'iadd', 'isub'):
            for m in range(1, 6):
                i += 1
                if not ctx.mine(i):
                    continue
                for _ in range(reps):
                    k = [2, -1, 3, 0.5, -2.5, float(rng.uniform(-4, 4))][rng.integers(6)]
                    drive(RUNNERS, ctx, 'scalar', dict(cls=c, op=op, A=elements(rng, c, m), k=k))
    for c in TW:
        for m in range(1, 8):
            for n in range(1, 6):
                i += 1
                if not ctx.mine(i):
                    continue
                for _ in range(reps):
                    drive(RUNNERS, ctx, 'twexp', dict(cls=c, A=elements(rng, c, m), thetas=[float(x) for x in rng.uniform(-3, 3, size=n)],
                                                      scalar=bool(rng.integers(2)), form=['array', 'list'][rng.integers(2)]))
                    for _nd in range(0 if m == 1 else (3 if n == 1 else 1)):
                        # values that differ only in the 9th decimal (they print alike; they are different twists), and exact repeats
                        A_ = elements(rng, c, m)
                        for j_ in range(1, m):
                            if rng.random() < 0.7:
                                A_[j_] = A_[0] + 1e-9 * rng.uniform(-1, 1, size=A_[0].shape) * (A_[0] != 0) if rng.random() < 0.8 else A_[0].copy()
                        drive(RUNNERS, ctx, 'twexp', dict(cls=c, A=A_, thetas=[float(x) for x in rng.uniform(-3, 3, size=n)], scalar=True, form='array'))
                    drive(RUNNERS, ctx, 'twexp', dict(cls=c, A=elements(rng, c, m), thetas=[float(x) for x in rng.uniform(-170, 170, size=n)], units='deg',
                                                      scalar=bool(rng.integers(2)), form=['array', 'list', 'tuple'][rng.integers(3)]))
    acc = ACC()
    for name, (classes, fn) in acc.items():
        if fn is None:
            continue
        for c in classes:
            for m in list(range(1, 6)) + [16, 65]:
                i += 1
                if not ctx.mine(i):
                    continue
                for _ in range(reps if m < 16 else 1):
                    drive(RUNNERS, ctx, 'acc', dict(cls=c, acc=name, A=elements(rng, c, m) if m < 16 else [element(rng, c) for _ in range(m)]))
    for c in POSES + ['UnitQuaternion']:
        for k in list(range(2, 6)) + [100, 257]:
            i += 1
            if not ctx.mine(i):
                continue
            for _ in range(reps if k < 100 else 1):
                s = sorted(float(x) for x in rng.random(k))
                if rng.random() < 0.5:
                    s[0], s[-1] = 0.0, 1.0
                if rng.random() < 0.25:         # coincidences: a constant vector, repeated values, an unsorted vector
                    s = [s[0]] * k if rng.random() < 0.4 else [s[int(j_)] for j_ in rng.integers(k, size=k)]
                drive(RUNNERS, ctx, 'interp', dict(cls=c, A=elements(rng, c, 1), s=s))
                if c != 'UnitQuaternion':
                    e1 = elements(rng, c, 1)
                    if c in ('SO3', 'SE3') and rng.random() < 0.5:
                        # start and end a long way apart about one axis (their quaternions in opposite hemispheres, not antipodal)
                        a_ = gen.unit_axis(rng)
                        th_ = rng.uniform(1.7, 2.9)
                        R0_, R1_ = ref.rot(a_, -th_), ref.rot(a_, th_)
                        st, e1 = (R0_, [R1_]) if c == 'SO3' else (ref.rt2tr(R0_, gen.transl(rng, hi=1e3)), [ref.rt2tr(R1_, gen.transl(rng, hi=1e3))])
                    else:
                        st = element(rng, c)
                    drive(RUNNERS, ctx, 'interp', dict(cls=c, A=e1, s=s, start=st))
    ctx.extra['configurations_enumerated'] = i
