"""C12 -- quaternion and dual-quaternion arithmetic obeys the Hamilton algebra.

Two monitors on the same real functions:
 (a) symbolic-valued workload: the library code is *executed on SymPy symbols* (object-dtype
     arrays) and the monitor expands lhs - rhs to the zero polynomial -- this decides the
     polynomial identities for all real components at once;
 (b) numeric workload, component magnitudes log-uniform 1e-6..1e6 with mixed signs, compared
     with a longdouble Hamilton reference; 1e-9 relative to the product of the operand norms
     (1e-6 for exp/log and the dual-quaternion norm).
Base functions and the Quaternion / UnitQuaternion / DualQuaternion class operators.
"""
import math

import numpy as np

from .. import core, gen, ref
from ..core import drive

PROP = 'C12'
SHARDS = {'quick': 4, 'thorough': 16}
TOL, TOL_EL = 1e-9, 1e-6
RULE = ('numeric: every identity x component-magnitude bands (each component log-uniform 1e-6..1e6, mixed signs; unit '
        'quaternions over the whole group for the 3-vector form; rigid motions with |t| <= 1e3 for the dual norm), integer '
        'powers |n| <= 6; symbolic: every polynomial identity executed once per run on fresh symbols (listed in '
        'coverage.symbolic_identities). distinct = (identity, implementation, operands rounded to 9 significant digits); '
        'non-trivial = all operands have non-zero vector part')
ASSUMPTIONS = ["symbolic discharge trusts SymPy's expand(); 'relative' means relative to the product of the operand norms",
               'vvmul: unit quaternions with scalar parts >= 0.1 whose product also has scalar part >= 0 (statement: non-negative scalar parts)']
MIN_EVALS = {'numeric': {'quick': 10000, 'thorough': 250000}, 'symbolic': {'quick': 20, 'thorough': 20},
             'explog': {'quick': 1500, 'thorough': 20000}, 'dualnorm': {'quick': 350, 'thorough': 8000}}


def S():
    import spatialmath
    return spatialmath


def B():
    import spatialmath.base as b
    return b


def LD(x):
    return np.asarray(x, dtype=ref.LD)


def nrm(x):
    return float(np.sqrt(np.sum(LD(x) ** 2)))


def rel(got, want, scale):
    got, want = np.asarray(got, dtype=np.float64), np.asarray(want, dtype=np.float64)
    if got.shape != want.shape or not np.all(np.isfinite(got)):
        return math.inf
    return float(np.max(np.abs(got - want))) / scale if scale > 0 else float(np.max(np.abs(got - want)))


# two implementations of every operation: base functions and class operators
class BaseImpl:
    name = 'base'

    def mul(self, p, q):
        return B().qqmul(p, q)

    def add(self, p, q):
        return np.asarray(p) + np.asarray(q)

    def conj(self, q):
        return B().conj(q)

    def norm(self, q):
        return B().qnorm(q)

    def inner(self, p, q):
        return B().inner(p, q)

    def pow(self, q, n):
        return B().qpow(q, n)

    def matrix(self, q):
        return B().matrix(q)


class ClassImpl:
    name = 'class'

    def Q(self, q):
        return S().Quaternion(np.asarray(q))

    def mul(self, p, q):
        return (self.Q(p) * self.Q(q)).A

    def add(self, p, q):
        return (self.Q(p) + self.Q(q)).A

    def conj(self, q):
        return self.Q(q).conj().A

    def norm(self, q):
        return self.Q(q).norm()

    def inner(self, p, q):
        return self.Q(p).inner(self.Q(q))

    def pow(self, q, n):
        return (self.Q(q) ** n).A

    def matrix(self, q):
        return self.Q(q).matrix


class NarrowImpl(ClassImpl):
    """Quaternion objects built from arrays of a narrow element type (what np.loadtxt(dtype=...), an image or a sensor driver
    hands over); the values are whole numbers, exactly representable in every type used"""
    def __init__(self, dtype):
        self.dtype = dtype
        self.name = 'class:' + np.dtype(dtype).name

    def Q(self, q):
        q = np.asarray(q, dtype=np.float64)
        with np.errstate(all='ignore'):
            fits = np.all(np.isfinite(q)) and np.max(np.abs(q)) < 3e4 and np.array_equal(q.astype(self.dtype).astype(np.float64), q)
        return S().Quaternion(q.astype(self.dtype) if fits else q)     # (intermediate results that do not fit stay as they are)


class ObjectImpl(ClassImpl):
    """the identities evaluated on library objects that are kept between the steps (the product object is conjugated,
    raised to a power, multiplied again), with operands of unit length entering as UnitQuaternion objects: mixed-class chains"""
    name = 'class:objects'

    def Q(self, q):
        sm = S()
        if isinstance(q, sm.Quaternion):
            return q
        q = np.asarray(q, dtype=np.float64)
        if abs(float(np.linalg.norm(q)) - 1) < 1e-14:
            return sm.UnitQuaternion(q)
        return sm.Quaternion(q)

    def mul(self, p, q):
        return self.Q(p) * self.Q(q)

    def add(self, p, q):
        return self.Q(p) + self.Q(q)

    def conj(self, q):
        return self.Q(q).conj()

    def pow(self, q, n):
        return self.Q(q) ** n


OBJ_IDENT = ['assoc', 'distrib_left', 'distrib_right', 'norm_mult', 'conj_reverse', 'q_conjq', 'pow', 'matrix_form', 'inner_dot', 'pow_prod', 'neg_prod',
             'iadd_distrib', 'imul_chain', 'imul_scalar', 'isub_add', 'matrix_replaced']
IMPLS = {'base': BaseImpl(), 'class': ClassImpl(), 'class:objects': ObjectImpl(), 'class:int32': NarrowImpl(np.int32), 'class:int16': NarrowImpl(np.int16), 'class:float32': NarrowImpl(np.float32), 'class:int8': NarrowImpl(np.int8)}
NARROW_IDENT = ['assoc', 'norm_mult', 'conj_reverse', 'q_conjq', 'matrix_form', 'inner_dot']      # (no + / -: NumPy adds in the narrow type)
IDENT = ['assoc', 'distrib_left', 'distrib_right', 'norm_mult', 'conj_reverse', 'q_conjq', 'pow', 'matrix_form', 'inner_dot',
         'dot_rate', 'dotb_rate', 'vvmul', 'sub_add']


def pow_ref(q, n):
    out = LD([1, 0, 0, 0])
    for _ in range(abs(n)):
        out = ref.qmul(out, q)
    return ref.qconj(out) if n < 0 else out


def run_num(ctx, p):
    ident, impl = p['ident'], IMPLS[p['impl']]
    a, b, c = (np.asarray(x, dtype=np.float64) for x in (p['a'], p['b'], p['c']))
    n = p.get('n', 2)
    sig = dict(api=ident, impl=impl.name)
    na, nb, nc = nrm(a), nrm(b), nrm(c)
    try:
        if ident == 'assoc':
            got, want, sc = impl.mul(impl.mul(a, b), c), impl.mul(a, impl.mul(b, c)), na * nb * nc
            refv = ref.qmul(ref.qmul(a, b), c)
        elif ident == 'distrib_left':
            got, want, sc = impl.mul(a, impl.add(b, c)), impl.add(impl.mul(a, b), impl.mul(a, c)), na * (nb + nc)
            refv = ref.qmul(a, LD(b) + LD(c))
        elif ident == 'distrib_right':
            got, want, sc = impl.mul(impl.add(a, b), c), impl.add(impl.mul(a, c), impl.mul(b, c)), (na + nb) * nc
            refv = ref.qmul(LD(a) + LD(b), c)
        elif ident == 'norm_mult':
            got, want, sc = impl.norm(impl.mul(a, b)), impl.norm(a) * impl.norm(b), na * nb
            refv = LD(na) * LD(nb)
        elif ident == 'conj_reverse':
            got, want, sc = impl.conj(impl.mul(a, b)), impl.mul(impl.conj(b), impl.conj(a)), na * nb
            refv = ref.qconj(ref.qmul(a, b))
        elif ident == 'q_conjq':
            got, want, sc = impl.mul(a, impl.conj(a)), np.r_[impl.norm(a) ** 2, 0, 0, 0], na * na
            refv = np.r_[LD(na) ** 2, 0, 0, 0]
        elif ident == 'pow':
            got = impl.pow(a, n)
            want = np.r_[1.0, 0, 0, 0]
            for _ in range(abs(n)):
                want = impl.mul(want, a)
            if n < 0:
                want = impl.conj(want)
            sc = na ** abs(n) if n != 0 else 1.0
            refv = pow_ref(a, n)
        elif ident == 'matrix_form':
            got, want, sc = np.asarray(impl.matrix(a)) @ b, impl.mul(a, b), na * nb
            refv = ref.qmul(a, b)
        elif ident == 'inner_dot':
            got, want, sc = impl.inner(a, b), float(np.dot(a, b)), na * nb
            refv = np.sum(LD(a) * LD(b))
        elif ident in ('dot_rate', 'dotb_rate'):
            w = c[1:]
            if impl.name == 'base':
                got = B().dot(a, w) if ident == 'dot_rate' else B().dotb(a, w)
            else:
                uq = S().UnitQuaternion(a, norm=False, check=False) if False else None
                got = B().dot(a, w) if ident == 'dot_rate' else B().dotb(a, w)
            pw = np.r_[0.0, w]
            want = 0.5 * (impl.mul(pw, a) if ident == 'dot_rate' else impl.mul(a, pw))
            sc = na * nrm(w)
            refv = LD(0.5) * (ref.qmul(pw, a) if ident == 'dot_rate' else ref.qmul(a, pw))
        elif ident == 'pow_prod':
            # an integer power of a product object: (ab)^n is the n-fold product (ab)(ab)...
            ab = impl.mul(a, b)
            got, want = impl.pow(ab, n), np.r_[1.0, 0, 0, 0]
            for _ in range(abs(n)):
                want = impl.mul(want, ab)
            if n < 0:
                want = impl.conj(want)
            sc = (na * nb) ** abs(n) if n != 0 else 1.0
            refv = pow_ref(ref.qmul(a, b), n)
        elif ident == 'neg_prod':
            # (ab) conj(ab) = |ab|^2
            ab = impl.mul(a, b)
            got, want, sc = impl.mul(ab, impl.conj(ab)), np.r_[(na * nb) ** 2, 0, 0, 0], (na * nb) ** 2
            refv = np.r_[(LD(na) * LD(nb)) ** 2, 0, 0, 0]
        elif ident == 'matrix_replaced':
            # the matrix form is that of the value the object holds NOW: read it, replace the value through the list interface
            # (item assignment, or append + pop), read it again
            x = S().Quaternion(c)
            _first = np.array(x.matrix)
            if n % 2:
                x[0] = S().Quaternion(a)
            else:
                x.append(S().Quaternion(a))
                x.pop(0)
            got, want, sc = np.asarray(x.matrix) @ b, impl.mul(a, b), na * nb
            refv = ref.qmul(a, b)
        elif ident == 'iadd_distrib':
            # the augmented operators are the plain ones: acc = ab; acc += ac is a(b + c)
            acc = impl.mul(a, b)
            acc += impl.mul(a, c)
            got, want, sc = acc, impl.mul(a, impl.add(b, c)), na * (nb + nc)
            refv = ref.qmul(a, LD(b) + LD(c))
        elif ident == 'isub_add':
            acc = impl.add(a, b)
            acc -= impl.Q(b)
            got, want, sc, refv = acc, a, na + nb, LD(a)
        elif ident == 'imul_chain':
            x = impl.Q(a)
            x *= impl.Q(b)
            x *= impl.Q(c)
            got, want, sc = x, impl.mul(impl.mul(a, b), c), na * nb * nc
            refv = ref.qmul(ref.qmul(a, b), c)
        elif ident == 'imul_scalar':
            # x *= k with a real k, then a further product: |(k a) b| = |k| |a| |b| and the value is k (a b)
            kf = float(n) + 0.5
            x = impl.Q(a)
            x *= kf
            got, want, sc = impl.mul(x, b), impl.mul(impl.mul(a, b), np.r_[kf, 0, 0, 0]), abs(kf) * na * nb
            refv = LD(kf) * ref.qmul(a, b)
        elif ident == 'sub_add':
            if impl.name == 'class':
                Q = impl.Q
                got, want = ((Q(a) - Q(b)) + Q(b)).A, a
            else:
                got, want = (a - b) + b, a
            sc, refv = na + nb, LD(a)
        else:
            raise KeyError(ident)
    except Exception as e:
        ctx.bad('numeric', dict(sig, kind='raised', exc=type(e).__name__), '%s (%s) raised %r for a=%s b=%s c=%s n=%s' % (ident, impl.name, e, a, b, c, n))
        return
    got, want = getattr(got, 'A', got), getattr(want, 'A', want)
    d1 = rel(got, want, sc)
    d2 = rel(got, np.array(refv, dtype=np.float64), sc)
    d = max(d1, d2)
    ctx.judge('numeric', d <= TOL, dict(sig, kind='identity_residual' if d1 > TOL else 'differs_from_reference'),
              lambda: '%s (%s impl): relative residual %.3g between sides / %.3g to the longdouble reference (allowed 1e-9); a=%s b=%s c=%s n=%s got=%s want=%s' % (
                  ident, impl.name, d1, d2, a, b, c, n, core.short(got, 200), core.short(want, 200)))
    ctx.cell('num', ident, impl.name, core.band(na), core.band(nb))
    if all(np.linalg.norm(x[1:]) > 0 for x in (a, b, c)):
        ctx.nontrivial(ident, impl.name, n, [float('%.9g' % v) for v in np.r_[a, b, c]])


def run_vvmul(ctx, p):
    """3-vector form of unit quaternions multiplies consistently with the full product"""
    b = B()
    qa, qb = np.asarray(p['a'], dtype=np.float64), np.asarray(p['b'], dtype=np.float64)
    sig = dict(api='vvmul', impl=p['impl'])
    prod = np.array(ref.qmul(qa, qb), dtype=np.float64)
    if qa[0] < 0.1 or qb[0] < 0.1 or abs(prod[0]) < 1e-6:
        ctx.ood('numeric')      # (a product with scalar part next to 0 has no well-conditioned 3-vector form)
        return
    # the pair has non-negative scalar parts; the product need not: its 3-vector form is then the vector part of -(a b), the
    # quaternion of the same rotation with non-negative scalar part
    sgn = 1.0 if prod[0] > 0 else -1.0
    prod = sgn * prod
    sig['product_scalar'] = 'positive' if sgn > 0 else 'negative'
    try:
        va, vb = b.q2v(qa), b.q2v(qb)
        if p['impl'] == 'base':
            got = b.vvmul(va, vb)
        else:
            got = S().UnitQuaternion.qvmul(va, vb)
        want = b.q2v(b.qqmul(qa, qb))
        back = b.v2q(got)
    except Exception as e:
        ctx.bad('numeric', dict(sig, kind='raised', exc=type(e).__name__), 'vvmul raised %r for %s %s' % (e, qa, qb))
        return
    d = max(rel(got, want, 1.0), rel(got, prod[1:], 1.0), rel(back, prod, 1.0))
    ctx.judge('numeric', d <= TOL, dict(sig, kind='identity_residual'),
              lambda: 'vvmul(q2v a, q2v b) = %s, q2v(a b) = %s (residual %.3g); a=%s b=%s' % (got, want, d, qa, qb))
    ctx.cell('num', 'vvmul', p['impl'])
    ctx.nontrivial('vvmul', p['impl'], [float('%.9g' % v) for v in np.r_[qa, qb]])


def run_explog(ctx, p):
    """exp(log(q)) = q and log(exp(q)) = q on the Quaternion class; 'cls' selects the receiver: a general Quaternion, a
    UnitQuaternion (either sign of the scalar part; its log is the one a subclass override would replace) or a pure
    quaternion (scalar part exactly 0, whose exp the library returns as a UnitQuaternion)"""
    sm = S()
    q = np.asarray(p['q'], dtype=np.float64)
    which, cls = p['which'], p.get('cls', 'Quaternion')
    sig = dict(api='%s.%s' % (cls, which))
    try:
        if cls == 'UnitQuaternion':
            Q = sm.UnitQuaternion(q, norm=False, check=False)
            q = np.asarray(Q.A, dtype=np.float64)
        else:
            Q = sm.Quaternion(q)
        if which == 'exp_log':
            mid = Q.log()
            r = mid.exp()
        else:
            mid = Q.exp()
            r = mid.log()
        got = np.asarray(r.A, dtype=np.float64)
    except Exception as e:
        ctx.bad('explog', dict(sig, kind='raised', exc=type(e).__name__), '%s raised %r for q=%s' % (which, e, q))
        return
    sc = max(1.0, nrm(q))
    # log(exp(q)) = q relative to |q| itself (a pure quaternion with |v| = 3e-6 is inside the stated magnitudes)
    d = rel(got, q, sc if which == 'exp_log' else min(1.0, nrm(q)))
    ctx.judge('explog', d <= TOL_EL, dict(sig, kind='not_inverse', sneg=bool(q[0] < 0)),
              lambda: '%s(q) = %s for %s q = %s (intermediate %s %s; residual %.3g, allowed 1e-6)' % (
                  which, got, cls, q, type(mid).__name__, core.short(mid.A, 100), d))
    # independent reference for the intermediate value (closed forms in longdouble)
    v = LD(q[1:])
    nv = np.sqrt(np.sum(v * v))
    if which == 'exp_log':
        nq = np.sqrt(np.sum(LD(q) ** 2))
        want_mid = np.r_[np.log(nq), v / nv * np.arctan2(nv, LD(q[0]))]      # (= acos(s / |q|), without its cancellation next to 1)
    else:
        want_mid = np.exp(LD(q[0])) * np.r_[np.cos(nv), v / nv * np.sin(nv)]
    dm = rel(mid.A, np.array(want_mid, dtype=np.float64), max(1.0, float(np.max(np.abs(want_mid)))))
    ctx.judge('explog', dm <= TOL_EL, dict(sig, kind='intermediate_differs_from_closed_form', sneg=bool(q[0] < 0)),
              lambda: '%s of %s %s is %s, closed form gives %s (residual %.3g, allowed 1e-6)' % (
                  'log' if which == 'exp_log' else 'exp', cls, q, core.short(mid.A, 100), np.array(want_mid, dtype=np.float64), dm))
    ctx.cell('explog', which, cls, 's<0' if q[0] < 0 else ('s=0' if q[0] == 0 else 's>0'), core.band(np.linalg.norm(q[1:])))
    ctx.nontrivial(which, cls, [float('%.9g' % v) for v in q])


def run_dual(ctx, p):
    """dual quaternions: associativity, 8x8 matrix form, conjugate, norm of a unit dual quaternion"""
    sm = S()
    which = p['which']
    sig = dict(api='DualQuaternion.' + which)
    try:
        if which == 'unit_norm':
            T = np.asarray(p['T'], dtype=np.float64)
            d = sm.UnitDualQuaternion(sm.SE3(T))
            n = d.norm()
            ok = len(n) == 2 and all(np.isfinite(float(x)) for x in n) and abs(float(n[0]) - 1) <= TOL_EL and abs(float(n[1])) <= TOL_EL
            ctx.judge('dualnorm', ok, dict(sig, kind='norm_not_1_0'), lambda: 'norm of UnitDualQuaternion(SE3) is %r for T=%s' % (n, core.short(T, 300)))
            # norm is multiplicative on products of unit dual quaternions as well
            d2 = d * d
            n2 = d2.norm()
            ok2 = abs(float(n2[0]) - 1) <= TOL_EL and abs(float(n2[1])) <= TOL_EL * max(1.0, float(np.linalg.norm(T[:3, 3])))
            ctx.judge('dualnorm', ok2, dict(sig, kind='norm_of_product_not_1_0'), lambda: 'norm of d*d is %r' % (n2,))
            ctx.cell('dual', which)
            ctx.nontrivial('dualnorm', [float('%.9g' % v) for v in T.reshape(-1)])
            return
        a, b, c = (np.asarray(x, dtype=np.float64) for x in (p['a'], p['b'], p['c']))     # 8-vectors, or 4x4 rigid motions
        kinds = p.get('kinds', 'ggg')      # per operand: g = general DualQuaternion, u = UnitDualQuaternion built from an SE3

        def DQ(v, k):
            if k == 'u':
                return sm.UnitDualQuaternion(sm.SE3(v.reshape(4, 4)))
            return sm.DualQuaternion(sm.Quaternion(v[:4]), sm.Quaternion(v[4:]))
        A, Bq, C = DQ(a, kinds[0]), DQ(b, kinds[1]), DQ(c, kinds[2])
        # the operand data the identities are judged on is what the objects hold
        a, b, c = (np.asarray(x.vec, dtype=np.float64) for x in (A, Bq, C))
        sig['kinds'] = kinds if which == 'assoc' else kinds[:2] if which in ('matrix', 'addsub') else kinds[:1]

        def refmul(x, y):
            return np.r_[ref.qmul(x[:4], y[:4]), LD(ref.qmul(x[:4], y[4:])) + LD(ref.qmul(x[4:], y[:4]))]
        sc = nrm(a) * nrm(b) * (nrm(c) if which == 'assoc' else 1.0)
        if which == 'assoc':
            got, want = ((A * Bq) * C).vec, (A * (Bq * C)).vec
            refv = refmul(refmul(a, b), c)
        elif which == 'matrix':
            got, want = A.matrix() @ Bq.vec, (A * Bq).vec
            refv = refmul(a, b)
        elif which == 'conj':
            got, want = A.conj().vec, np.r_[a[0], -a[1:4], a[4], -a[5:8]]
            sc, refv = nrm(a), want
        elif which == 'addsub':
            got, want = ((A + Bq) - Bq).vec, a
            sc, refv = nrm(a) + nrm(b), a
        else:
            raise KeyError(which)
    except Exception as e:
        ctx.bad('numeric', dict(sig, kind='raised', exc=type(e).__name__), 'dual quaternion %s raised %r' % (which, e))
        return
    d = max(rel(got, want, sc), rel(got, np.array(refv, dtype=np.float64), sc))
    ctx.judge('numeric', d <= TOL, dict(sig, kind='identity_residual'), lambda: 'dual quaternion %s: relative residual %.3g; a=%s b=%s' % (which, d, a, b))
    ctx.cell('dual', which, kinds)
    ctx.nontrivial('dual', which, kinds, [float('%.9g' % v) for v in np.r_[a, b]])


# ----------------------------------------------------------------------------- symbolic
def run_sym(ctx, p):
    """execute the real code on symbols; the difference must expand to the zero polynomial"""
    import sympy
    b = B()
    sm = S()
    ident, implname = p['ident'], p['impl']
    sig = dict(api=ident, impl=implname, mode='symbolic')
    A = np.array(sympy.symbols('a0:4', real=True), dtype=object)
    Bs = np.array(sympy.symbols('b0:4', real=True), dtype=object)
    C = np.array(sympy.symbols('c0:4', real=True), dtype=object)
    W = np.array(sympy.symbols('w0:3', real=True), dtype=object)
    if p.get('kinds') and len(p['kinds']) == 3:
        # some of the operands numeric (dyadic numbers: the arithmetic on the coefficients stays exact), the others symbolic: one
        # product then has a symbolic operand on one side and a float64 array on the other
        nums = [np.array([2.0, -1.0, 3.0, 0.5]), np.array([-0.25, 4.0, 1.5, -2.0]), np.array([1.0, 0.75, -3.0, 2.5])]
        A, Bs, C = [nums[i_] if k_ == 'n' else x_ for i_, (k_, x_) in enumerate(zip(p['kinds'], (A, Bs, C)))]
        sig['operands'] = p['kinds']
    if implname == 'base':
        mul, conj, inner, qpow, matrix, add = b.qqmul, b.conj, b.inner, b.qpow, b.matrix, lambda x, y: x + y
    else:
        Q = lambda v: sm.Quaternion(v)
        mul = lambda x, y: (Q(x) * Q(y)).A
        conj = lambda x: Q(x).conj().A
        inner = lambda x, y: Q(x).inner(Q(y))
        qpow = lambda x, n: (Q(x) ** n).A
        matrix = lambda x: Q(x).matrix
        add = lambda x, y: (Q(x) + Q(y)).A
    try:
        if ident == 'assoc':
            lhs, rhs = mul(mul(A, Bs), C), mul(A, mul(Bs, C))
        elif ident == 'distrib_left':
            lhs, rhs = mul(A, add(Bs, C)), add(mul(A, Bs), mul(A, C))
        elif ident == 'distrib_right':
            lhs, rhs = mul(add(A, Bs), C), add(mul(A, C), mul(Bs, C))
        elif ident == 'norm_mult':
            lhs, rhs = inner(mul(A, Bs), mul(A, Bs)), inner(A, A) * inner(Bs, Bs)
        elif ident == 'conj_reverse':
            lhs, rhs = conj(mul(A, Bs)), mul(conj(Bs), conj(A))
        elif ident == 'q_conjq':
            lhs, rhs = mul(A, conj(A)), np.array([inner(A, A), 0, 0, 0], dtype=object)
        elif ident == 'pow':
            n = p.get('n', 3)
            lhs = qpow(A, n)
            rhs = np.array([1, 0, 0, 0], dtype=object)
            for _ in range(abs(n)):
                rhs = mul(rhs, A)
            if n < 0:
                rhs = conj(rhs)
        elif ident == 'matrix_form':
            lhs, rhs = np.asarray(matrix(A)) @ Bs, mul(A, Bs)
        elif ident == 'inner_dot':
            lhs, rhs = inner(A, Bs), sum(x * y for x, y in zip(A, Bs))
        elif ident == 'dot_rate':
            lhs, rhs = b.dot(A, W), sympy.Rational(1, 2) * mul(np.r_[np.array([0], dtype=object), W], A)
        elif ident == 'dotb_rate':
            lhs, rhs = b.dotb(A, W), sympy.Rational(1, 2) * mul(A, np.r_[np.array([0], dtype=object), W])
        elif ident == 'dual_assoc':
            D = [sm.DualQuaternion(sm.Quaternion(np.array(sympy.symbols('%sr0:4' % k, real=True), dtype=object)),
                                   sm.Quaternion(np.array(sympy.symbols('%sd0:4' % k, real=True), dtype=object))) for k in 'xyz']
            lhs, rhs = ((D[0] * D[1]) * D[2]).vec, (D[0] * (D[1] * D[2])).vec
        elif ident == 'dual_norm':
            # the norm of a dual quaternion with symbolic parts: (|r|, r.d / |r|)
            kn = p.get('kinds', 'ss')
            rr = np.array(sympy.symbols('xr0:4', real=True), dtype=object) if kn[0] == 's' else np.array([2.0, -1.0, 3.0, 0.5])
            dd = np.array(sympy.symbols('xd0:4', real=True), dtype=object) if kn[1] == 's' else np.array([-0.25, 4.0, 1.5, -2.0])
            nrm = sm.DualQuaternion(sm.Quaternion(rr), sm.Quaternion(dd)).norm()
            s2 = sum(x * x for x in rr)
            lhs = np.array([sympy.simplify(sympy.sympify(nrm[0]) ** 2 - s2), sympy.simplify(sympy.sympify(nrm[1]) * sympy.sqrt(s2) - sum(x * y for x, y in zip(rr, dd)))], dtype=object)
            lhs = np.array([0 if (x_.is_number and abs(float(x_)) < 1e-12) else x_ for x_ in lhs], dtype=object)
            rhs = np.array([0, 0], dtype=object)
        elif ident == 'dual_matrix':
            D = [sm.DualQuaternion(sm.Quaternion(np.array(sympy.symbols('%sr0:4' % k, real=True), dtype=object)),
                                   sm.Quaternion(np.array(sympy.symbols('%sd0:4' % k, real=True), dtype=object))) for k in 'xy']
            lhs, rhs = D[0].matrix() @ D[1].vec, (D[0] * D[1]).vec
        else:
            raise KeyError(ident)
    except Exception as e:
        ctx.bad('symbolic', dict(sig, kind='raised_on_symbols', exc=type(e).__name__), '%s (%s) raised %r when executed on symbols' % (ident, implname, e))
        return
    diff = np.atleast_1d(np.asarray(lhs, dtype=object) - np.asarray(rhs, dtype=object)).reshape(-1)
    nz = [sympy.expand(x) for x in diff]
    bad = [str(x)[:200] for x in nz if not (x == 0 or getattr(x, 'is_zero', False))]      # (a floating-point 0.0 is zero too)
    ctx.judge('symbolic', not bad, dict(sig, kind='nonzero_normal_form'),
              lambda: '%s (%s impl): lhs - rhs does not expand to 0: %s' % (ident, implname, bad[:3]))
    ctx.extra.setdefault('symbolic_identities', {})['%s/%s' % (ident, implname)] = 1 if not bad else 0
    ctx.nontrivial('sym', ident, implname, p.get('n'))


RUNNERS = {'num': run_num, 'vvmul': run_vvmul, 'explog': run_explog, 'dual': run_dual, 'sym': run_sym}


def REACH():
    b = B()
    sm = S()
    return [b.qqmul, b.conj, b.qnorm, b.inner, b.qpow, b.matrix, b.vvmul, b.q2v, b.v2q, b.dot, b.dotb, b.pure,
            sm.Quaternion.__dict__['exp'], sm.Quaternion.__dict__['log'], sm.DualQuaternion.__dict__['norm'],
            sm.DualQuaternion.__dict__['__mul__'], sm.DualQuaternion.__dict__['matrix']]


# ----------------------------------------------------------------------------- workload
def quat(rng):
    return gen.vec(rng, 4, 1e-6, 1e6) if rng.random() < 0.7 else gen.vec(rng, 4, 1e-1, 1e1)


def run(ctx):
    rng = ctx.rng
    # symbolic obligations: once per run (shard 0 .. spread)
    k = 0
    for ident in ['assoc', 'distrib_left', 'distrib_right', 'norm_mult', 'conj_reverse', 'q_conjq', 'matrix_form', 'inner_dot']:
        for impl in ('base', 'class'):
            k += 1
            if ctx.mine(k):
                drive(RUNNERS, ctx, 'sym', dict(ident=ident, impl=impl))
    for ident in ['assoc', 'distrib_left', 'distrib_right', 'conj_reverse', 'matrix_form', 'inner_dot', 'norm_mult']:
        for impl in ('base', 'class'):
            for kinds in ('snn', 'nsn', 'nns', 'sns', 'ssn', 'nss'):
                k += 1
                if ctx.mine(k):
                    drive(RUNNERS, ctx, 'sym', dict(ident=ident, impl=impl, kinds=kinds))
    for kinds in ('ss', 'sn'):
        k += 1
        if ctx.mine(k):
            drive(RUNNERS, ctx, 'sym', dict(ident='dual_norm', impl='base', kinds=kinds))
    for n in (-3, -1, 0, 2, 4):
        for impl in ('base', 'class'):
            k += 1
            if ctx.mine(k):
                drive(RUNNERS, ctx, 'sym', dict(ident='pow', impl=impl, n=n))
    for ident in ('dot_rate', 'dotb_rate', 'dual_assoc', 'dual_matrix'):
        k += 1
        if ctx.mine(k):
            drive(RUNNERS, ctx, 'sym', dict(ident=ident, impl='base'))
    for _ in range(ctx.scale(16000, 400000)):
        ident = IDENT[rng.integers(len(IDENT))]
        if ident == 'vvmul':
            drive(RUNNERS, ctx, 'vvmul', dict(a=np.abs(gen.unit_quat(rng)) * np.r_[1, np.sign(rng.normal(size=3))], b=gen.unit_quat(rng) * 1.0,
                                               impl=['base', 'class'][rng.integers(2)]))
            continue
        p = dict(ident=ident, impl=['base', 'class'][rng.integers(2)], a=quat(rng), b=quat(rng), c=quat(rng), n=int(rng.integers(-6, 7)))
        if ident == 'pow':       # keep a^n representable
            p['a'] = gen.vec(rng, 4, 1e-3, 1e3)
        if ident in NARROW_IDENT and rng.random() < 0.15:
            # whole-number components large enough for products to leave the narrow type (int16: > 181, int32: > 46340 / 4)
            hi = {'class:int16': 3e4, 'class:int32': 3e4, 'class:float32': 3e4}
            p['impl'] = ['class:int32', 'class:int16', 'class:float32'][rng.integers(3)]
            for k_ in 'abc':
                p[k_] = np.round(gen.vec(rng, 4, 2e3, hi[p['impl']] * 0.999))
        if p['impl'] in ('base', 'class') and ident != 'pow' and ident not in ('dot_rate', 'dotb_rate') and rng.random() < 0.06:
            # small whole numbers in an int8 array: sums and differences leave the type (100 + 100, -100 - 100)
            p['impl'] = 'class:int8'
            for k_ in 'abc':
                p[k_] = np.round(gen.vec(rng, 4, 20, 127)).clip(-127, 127)
        if p['impl'] == 'class' and ident in OBJ_IDENT and rng.random() < 0.3:
            # objects kept between the steps; one or two of the operands of unit length (UnitQuaternion objects)
            p['impl'] = 'class:objects'
            p['ident'] = OBJ_IDENT[rng.integers(len(OBJ_IDENT))]
            p['n'] = int(rng.integers(-3, 4))
            for k_ in 'abc':
                p[k_] = gen.vec(rng, 4, 1e-2, 1e2)
                if rng.random() < 0.5:
                    p[k_] = p[k_] / np.linalg.norm(p[k_])
        drive(RUNNERS, ctx, 'num', p)
        if ctx.ncases % 3001 == 1:
            ctx.sample(dict(case='num', **p))
    for _ in range(ctx.scale(2500, 40000)):
        which = ['exp_log', 'log_exp'][rng.integers(2)]
        cls = 'Quaternion'
        r = rng.random()
        if which == 'exp_log':
            q = gen.vec(rng, 4, 1e-3, 1e3) if rng.random() < 0.6 else gen.vec(rng, 4, 1e-6, 1e6)
            if rng.random() < 0.1:       # vector part far smaller than the scalar part (all components still within 1e-6 .. 1e6)
                sc_ = gen.logu(rng, 1e1, 1e6)
                q = np.r_[gen.sign(rng) * sc_, gen.unit_axis(rng) * gen.logu(rng, 1e-6, sc_ * 1e-6)]
            if rng.random() < 0.06:      # "every q with non-zero vector part": a vector part below any threshold, down to 1e-18 of the scalar part
                q = np.r_[gen.sign(rng) * gen.logu(rng, 1e-1, 1e1), gen.unit_axis(rng) * gen.logu(rng, 1e-18, 1e-12)]
                r = 1.0
            if r < 0.06:       # scalar part exactly zero, of either sign (-1 * Pure(v) has s = -0.0)
                q[0] = [0.0, -0.0][rng.integers(2)]
            elif r < 0.3:
                q[0] = gen.sign(rng) * gen.logu(rng, 1e-6, 1e-1)
            elif r < 0.6:      # unit quaternion receiver, both hemispheres, rotation angle over (0, 2 pi)
                cls = 'UnitQuaternion'
                th = rng.uniform(1e-3, math.pi - 1e-3)
                q = np.r_[math.cos(th), math.sin(th) * gen.unit_axis(rng)]
        else:
            # (vector part over the whole stated range, down to 1e-6: acos of a number next to 1 has lost the angle)
            v = gen.unit_axis(rng) * (rng.uniform(1e-3, math.pi - 1e-3) if rng.random() < 0.7 else gen.logu(rng, 1e-6, 1e-3))
            q = np.r_[gen.sign(rng) * gen.logu(rng, 1e-3, 5.0), v]
            if rng.random() < 0.08:     # a scalar part of large magnitude: exp(q) is a very short or very long quaternion (1e-130 .. 1e130)
                q[0] = gen.sign(rng) * gen.logu(rng, 30.0, 300.0)
                r = 1.0
            if r < 0.4:        # pure quaternion: exp is returned as a UnitQuaternion, whose log must invert it
                q[0] = 0.0
        drive(RUNNERS, ctx, 'explog', dict(q=q, which=which, cls=cls))
    for _ in range(ctx.scale(1200, 20000)):
        which = ['assoc', 'matrix', 'conj', 'addsub', 'unit_norm', 'unit_norm'][rng.integers(6)]
        if which == 'unit_norm':
            drive(RUNNERS, ctx, 'dual', dict(which=which, T=gen.se3(rng, hi=1e3)))
        else:
            kinds = ''.join('gu'[int(rng.random() < 0.35)] for _ in range(3))
            ops = [gen.se3(rng, hi=1e2).reshape(-1) if k == 'u' else gen.vec(rng, 8, 1e-3, 1e3) for k in kinds]
            drive(RUNNERS, ctx, 'dual', dict(which=which, a=ops[0], b=ops[1], c=ops[2], kinds=kinds))
