"""C20 -- spatial 6-vectors and inertia follow Featherstone's spatial algebra.

Boundary monitor on the operators and methods of SpatialVelocity / SpatialAcceleration /
SpatialForce / SpatialMomentum / SpatialInertia against reference 6x6 matrices written from
the textbook definitions (vmon.ref): element-wise + - neg with class / length guards, motion
and force cross products and their duality, parallel-axis inertia, inertia sums and products,
SE3 premultiplication (adjoint / adjoint transpose).  1e-9 relative.
"""
import itertools
import math
import operator

import numpy as np

from .. import core, gen, ref
from ..core import drive

PROP = 'C20'
SHARDS = {'quick': 4, 'thorough': 16}
TOL = 1e-9
RULE = ('6-vectors with component magnitudes 1e-6..1e6 (mixed signs), masses > 0, centres of mass, SPD rotational inertias '
        '(A A^T + eps I), rigid motions over the whole group, every ordered pair of the four vector classes, single- and '
        'multi-valued objects. distinct = (operation, classes, operands rounded to 9 digits); non-trivial = non-zero angular and '
        'linear parts, non-zero centre of mass')
ASSUMPTIONS = ['vectors are ordered (linear; angular) as in the library; motion cross matrix [skew(w) skew(v); 0 skew(w)]',
               'documented cross-product pairs only: motion x velocity -> acceleration, motion x force/momentum -> force']
MIN_EVALS = {'arith': {'quick': 2700, 'thorough': 40000}, 'guards': {'quick': 400, 'thorough': 4000},
             'cross': {'quick': 2500, 'thorough': 40000}, 'inertia': {'quick': 1500, 'thorough': 25000},
             'transform': {'quick': 700, 'thorough': 12000}}
SV = ['SpatialVelocity', 'SpatialAcceleration', 'SpatialForce', 'SpatialMomentum']
MOTION, FORCE = SV[:2], SV[2:]


def S():
    import spatialmath
    return spatialmath


def vec6(rng):
    v = gen.vec(rng, 6, 1e-6, 1e6) if rng.random() < 0.6 else gen.vec(rng, 6, 1e-2, 1e2)
    r_ = rng.random()
    if r_ < 0.15:
        # structured values: a pure force / pure couple, a pure translation / pure rotation (one half exactly zero), one component
        if r_ < 0.06:
            v[:3] = 0
        elif r_ < 0.12:
            v[3:] = 0
        else:
            e_ = np.zeros(6)
            k_ = rng.integers(6)
            e_[k_] = v[k_]
            v = e_
    return v


def mk(c, vs, form='float'):
    """form: how the numbers are handed to the constructor -- float64 array, integer-dtype array, list of Python ints or floats
    (integer forms require integer-valued data)"""
    C = getattr(S(), c)
    vs = [np.asarray(v, dtype=np.float64) for v in vs]
    if form == 'int_array':
        vs = [v.astype(np.int64) for v in vs]
    elif form in ('uint8', 'int8', 'float16'):
        vs = [v.astype(form) for v in vs]
    elif form == 'float16_list':      # a list of half-precision 6-vectors (the documented [V1, V2, ...] form)
        return C([v.astype(np.float16) for v in vs])
    elif form == 'matrix':       # the documented 6 x N array form, for every N >= 1
        return C(np.column_stack(vs))
    elif form == 'int_list' and len(vs) == 1:
        return C([int(t) for t in vs[0]])
    elif form == 'list' and len(vs) == 1:
        return C([float(t) for t in vs[0]])
    return C(vs[0]) if len(vs) == 1 else C(np.column_stack(vs))


def rel(a, b, sc=None):
    a, b = np.asarray(a, dtype=np.float64), np.asarray(b, dtype=np.float64)
    if a.shape != b.shape or not np.all(np.isfinite(a)):
        return math.inf
    sc = sc if sc is not None else max(1e-300, float(np.max(np.abs(b))))
    if not a.size:
        return 0.0
    d = float(np.max(np.abs(a - b)))
    return d / sc if sc > 0 else (0.0 if d == 0 else math.inf)     # (a zero operand: the result is exactly zero)


def _where(e):
    import traceback
    tb = traceback.extract_tb(e.__traceback__)
    for fr in reversed(tb):
        if 'spatialmath' in fr.filename:
            return '%s:%s' % (fr.filename.split('spatialmath/')[-1], fr.name)
    return tb[-1].name if tb else '?'


# ----------------------------------------------------------------------------- arithmetic within a class
def run_arith(ctx, p):
    c, op = p['cls'], p['op']
    A, B = [np.asarray(v, float) for v in p['A']], [np.asarray(v, float) for v in p['B']]
    sig = dict(api='%s.%s' % (c, op), m='1' if len(A) == 1 else 'M')
    C = getattr(S(), c)
    form = p.get('form', 'float')
    if form != 'float':
        sig['element_type'] = form
    if op in ('iadd_shared', 'isub_shared'):
        # an accumulator started from an element of a sequence (total = f[0]; total += f[i]) and a copy (v = C(v0); v -= d): the
        # augmented operators give the element-wise result and leave every other object -- the sequence, the copied one -- as it was
        try:
            F = mk(c, A, form)
            total = F[0]
            for i in range(1, len(A)):
                total = operator.iadd(total, F[i]) if op == 'iadd_shared' else operator.isub(total, F[i])
            wt = A[0].copy()
            for a_ in A[1:]:
                wt = wt + a_ if op == 'iadd_shared' else wt - a_
            V0 = mk(c, B[:1], form)
            V = C(V0)
            V = operator.iadd(V, F[0]) if op == 'iadd_shared' else operator.isub(V, F[0])
            wv = B[0] + A[0] if op == 'iadd_shared' else B[0] - A[0]
        except Exception as e:
            ctx.bad('arith', dict(sig, kind='raised', exc=type(e).__name__), '%s %s raised %r' % (c, op, e))
            return
        ok = type(total) is C and len(total.data) == 1 and np.array_equal(total.data[0], wt) and type(V) is C and np.array_equal(V.data[0], wv)
        ctx.judge('arith', ok, dict(sig, kind='not_elementwise_or_wrong_class'), lambda: '%s %s: accumulated %s, expected %s; copy then %s gives %s, expected %s' % (
            c, op, core.short(total.data, 200), wt, op[:4], core.short(V.data, 200), wv))
        same_ = len(F.data) == len(A) and all(np.array_equal(g, w) for g, w in zip(F.data, A)) and np.array_equal(V0.data[0], B[0])
        ctx.judge('arith', same_, dict(sig, kind='other_object_changed_by_augmented_operator'),
                  lambda: '%s %s: after total = f[0]; total op= f[i] the sequence f holds %s (was %s); after v = C(v0); v op= d, v0 holds %s (was %s)' % (
                      c, op, core.short(F.data, 300), core.short(A, 300), V0.data[0], B[0]))
        ctx.cell('arith', c, op, len(A))
        ctx.nontrivial('arith', c, op, [float('%.9g' % t) for v in A + B for t in v])
        return
    try:
        x, y = mk(c, A, form), mk(c, B, form)
        if op == 'add':
            r, want = x + y, [a + b for a, b in zip(A, B)]
        elif op == 'sub':
            r, want = x - y, [a - b for a, b in zip(A, B)]
        else:
            r, want = -x, [-a for a in A]
    except Exception as e:
        ctx.bad('arith', dict(sig, kind='raised', exc=type(e).__name__), '%s %s raised %r' % (c, op, e))
        return
    ok = type(r) is C and len(r.data) == len(want) and all(np.array_equal(g, w) for g, w in zip(r.data, want))
    ctx.judge('arith', ok, dict(sig, kind='not_elementwise_or_wrong_class'),
              lambda: '%s %s: got %s %s, expected %s' % (c, op, type(r).__name__, core.short(r.data if hasattr(r, 'data') else r, 300), core.short(want, 300)))
    ctx.cell('arith', c, op, len(A))
    ctx.nontrivial('arith', c, op, [float('%.9g' % t) for v in A + B for t in v])


def run_guard(ctx, p):
    """mixed classes or unequal lengths must be rejected"""
    c1, c2, op = p['c1'], p['c2'], p['op']
    A, B = p['A'], p['B']
    sig = dict(api='guard.' + op, left=c1, right=c2, lens='%d,%d' % (len(A), len(B)))
    try:
        x, y = mk(c1, A), mk(c2, B)
    except Exception as e:
        ctx.harness_errors.append('guard operands: %r' % e)
        return
    try:
        r = (x + y) if op == 'add' else (x - y)
    except Exception:
        ctx.ok('guards')
        ctx.cell('guard', c1, c2, op, sig['lens'])
        ctx.nontrivial('guard', c1, c2, op, sig['lens'])
        return
    ctx.bad('guards', dict(sig, kind='accepted_mixed_classes' if c1 != c2 else 'accepted_unequal_lengths', got=type(r).__name__),
            '%s(%d values) %s %s(%d values) returned %s %s' % (c1, len(A), op, c2, len(B), type(r).__name__, core.short(getattr(r, 'data', r), 200)))


# ----------------------------------------------------------------------------- cross products
def run_cross(ctx, p):
    sm = S()
    cl, cr = p['left'], p['right']
    v, o = np.asarray(p['v'], float), np.asarray(p['o'], float)
    lf, rf = p.get('lform', 'float'), p.get('rform', 'float')
    sig = dict(api='cross', left=cl, right=cr, via=p['via'], forms='%s/%s' % (lf, rf))
    try:
        x, y = mk(cl, [v], lf), mk(cr, [o], rf)
        r = (x @ y) if p['via'] == 'matmul' else x.cross(y)
    except Exception as e:
        ctx.bad('cross', dict(sig, kind='raised', exc=type(e).__name__, where=_where(e)), '%s x %s raised %r' % (cl, cr, e))
        return
    if cr in MOTION:
        want, wcls = ref.f64(ref.mm(ref.crm(v), o.reshape(6, 1))).reshape(-1), 'SpatialAcceleration'
    else:
        want, wcls = ref.f64(ref.mm(ref.crf(v), o.reshape(6, 1))).reshape(-1), 'SpatialForce'
    sc = float(np.linalg.norm(v) * np.linalg.norm(o))
    ok = type(r).__name__ == wcls and len(r.data) == 1
    d = rel(r.data[0], want, sc) if ok else math.inf
    ctx.judge('cross', d <= TOL, dict(sig, kind='value_or_class_wrong', got=type(r).__name__),
              lambda: '%s x %s = %s %s, reference gives %s %s (rel %.3g)' % (cl, cr, type(r).__name__, core.short(getattr(r, 'data', r), 200), wcls, want, d))
    # duality (v x* f) . m = - f . (v x m)
    if cr in FORCE and p.get('m') is not None:
        m = np.asarray(p['m'], float)
        try:
            lhs = float(np.dot(x.cross(y).A, m))
            vm = x.cross(mk('SpatialVelocity', [m]))
            rhs = -float(np.dot(o, vm.A))
            sc2 = float(np.linalg.norm(v) * np.linalg.norm(o) * np.linalg.norm(m))
            ctx.judge('cross', abs(lhs - rhs) <= TOL * sc2, dict(sig, kind='duality_broken'), lambda: '(v x* f).m = %r but -f.(v x m) = %r' % (lhs, rhs))
            if hasattr(y, 'dot'):
                ctx.judge('cross', abs(float(y.dot(m)) - float(np.dot(o, m))) <= TOL * np.linalg.norm(o) * np.linalg.norm(m), dict(sig, kind='dot_wrong'), 'force.dot(m) wrong')
        except Exception as e:
            ctx.bad('cross', dict(sig, kind='raised', exc=type(e).__name__, where=_where(e)), 'duality evaluation raised %r' % e)
    ctx.cell('cross', cl, cr, p['via'], lf, rf)
    if np.linalg.norm(v[:3]) > 0 and np.linalg.norm(v[3:]) > 0:
        ctx.nontrivial('cross', cl, cr, [float('%.9g' % t) for t in np.r_[v, o]])


# ----------------------------------------------------------------------------- inertia
def run_inertia(ctx, p):
    sm = S()
    m, c, I = float(p['m']), np.asarray(p['c'], float), np.asarray(p['I'], float)
    sig = dict(api='SpatialInertia')
    want = ref.parallel_axis_inertia(m, c, I)
    sc = float(np.max(np.abs(want)))
    try:
        J = sm.SpatialInertia(m=m, r=c, I=I)
        A = np.asarray(J.A, dtype=np.float64)
        d = rel(A, want, sc)
        ctx.judge('inertia', d <= TOL and A.shape == (6, 6), dict(sig, kind='not_parallel_axis_matrix'),
                  lambda: 'SpatialInertia(m=%r, c=%s, I=%s) = %s, parallel-axis matrix is %s' % (m, c, core.short(I, 100), core.short(A, 300), core.short(want, 300)))
        ctx.judge('inertia', rel(A, A.T, sc) <= TOL, dict(sig, kind='not_symmetric'), 'spatial inertia matrix is not symmetric')
        # the moments of inertia one by one: I_kk + m (the two other coordinates squared) is a sum of non-negative terms, so each
        # diagonal entry of the rotational block is determined to rounding even when it is tiny next to the other two (a slender
        # link along one axis); judged to 1e-6 of the entry itself
        dg = max(abs(A[k_, k_] - want[k_, k_]) / want[k_, k_] for k_ in range(6)) if A.shape == (6, 6) and all(want[k_, k_] > 0 for k_ in range(6)) else 0.0
        ctx.judge('inertia', dg <= 1e-6, dict(sig, kind='moment_of_inertia_wrong'),
                  lambda: 'SpatialInertia(m=%r, c=%s): moments of inertia %s, parallel-axis theorem gives %s (relative %.3g)' % (m, c, np.diag(A), np.diag(want), dg))
        # joined bodies add
        m2, c2, I2 = float(p['m2']), np.asarray(p['c2'], float), np.asarray(p['I2'], float)
        J2 = sm.SpatialInertia(m=m2, r=c2, I=I2)
        Ssum = J + J2
        w2 = want + ref.parallel_axis_inertia(m2, c2, I2)
        ok = type(Ssum) is sm.SpatialInertia
        ctx.judge('inertia', ok and rel(Ssum.A, w2, float(np.max(np.abs(w2)))) <= TOL, dict(sig, kind='sum_wrong'),
                  lambda: 'I1 + I2 = %s, matrix sum is %s' % (core.short(getattr(Ssum, 'A', Ssum), 300), core.short(w2, 300)))
        # point masses (rotational inertia omitted), several built one after the other: each is m [[-C C, C], [C', 1]] of its own m, c
        Z3 = np.zeros((3, 3))
        pm = [sm.SpatialInertia(m, c), sm.SpatialInertia(m2, c2), sm.SpatialInertia(m=m, r=c)]
        for Jp, (mm, cc) in zip(pm, ((m, c), (m2, c2), (m, c))):
            wp = ref.parallel_axis_inertia(mm, cc, Z3)
            ctx.judge('inertia', rel(Jp.A, wp, float(np.max(np.abs(wp)))) <= TOL, dict(sig, kind='point_mass_wrong'),
                      lambda: 'SpatialInertia(m=%r, r=%s) = %s, the point-mass matrix is %s' % (mm, cc, core.short(Jp.A, 300), core.short(wp, 300)))
        # products
        x = np.asarray(p['x'], float)
        for cname, rcls in (('SpatialAcceleration', 'SpatialForce'), ('SpatialVelocity', 'SpatialMomentum')):
            r = J * mk(cname, [x])
            wv = ref.f64(ref.mm(A, x.reshape(6, 1))).reshape(-1)
            ok = type(r).__name__ == rcls and len(r.data) == 1
            dd = rel(r.data[0], wv, float(np.linalg.norm(A) * np.linalg.norm(x))) if ok else math.inf
            ctx.judge('inertia', dd <= TOL, dict(sig, kind='product_wrong', right=cname, got=type(r).__name__),
                      lambda: 'I * %s = %s %s, expected %s %s' % (cname, type(r).__name__, core.short(getattr(r, 'data', r), 200), rcls, wv))
            # ... and for an operand holding several values (N = 6 included: a 6 x 6 stack of row vectors is not the matrix of columns)
            for nv in p.get('multi', []):
                xs = [x * (k_ + 1) + np.roll(x, k_) for k_ in range(nv)]
                rm = J * mk(cname, xs)
                okm = type(rm).__name__ == rcls and len(rm.data) == nv
                dm = max(rel(g_, ref.f64(ref.mm(A, v_.reshape(6, 1))).reshape(-1), float(np.linalg.norm(A) * np.linalg.norm(v_))) for g_, v_ in zip(rm.data, xs)) if okm else math.inf
                ctx.judge('inertia', dm <= TOL, dict(sig, kind='product_wrong', right=cname, got=type(rm).__name__, values='6' if nv == 6 else 'M'),
                          lambda: 'I * %s holding %d values = %s %s: value by value it should be I x_i' % (cname, nv, type(rm).__name__, core.short(getattr(rm, 'data', rm), 300)))
    except Exception as e:
        ctx.bad('inertia', dict(sig, kind='raised', exc=type(e).__name__, where=_where(e)), 'spatial inertia case raised %r' % e)
        return
    ctx.cell('inertia', core.band(m), core.band(np.linalg.norm(c)))
    if np.linalg.norm(c) > 0:
        ctx.nontrivial('inertia', [float('%.9g' % t) for t in np.r_[m, c, I.reshape(-1)]])


# ----------------------------------------------------------------------------- SE3 premultiplication
def run_transform(ctx, p):
    sm = S()
    c = p['cls']
    T = np.asarray(p['T'], float)
    xs = [np.asarray(v, float) for v in p['x']]
    sig = dict(api='SE3*' + c, m='1' if len(xs) == 1 else 'M')
    Ad = ref.adjoint(T)
    M = Ad if c in MOTION else Ad.T
    try:
        r = sm.SE3(T) * mk(c, xs)
    except Exception as e:
        ctx.bad('transform', dict(sig, kind='raised', exc=type(e).__name__, where=_where(e)), 'SE3 * %s (%d values) raised %r' % (c, len(xs), e))
        return
    ok = type(r).__name__ == c and len(r.data) == len(xs)
    worst = 0.0
    if ok:
        for g, x in zip(r.data, xs):
            want = ref.f64(ref.mm(M, x.reshape(6, 1))).reshape(-1)
            worst = max(worst, rel(g, want, float(np.linalg.norm(M) * np.linalg.norm(x))))
    ctx.judge('transform', ok and worst <= TOL, dict(sig, kind='value_or_class_wrong', got=type(r).__name__),
              lambda: 'SE3 * %s = %s %s: differs from %s x by rel %.3g' % (c, type(r).__name__, core.short(getattr(r, 'data', r), 200), 'Ad' if c in MOTION else 'Ad^T', worst))
    ctx.cell('transform', c, len(xs))
    if np.linalg.norm(T[:3, 3]) > 0:
        ctx.nontrivial('transform', c, [float('%.9g' % t) for t in np.r_[T.reshape(-1), np.concatenate(xs)]])


def run_cross_history(ctx, p):
    """cross product, change the object's value through the list interface, cross product again"""
    sm = S()
    v1, v2, o = (np.asarray(p[k], float) for k in ('v1', 'v2', 'o'))
    how, cr = p['how'], p['right']
    sig = dict(api='cross_after_update', how=how, right=cr)
    try:
        x, y = mk('SpatialVelocity', [v1]), mk(cr, [o])
        x.cross(y)
        if how == 'setitem':
            x[0] = mk('SpatialVelocity', [v2])
        elif how == 'pop_append':
            x.append(mk('SpatialVelocity', [v2]))
            x.pop(0)
        elif how == 'insert_pop':
            x.insert(0, mk('SpatialVelocity', [v2]))
            x.pop()
        else:       # in-place write into the stored array
            x.A[:] = v2
        r = x.cross(y)
    except Exception as e:
        ctx.bad('cross', dict(sig, kind='raised', exc=type(e).__name__, where=_where(e)), 'cross after %s raised %r' % (how, e))
        return
    M = ref.crm(v2) if cr in MOTION else ref.crf(v2)
    want = ref.f64(ref.mm(M, o.reshape(6, 1))).reshape(-1)
    d = rel(r.data[0], want, float(np.linalg.norm(v2) * np.linalg.norm(o)))
    ctx.judge('cross', d <= TOL, dict(sig, kind='stale_value_used'),
              lambda: 'after %s the cross product uses a stale value: got %s, expected %s (v1=%s v2=%s)' % (how, r.data[0], want, v1, v2))
    ctx.cell('cross_history', how, cr)
    ctx.nontrivial('cross_history', how, cr, [float('%.9g' % t) for t in np.r_[v1, v2, o]])


def run_cross_multi(ctx, p):
    """cross products on objects holding several values: 1 x M, M x 1 and M x M combine value by value (the lone value is reused);
    the right operand may be any motion vector (velocity or acceleration) or any force vector"""
    sm = S()
    cl, cr = p['left'], p['right']
    vs, os_ = [np.asarray(a, float) for a in p['vs']], [np.asarray(a, float) for a in p['os']]
    m, n = len(vs), len(os_)
    sig = dict(api='cross', left=cl, right=cr, via=p['via'], lens='%sx%s' % ('1' if m == 1 else 'M', '1' if n == 1 else 'M'))
    try:
        x, y = mk(cl, vs), mk(cr, os_)
        r = (x @ y) if p['via'] == 'matmul' else x.cross(y)
    except Exception as e:
        ctx.bad('cross', dict(sig, kind='raised', exc=type(e).__name__, where=_where(e)), '%s(%d values) x %s(%d values) raised %r' % (cl, m, cr, n, e))
        return
    k = max(m, n)
    wcls = 'SpatialAcceleration' if cr in MOTION else 'SpatialForce'
    ok = type(r).__name__ == wcls and len(r.data) == k
    worst = 0.0
    if ok:
        for i in range(k):
            v, o = vs[i if m > 1 else 0], os_[i if n > 1 else 0]
            M = ref.crm(v) if cr in MOTION else ref.crf(v)
            want = ref.f64(ref.mm(M, o.reshape(6, 1))).reshape(-1)
            worst = max(worst, rel(r.data[i], want, float(np.linalg.norm(v) * np.linalg.norm(o))))
    ctx.judge('cross', ok and worst <= TOL, dict(sig, kind='value_or_class_wrong', got=type(r).__name__),
              lambda: '%s(%d values) x %s(%d values) gives %s of length %d, worst relative error %.3g' % (cl, m, cr, n, type(r).__name__, len(getattr(r, 'data', [])), worst))
    if ok and cr not in MOTION and hasattr(r, 'dot'):
        # the duality value by value: (v x* f_i) . m = -f_i . (v x m) for one motion vector m (dot() of a force object holding
        # several values gives one number per value)
        mv = np.asarray(p.get('m', vs[0][::-1]), float)
        try:
            got = np.asarray(r.dot(mv), dtype=np.float64).reshape(-1)
            want = np.array([float(np.dot(r.data[i], mv)) for i in range(k)])
            okd = got.shape == want.shape and np.all(np.abs(got - want) <= TOL * max(1e-300, float(np.max(np.abs(want)))) + 0 * want)
        except Exception as e:
            okd, got, want = False, repr(e), None
        ctx.judge('cross', okd, dict(sig, kind='dot_of_sequence_wrong'), lambda: '(%s x %s).dot(m) on %d values gives %s, value by value %s' % (cl, cr, k, got, want))
    ctx.cell('cross_multi', cl, cr, p['via'], sig['lens'])
    ctx.nontrivial('cross_multi', cl, cr, m, n, [float('%.9g' % t) for t in np.r_[vs[0], os_[0]]])


RUNNERS = {'cross_multi': run_cross_multi, 'cross_history': run_cross_history, 'arith': run_arith, 'guard': run_guard, 'cross': run_cross, 'inertia': run_inertia, 'transform': run_transform}


def REACH():
    sm = S()
    V, M6, SI = sm.spatialvector.SpatialVector.__dict__, sm.spatialvector.SpatialM6.__dict__, sm.SpatialInertia.__dict__
    return [V['__add__'], V['__sub__'], V['__neg__'], V['__rmul__'], M6['cross'], sm.SpatialVelocity.__dict__['__matmul__'],
            SI['__init__'], SI['__add__'], SI['__mul__']]


def run(ctx):
    rng = ctx.rng
    for _ in range(ctx.scale(5500, 90000)):
        c = SV[rng.integers(4)]
        m = 1 if rng.random() < 0.6 else int(rng.integers(2, 8))
        drive(RUNNERS, ctx, 'arith', dict(cls=c, op=['add', 'sub', 'neg'][rng.integers(3)], A=[vec6(rng) for _ in range(m)], B=[vec6(rng) for _ in range(m)]))
        if rng.random() < 0.15:
            m2 = int(rng.integers(2, 8))
            drive(RUNNERS, ctx, 'arith', dict(cls=c, op=['iadd_shared', 'isub_shared'][rng.integers(2)], A=[vec6(rng) for _ in range(m2)], B=[vec6(rng) for _ in range(m2)],
                                              **({'form': 'matrix'} if rng.random() < 0.5 else {})))
        if rng.random() < 0.2:
            drive(RUNNERS, ctx, 'arith', dict(cls=c, op=['add', 'sub', 'neg'][rng.integers(3)], form='matrix', A=[vec6(rng) for _ in range(m)], B=[vec6(rng) for _ in range(m)]))
        if rng.random() < 0.15:      # whole numbers held in a narrow / unsigned integer array: the sum, difference or negative may not fit the type
            ft = ['uint8', 'int8'][rng.integers(2)]
            lo_, hi_ = (0, 256) if ft == 'uint8' else (-127, 128)
            drive(RUNNERS, ctx, 'arith', dict(cls=c, op=['add', 'sub', 'neg'][rng.integers(3)], form=ft, A=[[int(t) for t in rng.integers(lo_, hi_, size=6)] for _ in range(m)],
                                              B=[[int(t) for t in rng.integers(lo_, hi_, size=6)] for _ in range(m)]))
        if rng.random() < 0.1:       # whole multiples of 32 up to 64000 held in half precision (largest finite value 65504): the sum may not fit
            ft = ['float16', 'float16_list'][rng.integers(2)]
            drive(RUNNERS, ctx, 'arith', dict(cls=c, op=['add', 'sub', 'neg'][rng.integers(3)], form=ft, A=[[float(32 * t) for t in rng.integers(-2000, 2001, size=6)] for _ in range(m)],
                                              B=[[float(32 * t) for t in rng.integers(-2000, 2001, size=6)] for _ in range(m)]))
    gi = 0
    for c1, c2 in itertools.product(SV, SV):
        for op in ('add', 'sub'):
            for la, lb in ((1, 1), (2, 2), (1, 3), (3, 1), (2, 3)):
                if c1 == c2 and la == lb:
                    continue
                for _ in range(6 if ctx.tier == 'quick' else 60):
                    gi += 1
                    if not ctx.mine(gi):
                        continue
                    drive(RUNNERS, ctx, 'guard', dict(c1=c1, c2=c2, op=op, A=[vec6(rng) for _ in range(la)], B=[vec6(rng) for _ in range(lb)]))
    for _ in range(ctx.scale(2200, 40000)):
        left = MOTION[rng.integers(2)] if rng.random() < 0.3 else 'SpatialVelocity'
        right = ['SpatialVelocity', 'SpatialForce', 'SpatialMomentum'][rng.integers(3)]
        via = 'matmul' if (left == 'SpatialVelocity' and rng.random() < 0.5) else 'cross'
        p = dict(left=left, right=right, v=vec6(rng), o=vec6(rng), via=via, m=vec6(rng))
        if rng.random() < 0.1:       # coincidences: the other operand holds the very same six numbers (or their negative, or m does)
            k_ = rng.integers(3)
            if k_ == 0:
                p['o'] = p['v'].copy()
            elif k_ == 1:
                p['o'] = -p['v']
            else:
                p['m'] = p['v'].copy()
        if rng.random() < 0.25:      # structured operands: pure translation / pure rotation (one half exactly zero), a single component
            for key in ('v', 'o'):
                r_ = rng.random()
                if r_ < 0.3:
                    p[key] = np.r_[np.zeros(3), p[key][3:]]
                elif r_ < 0.6:
                    p[key] = np.r_[p[key][:3], np.zeros(3)]
                elif r_ < 0.75:
                    e_ = np.zeros(6)
                    e_[rng.integers(6)] = p[key][0]
                    p[key] = e_
        if rng.random() < 0.3:       # integer-valued data supplied as integers on either side
            FORMS6 = ['float', 'int_array', 'int_list', 'list']
            p['lform'], p['rform'] = FORMS6[rng.integers(4)], FORMS6[rng.integers(4)]
            if p['lform'].startswith('int'):
                p['v'] = rng.integers(-9, 10, size=6).astype(float) * 10.0 ** int(rng.integers(0, 3))
            if p['rform'].startswith('int'):
                p['o'] = rng.integers(-9, 10, size=6).astype(float) * 10.0 ** int(rng.integers(0, 3))
        drive(RUNNERS, ctx, 'cross', p)
        if ctx.ncases % 999 == 1:
            ctx.sample(dict(case='cross', **p), limit=4)
    for _ in range(ctx.scale(600, 10000)):
        right = SV[rng.integers(4)]                  # velocity, acceleration, force, momentum
        m, n = [(1, 1), (1, 3), (3, 1), (2, 2), (4, 4)][rng.integers(5)]
        via = 'matmul' if rng.random() < 0.4 else 'cross'
        drive(RUNNERS, ctx, 'cross_multi', dict(left='SpatialVelocity', right=right, via=via, vs=[vec6(rng) for _ in range(m)], os=[vec6(rng) for _ in range(n)]))
    for _ in range(ctx.scale(400, 6000)):
        drive(RUNNERS, ctx, 'cross_history', dict(v1=vec6(rng), v2=vec6(rng), o=vec6(rng), how=['setitem', 'pop_append', 'insert_pop', 'write'][rng.integers(4)],
                                                  right=['SpatialVelocity', 'SpatialForce', 'SpatialMomentum'][rng.integers(3)]))
    for _ in range(ctx.scale(600, 10000)):
        def body():
            A = rng.normal(size=(3, 3)) * gen.logu(rng, 1e-2, 1e2)
            return gen.logu(rng, 1e-3, 1e3), (gen.vec(rng, 3, 1e-3, 1e2) if rng.random() < 0.9 else np.zeros(3)), A @ A.T + 1e-6 * np.eye(3)
        m, c, I = body()
        m2, c2, I2 = body()
        if rng.random() < 0.25:      # a slender link: centre of mass far along one frame axis, barely off it, small own inertia
            k_ = int(rng.integers(3))
            c = gen.vec(rng, 3, 1e-4, 1e-2)
            c[k_] = gen.sign(rng) * gen.logu(rng, 1e1, 1e4)
            I = I * 1e-14 + 1e-12 * np.eye(3)
        drive(RUNNERS, ctx, 'inertia', dict(m=m, c=c, I=I, m2=m2, c2=c2, I2=I2, x=vec6(rng), multi=[[2, 6], [3, 6], [6], []][rng.integers(4)]))
    for _ in range(ctx.scale(1500, 25000)):
        c = SV[rng.integers(4)]
        nx = 1 if rng.random() < 0.6 else int(rng.integers(2, 8))
        drive(RUNNERS, ctx, 'transform', dict(cls=c, T=gen.se3(rng, hi=1e3), x=[vec6(rng) for _ in range(nx)]))
