"""C08 -- operators are type-safe: only documented operand pairs produce a result.

The expression boundary (operator.mul/truediv/add/sub/pow/matmul/eq/ne/xor/or_) is driven
exhaustively over the finite table  16 classes x 16 classes x operators x {single, multi}
valued operands (plus scalar operands for the documented-result part); every cell is compared
with the specification table `expected()` transcribed from the operator tables in the
docstrings and from the statement.  A per-dunder tap records which method answered (diagnosis).
Must-raise is asserted only for two *different* library classes not in the table.
"""
import itertools
import math
import operator

import numpy as np

from .. import core, gen, ref
from ..core import drive
from ..instrument import hook_method

PROP = 'C08'
SHARDS = {'quick': 4, 'thorough': 8}
EXHAUSTIVE = True
RULE = ('exhaustive over the table: every ordered pair of the 16 public classes x {*, /, +, -, **, @} x operand lengths '
        '{1,M}x{1,M} (must-raise / documented-class part), same-class pairs additionally under ==, !=, ^, |, and class x '
        'scalar cells; several random value draws per cell (more in thorough). distinct = table cell (left class, right '
        'class, operator, lengths); non-trivial = both operands non-identity (all drawn operands are)')
ASSUMPTIONS = ['specification = operator tables in the docstrings + the pairs named in the statement; undocumented same-class '
               'operators (inherited list concatenation / repetition, ordering), ndarray-op-object, DualQuaternion/UnitDualQuaternion '
               'mixes, Twist3*spatial-vector, spatial-vector*SpatialInertia and velocity @ force are recorded, not judged']
MIN_EVALS = {'table': {'quick': 4000, 'thorough': 12000}}

POSES = ['SO2', 'SE2', 'SO3', 'SE3']
SV = ['SpatialVelocity', 'SpatialAcceleration', 'SpatialForce', 'SpatialMomentum']
CLASSES = POSES + ['Quaternion', 'UnitQuaternion', 'Twist2', 'Twist3', 'Plucker'] + SV + ['SpatialInertia', 'DualQuaternion', 'UnitDualQuaternion']
MULTI_OK = set(POSES + ['Quaternion', 'UnitQuaternion', 'Twist2', 'Twist3', 'Plucker'] + SV)
OPS = {'mul': operator.mul, 'truediv': operator.truediv, 'add': operator.add, 'sub': operator.sub, 'pow': operator.pow,
       'matmul': operator.matmul, 'eq': operator.eq, 'ne': operator.ne, 'xor': operator.xor, 'or': operator.or_}
ARITH = ['mul', 'truediv', 'add', 'sub', 'pow', 'matmul']
# augmented forms: `a op= b` is the same operator; it must answer exactly as `a op b` does (same class / same refusal)
AUG = {'imul': 'mul', 'itruediv': 'truediv', 'iadd': 'add', 'isub': 'sub', 'ipow': 'pow', 'imatmul': 'matmul'}
OPS.update({'imul': operator.imul, 'itruediv': operator.itruediv, 'iadd': operator.iadd, 'isub': operator.isub, 'ipow': operator.ipow,
            'imatmul': operator.imatmul})


def S():
    import spatialmath
    return spatialmath


# ----------------------------------------------------------------------------- specification
def expected(L, R, op):
    """-> ('raise',) | ('class', name) | ('array',) | ('float',) | ('bool',) | ('unjudged', why)"""
    if L == R:
        c = L
        if c in POSES:
            if op in ('mul', 'truediv'):
                return ('class', c)
            if op in ('add', 'sub'):
                return ('array',)
            if op in ('eq', 'ne'):
                return ('bool',)
        if c == 'Quaternion':
            if op in ('mul', 'add', 'sub'):
                return ('class', 'Quaternion')
            if op in ('eq', 'ne'):
                return ('bool',)
        if c == 'UnitQuaternion':
            if op in ('mul', 'truediv'):
                return ('class', 'UnitQuaternion')
            if op in ('add', 'sub'):
                return ('class', 'Quaternion')
            if op in ('eq', 'ne'):
                return ('bool',)
        if c in ('Twist2', 'Twist3'):
            if op == 'mul':
                return ('class', c)
            if op in ('eq', 'ne'):
                return ('bool',)
        if c == 'Plucker':
            if op == 'mul':
                return ('float',)
            if op in ('eq', 'ne', 'xor', 'or'):
                return ('bool',)
        if c in SV and op in ('add', 'sub'):
            return ('class', c)
        if c == 'SpatialInertia' and op == 'add':
            return ('class', 'SpatialInertia')
        if c == 'DualQuaternion' and op in ('mul', 'add', 'sub'):
            return ('class', 'DualQuaternion')
        if c == 'UnitDualQuaternion' and op == 'mul':
            return ('class', 'UnitDualQuaternion')
        if op in ('eq', 'ne'):
            return ('bool',)        # statement: == / != between operands of one class return booleans without raising
        return ('unjudged', 'same-class operator the documentation does not mention')
    if op not in ARITH:
        return ('unjudged', 'comparison between different classes')
    pair = {L, R}
    if pair == {'Quaternion', 'UnitQuaternion'}:
        if op in ('mul', 'add', 'sub'):
            return ('class', 'Quaternion')
        return ('raise',)
    if pair == {'DualQuaternion', 'UnitDualQuaternion'}:
        # DualQuaternion.__mul__ docstring: "If both are unit dual quaternions, the product will be a unit dual quaternion"
        if op in ('mul', 'add', 'sub'):
            return ('class', 'DualQuaternion')
        return ('unjudged', 'DualQuaternion with its subclass under an operator the documentation does not mention')
    if (L, R) in (('Twist3', 'SE3'), ('Twist2', 'SE2')) and op == 'mul':
        return ('class', R)
    if (L, R) == ('SE3', 'Plucker') and op == 'mul':
        return ('class', 'Plucker')
    if L == 'SE3' and R in SV and op == 'mul':
        return ('class', R)
    if L == 'Twist3' and R in SV and op == 'mul':
        return ('unjudged', 'docstring-only pair')
    if L == 'SpatialInertia' and op == 'mul' and R == 'SpatialAcceleration':
        return ('class', 'SpatialForce')
    if L == 'SpatialInertia' and op == 'mul' and R == 'SpatialVelocity':
        return ('class', 'SpatialMomentum')
    if R == 'SpatialInertia' and op == 'mul' and L in ('SpatialAcceleration', 'SpatialVelocity'):
        return ('unjudged', 'docstring-only pair (a * I)')
    if L == 'SpatialVelocity' and op == 'matmul' and R in SV:
        # v @ x is the spatial cross product of a velocity with any motion or force vector (SpatialM6.cross docstring)
        return ('unjudged', 'cross product, values decided by C20')
    return ('raise',)


def expected_scalar(c, op, side):
    """class op scalar (side='R': scalar on the right, 'L': scalar on the left)"""
    if c in POSES:
        if op == 'pow' and side == 'R':
            return ('class', c)          # integer power
        if op in ('mul', 'add', 'sub'):
            return ('array',)
        if op == 'truediv' and side == 'R':
            return ('array',)
    if c == 'Quaternion':
        if op == 'mul':
            return ('class', 'Quaternion')
        if op == 'pow' and side == 'R':
            return ('class', 'Quaternion')
    if c == 'UnitQuaternion':
        if op == 'mul' and side == 'R':
            return ('class', 'Quaternion')
        if op == 'truediv' and side == 'R':
            return ('class', 'Quaternion')
        if op == 'pow' and side == 'R':
            return ('class', 'UnitQuaternion')
    if c in ('Twist2', 'Twist3') and op == 'mul':
        return ('class', c)
    return ('unjudged', 'scalar cell not documented')


# ----------------------------------------------------------------------------- operands
def operand(rng, c, multi):
    sm = S()
    n = (multi if multi > 1 else 2) if multi else 1        # (multi may be a count: operand(rng, c, 16) builds sixteen values)

    def one():
        if c == 'SO2':
            return gen.so2(rng)
        if c == 'SE2':
            return gen.se2(rng, hi=1e3)
        if c == 'SO3':
            return gen.so3(rng)
        if c == 'SE3':
            return gen.se3(rng, hi=1e3)
        if c == 'Quaternion':
            return gen.vec(rng, 4, 1e-2, 1e2)
        if c == 'UnitQuaternion':
            return gen.unit_quat(rng)
        if c == 'Twist2':
            return np.r_[gen.vec(rng, 2, 1e-2, 1e2), rng.uniform(-3, 3)]
        if c == 'Twist3':
            return np.r_[gen.vec(rng, 3, 1e-2, 1e2), gen.unit_axis(rng) * rng.uniform(0.1, 3)]
        return gen.vec(rng, 6, 1e-2, 1e2)
    return [one() for _ in range(n)]


def build(c, arrs, extra=None):
    """library object of class c from raw arrays (JSON-able description)"""
    sm = S()
    C = getattr(sm, c)
    arrs = [np.asarray(a, dtype=np.float64) for a in arrs]
    if len(arrs) == 0:
        return C.Empty()
    if c in POSES + ['Quaternion', 'UnitQuaternion', 'Twist2', 'Twist3']:
        return C(arrs) if len(arrs) > 1 else C(arrs[0])
    if c == 'Plucker':
        objs = [sm.Plucker.PQ(a[:3], a[3:]) for a in arrs]
        if len(objs) == 1:
            return objs[0]
        out = sm.Plucker(objs[0].A)
        for o in objs[1:]:
            out.append(o)
        return out
    if c in SV:
        return C(arrs[0]) if len(arrs) == 1 else C(np.column_stack(arrs))
    if c == 'SpatialInertia':
        a = arrs[0]
        return C(m=abs(a[0]) + 0.1, r=a[1:4])
    if c == 'DualQuaternion':
        a = arrs[0]
        # a general dual quaternion may well have a real part that happens to be stored as a UnitQuaternion (e.g. Pure())
        if a[0] > 0 and a[1] > 0:
            return C.Pure(a[:3])
        real = sm.UnitQuaternion(np.r_[a[:3], 1.0]) if a[0] > 0 else sm.Quaternion(np.r_[a[:3], 1.0])
        return C(real, sm.Quaternion(np.r_[a[3:], 2.0]))
    if c == 'UnitDualQuaternion':
        a = arrs[0]
        return C(sm.SE3(ref.rt2tr(ref.rot(a[3:], 0.7), a[:3])))
    raise ValueError(c)


def snapshot_data(x):
    d = getattr(x, 'data', None)
    if isinstance(d, list):
        return [np.array(v, copy=True) if isinstance(v, np.ndarray) else v for v in d]
    return None


_tap = []


def tap(cname, dunder):
    def on_return(args, kw, res, st):
        if len(_tap) < 50:
            _tap.append('%s.%s(%s) -> %s' % (cname, dunder, type(args[1]).__name__ if len(args) > 1 else '',
                                            'NotImplemented' if res is NotImplemented else type(res).__name__))

    def on_raise(args, kw, exc, st):
        if len(_tap) < 50:
            _tap.append('%s.%s(%s) raised %s' % (cname, dunder, type(args[1]).__name__ if len(args) > 1 else '', type(exc).__name__))
    return on_return, on_raise


def setup(ctx):
    sm = S()
    n = 0
    seen = set()
    for c in CLASSES:
        for K in getattr(sm, c).__mro__:
            if not K.__module__.startswith('spatialmath'):
                continue
            for d in ('__mul__', '__rmul__', '__truediv__', '__add__', '__radd__', '__sub__', '__rsub__', '__pow__',
                      '__matmul__', '__eq__', '__ne__', '__xor__', '__or__'):
                if d in K.__dict__ and (K, d) not in seen and callable(K.__dict__[d]):
                    seen.add((K, d))
                    r, e = tap(K.__name__, d)
                    hook_method(K, d, r, e, mid='C08.tap.%s.%s' % (K.__name__, d))
                    n += 1
    ctx.extra['dunders_tapped'] = n


def describe(v):
    if v is None:
        return 'None'
    if v is NotImplemented:
        return 'NotImplemented'
    if isinstance(v, np.ndarray):
        return 'ndarray%s' % (v.shape,)
    if isinstance(v, list):
        return 'list[%d] of %s' % (len(v), type(v[0]).__name__ if v else '-')
    if isinstance(v, (bool, np.bool_)):
        return 'bool'
    if isinstance(v, (float, np.floating, int, np.integer)):
        return 'number'
    if isinstance(v, type):
        return 'class ' + v.__name__
    return type(v).__name__


def is_bool_result(v, n):
    if isinstance(v, (bool, np.bool_)):
        return True
    return isinstance(v, list) and all(isinstance(x, (bool, np.bool_)) for x in v)


def is_array_result(v):
    if isinstance(v, np.ndarray) and v.dtype != object:
        return True
    return isinstance(v, list) and len(v) > 0 and all(isinstance(x, np.ndarray) for x in v)


def run_cell(ctx, p):
    L, R, op = p['L'], p['R'], p['op']
    exp = tuple(p['exp'])
    aug = op in AUG
    del _tap[:]
    try:
        cast = {'bool': bool, 'int': int, 'float': float, 'float64': np.float64, 'int64': np.int64, 'list': lambda v: [float(x) for x in v],
                'tuple': lambda v: tuple(float(x) for x in v), 'ndarray': lambda v: np.asarray(v, dtype=np.float64)}
        a = build(L, p['a']) if L in CLASSES else cast[L](p['a'])
        b = build(R, p['b']) if R in CLASSES else cast[R](p['b'])
    except Exception as e:
        ctx.harness_errors.append('operand construction %s/%s failed: %r' % (L, R, e))
        return
    if p.get('sameobj'):
        b = a       # one and the same Python object on both sides (x op x, an alias)
    la = 'M' if (L in CLASSES and hasattr(a, 'data') and isinstance(a.data, list) and len(a.data) > 1) else '1'
    lb = 'M' if (R in CLASSES and hasattr(b, 'data') and isinstance(b.data, list) and len(b.data) > 1) else '1'
    sig = dict(left=L, right=R, op=op, lens=la + 'x' + lb)
    if L in CLASSES and R in CLASSES and p['a'] == [] and p['b'] == []:
        sig['lens'] = '0x0'
    if p.get('sameobj'):
        sig['sameobj'] = True
    if p.get('unequal'):
        sig['lens'] = 'unequal' if len(getattr(a, 'data', [])) <= 3 else 'unequal:long'
    what0 = '%s %s %s' % (L, op, R)
    cellkey = (L, R, op, la + lb, bool(p.get('sameobj')), bool(p.get('unequal')))
    if L == R and L in SV and op in ('add', 'sub', 'iadd', 'isub') and la != lb:
        exp = ('raise',)            # spatial vectors of unequal length must be rejected (C20)
    if (L in ('SpatialInertia',) or (L == 'SE3' and (R in SV or R == 'Plucker'))) and (la == 'M' or lb == 'M') and exp[0] == 'class':
        exp = ('unjudged', 'sequence operands of this pair are not documented')
    if exp[0] == 'notnone':
        # an operand holding no value: whatever the library decides (an empty result or an exception), the answer is never None
        try:
            v = OPS[op](a, b)
        except Exception:
            ctx.ok('table')
            ctx.cell('judged', L, R, op, 'empty:raises')
            return
        ctx.judge('table', v is not None, dict(sig, kind='returned_None', lens='empty operand'), lambda: '%s with an empty operand returned None' % what0)
        ctx.cell('judged', L, R, op, 'empty:' + describe(v))
        return
    if exp[0] == 'unjudged':
        try:
            v = OPS[op](a, b)
            out = describe(v)
        except Exception as e:
            out = 'raises ' + type(e).__name__
        ctx.ood('table')
        ctx.cell('recorded', L, R, op, out)
        return
    before = snapshot_data(a) if aug else None
    try:
        v = OPS[op](a, b)
        raised = None
    except Exception as e:
        v, raised = None, e
    what = lambda: '%s(%s) %s %s(%s)' % (L, la, op, R, lb)
    if exp[0] == 'raise':
        ok = raised is not None
        ctx.judge('table', ok, dict(sig, kind='returned_instead_of_raising', got=describe(v)),
                  lambda: '%s must raise but returned %s = %s   [dispatch: %s]' % (what(), describe(v), core.short(getattr(v, 'data', v), 200), '; '.join(_tap)))
        if aug and before is not None:
            now = snapshot_data(a)
            same_ = now is not None and len(now) == len(before) and all(isinstance(x, np.ndarray) and x.shape == y.shape and np.array_equal(x, y) for x, y in zip(now, before))
            ctx.judge('table', same_, dict(sig, kind='left_operand_changed_by_refused_operation'),
                      lambda: '%s is refused / undefined, yet the left operand now holds %s (before: %s)' % (what(), core.short(now, 200), core.short(before, 200)))
    elif raised is not None:
        ctx.bad('table', dict(sig, kind='documented_pair_raised', exc=type(raised).__name__),
                '%s is documented (%s) but raised %r   [dispatch: %s]' % (what(), exp, raised, '; '.join(_tap)))
    elif exp[0] == 'class':
        ok = type(v).__name__ == exp[1]
        if ok and hasattr(v, 'data') and isinstance(v.data, list):
            want_len = 2 if 'M' in (la, lb) else 1
            ok = all(isinstance(x, np.ndarray) for x in v.data) and len(v.data) == want_len
        ctx.judge('table', ok, dict(sig, kind='wrong_result_class', got=describe(v), want=exp[1]),
                  lambda: '%s should give %s, got %s = %s' % (what(), exp[1], describe(v), core.short(getattr(v, 'data', v), 200)))
    elif exp[0] == 'array':
        ctx.judge('table', is_array_result(v), dict(sig, kind='wrong_result_class', got=describe(v), want='ndarray'),
                  lambda: '%s should give plain array(s), got %s' % (what(), describe(v)))
    elif exp[0] == 'float':
        ctx.judge('table', isinstance(v, (float, np.floating)), dict(sig, kind='wrong_result_class', got=describe(v), want='float'),
                  lambda: '%s should give a float, got %s' % (what(), describe(v)))
    elif exp[0] == 'bool':
        # "booleans (a list for sequences)": one bool for single values, one per value when an operand holds several
        if 'M' in (la, lb) and L == 'Plucker':
            # Plucker ==, !=, |, ^ are documented for single lines ("Test if two lines are ..." -> bool); what they do on an
            # object holding several lines is not documented: recorded, not judged
            ctx.ood('table')
            ctx.cell('recorded', L, R, op, describe(v))
            return
        if 'M' in (la, lb):
            ok = isinstance(v, list) and len(v) == 2 and all(isinstance(x, (bool, np.bool_)) for x in v)
            want = 'list of 2 bool'
        else:
            ok = isinstance(v, (bool, np.bool_))
            want = 'bool'
        ctx.judge('table', ok, dict(sig, kind='wrong_result_class', got=describe(v), want=want),
                  lambda: '%s should give %s, got %s = %s' % (what(), want, describe(v), core.short(v, 100)))
    ctx.cell('judged', L, R, op, la + lb)
    ctx.nontrivial(*cellkey)


def run_scalar_values(ctx, p):
    """a pairing is defined by the TYPES of its operands: whether `number op X` is answered or refused, and with which class, does
    not depend on the value of the number (0 is what sum() starts from, 1 is the neutral factor)"""
    c, op, side = p['cls'], p['op'], p['side']
    sig = dict(left=c if side == 'R' else 'number', right='number' if side == 'R' else c, op=op)
    outcomes = {}
    for s in (2, 0, 1, -1, 2.5, 0.0, 1.0, -0.0, True, False):
        try:
            x = build(c, p['obj'])
            v = OPS[op](x, s) if side == 'R' else OPS[op](s, x)
            outcomes[repr(s)] = describe(v)
        except Exception as e:
            outcomes[repr(s)] = 'raises'
    kinds = set(outcomes.values())
    ctx.judge('table', len(kinds) == 1, dict(sig, kind='answer_depends_on_the_value_of_the_number'),
              lambda: '%s %s number (side %s): %s' % (c, op, side, outcomes))
    ctx.cell('scalar_values', c, op, side)
    ctx.nontrivial('scalar_values', c, op, side, len(p['obj']))


def run_mixed_eq(ctx, p):
    """== / != on pose objects whose values are of mixed kind (floating point and symbolic, in any order): one boolean per value,
    no exception; an object equals itself"""
    import sympy
    sm = S()
    c, order, other = p['cls'], p['order'], p['other']
    th = sympy.Symbol('theta')
    C = getattr(sm, c)
    one = {'SO3': lambda a: sm.SO3.Rx(a), 'SE3': lambda a: sm.SE3.Rx(a), 'SO2': lambda a: sm.SO2(a), 'SE2': lambda a: sm.SE2(1, 2, a)}[c]
    sig = dict(left=c, right=c, op='eq/ne', lens='mixed kinds')
    try:
        X = C([one(th) if k == 's' else one(0.1 * (i + 1)) for i, k in enumerate(order)])
        Y = {'self': X, 'single': one(0.1), 'numeric': C([one(0.1 * (i + 1)) for i in range(len(order))]),
             'symbolic': C([one(th) for _ in order])}[other]
    except Exception as e:
        ctx.harness_errors.append('mixed-kind operand construction failed: %r' % e)
        return
    for a, b, nm in ((X, Y, 'X op Y'), (Y, X, 'Y op X')):
        for op in ('eq', 'ne'):
            try:
                v = OPS[op](a, b)
                ok = isinstance(v, list) and len(v) == len(order) and all(isinstance(x, (bool, np.bool_)) for x in v)
                if ok and other == 'self':
                    ok = all(bool(x) == (op == 'eq') for x in v)
                if ok and other in ('single', 'numeric'):
                    # the floating point values are compared by value
                    ok = all(bool(x) == ((op == 'eq') == (i == 0 or other == 'numeric')) for i, (x, k) in enumerate(zip(v, order)) if k == 'n')
                got = core.short(v, 100)
            except Exception as e:
                ok, got = False, 'raised %r' % e
            ctx.judge('table', ok, dict(sig, kind='mixed_kind_comparison_wrong', other=other),
                      lambda: '%s %s (%s) with X holding values of kinds %s and Y = %s gave %s' % (c, op, nm, order, other, got))
    ctx.cell('mixed_eq', c, order, other)


RUNNERS = {'cell': run_cell, 'scalar_values': run_scalar_values, 'mixed_eq': run_mixed_eq}


def REACH():
    sm = S()
    P = sm.super_pose.SMPose.__dict__
    return [P['__mul__'], P['__rmul__'], P['__truediv__'], P['__add__'], P['__sub__'], P['__eq__'], P['__ne__'], P['_op2'],
            sm.Quaternion.__dict__['__mul__'], sm.Quaternion.__dict__['__add__'], sm.UnitQuaternion.__dict__['__mul__'],
            sm.UnitQuaternion.__dict__['__truediv__'], sm.Twist3.__dict__['__mul__'], sm.Twist2.__dict__['__mul__'],
            sm.Plucker.__dict__['__mul__'], sm.Plucker.__dict__['__rmul__'],
            sm.spatialvector.SpatialVector.__dict__['__add__'], sm.spatialvector.SpatialVector.__dict__['__rmul__'],
            sm.SpatialInertia.__dict__['__mul__'], sm.DualQuaternion.__dict__['__mul__']]


# ----------------------------------------------------------------------------- workload: the whole table
def run(ctx):
    rng = ctx.rng
    reps = 1 if ctx.tier == 'quick' else 24
    i = 0
    ALLOPS = ARITH + ['eq', 'ne', 'xor', 'or']
    for L in CLASSES:
        for R in CLASSES:
            for op in ALLOPS:
                exp = expected(L, R, op)
                if op not in ARITH and L != R:
                    continue
                for ml in ((False, True) if L in MULTI_OK else (False,)):
                    for mr in ((False, True) if R in MULTI_OK else (False,)):
                        i += 1
                        if not ctx.mine(i):
                            continue
                        for _ in range(reps):
                            a = operand(rng, L, ml)
                            b = operand(rng, R, mr)
                            drive(RUNNERS, ctx, 'cell', dict(L=L, R=R, op=op, a=a, b=b, exp=list(exp)))
                        if i % 397 == 0:
                            ctx.sample(dict(L=L, R=R, op=op, expected=list(exp), lens=[int(ml) + 1, int(mr) + 1]), limit=8)
    scalars = [2, 2.5, np.float64(0.5), np.int64(3), 0, 0.0, False]       # (0 + X is what sum() starts with: still not a documented pairing)
    for c in CLASSES:
        for op in ARITH:
            for side in ('R', 'L'):
                exp = expected_scalar(c, op, side)
                for ml in ((False, True) if c in MULTI_OK else (False,)):
                    if op in ('add', 'sub', 'mul'):
                        i += 1
                        if ctx.mine(i):
                            drive(RUNNERS, ctx, 'scalar_values', dict(cls=c, op=op, side=side, obj=operand(rng, c, ml)))
                    for s in scalars:
                        i += 1
                        if not ctx.mine(i):
                            continue
                        if side == 'L' and isinstance(s, np.generic):
                            e = ('unjudged', 'numpy scalar on the left: answered by NumPy before the library is consulted')
                        elif op == 'pow' and not isinstance(s, (int, np.integer)):
                            e = ('unjudged', 'non-integer power')
                        else:
                            e = exp
                        obj = operand(rng, c, ml)
                        sv = s.item() if isinstance(s, np.generic) and False else s
                        sname = type(s).__name__
                        if side == 'R':
                            p = dict(L=c, R=sname, op=op, a=obj, b=s, exp=list(e))
                        else:
                            p = dict(L=sname, R=c, op=op, a=s, b=obj, exp=list(e))
                        drive(RUNNERS, ctx, 'cell', p)
    # augmented operators: same table as the binary operator
    for L in CLASSES:
        for R in CLASSES:
            for aop, bop in AUG.items():
                exp = expected(L, R, bop)
                for ml in ((False, True) if L in MULTI_OK else (False,)):
                    for mr in ((False, True) if R in MULTI_OK else (False,)):
                        i += 1
                        if not ctx.mine(i):
                            continue
                        for _ in range(reps):
                            drive(RUNNERS, ctx, 'cell', dict(L=L, R=R, op=aop, a=operand(rng, L, ml), b=operand(rng, R, mr), exp=list(exp)))
    for c in CLASSES:
        for aop, bop in AUG.items():
            exp = expected_scalar(c, bop, 'R')
            for ml in ((False, True) if c in MULTI_OK else (False,)):
                for s_ in (2, 2.5):
                    i += 1
                    if not ctx.mine(i):
                        continue
                    e = ('unjudged', 'non-integer power') if bop == 'pow' and not isinstance(s_, int) else exp
                    drive(RUNNERS, ctx, 'cell', dict(L=c, R=type(s_).__name__, op=aop, a=operand(rng, c, ml), b=s_, exp=list(e)))
    # one object on both sides; and same-class sequences of different lengths (2 and 3 values): no element-wise pairing exists, so
    # the operation is refused -- never None, never a single identity value
    for c in CLASSES:
        for op in ALLOPS + list(AUG):
            exp = expected(c, c, AUG.get(op, op))
            for ml in ((False, True) if c in MULTI_OK else (False,)):
                i += 1
                if not ctx.mine(i):
                    continue
                if not (op in AUG and exp[0] != 'raise'):       # (x op= x on a documented pair rebinds / edits x itself: the binary form covers it)
                    drive(RUNNERS, ctx, 'cell', dict(L=c, R=c, op=op, a=operand(rng, c, ml), b=operand(rng, c, ml), exp=list(exp), sameobj=True))
            if c in MULTI_OK and c in POSES + ['Quaternion', 'UnitQuaternion', 'Twist2', 'Twist3'] and exp[0] != 'unjudged':
                i += 1
                if ctx.mine(i):
                    a3 = operand(rng, c, True) + operand(rng, c, False)
                    for a_, b_ in ((operand(rng, c, True), a3), (a3, operand(rng, c, True)), (operand(rng, c, 128), operand(rng, c, 129)),
                                   (operand(rng, c, 256), operand(rng, c, 300))):
                        drive(RUNNERS, ctx, 'cell', dict(L=c, R=c, op=op, a=a_, b=b_, exp=['raise'], unequal=True))
    for c in POSES:
        for order in ('ns', 'sn', 'nns', 'snn', 'nsn'):
            for other in ('self', 'single', 'numeric', 'symbolic'):
                i += 1
                if ctx.mine(i):
                    drive(RUNNERS, ctx, 'mixed_eq', dict(cls=c, order=order, other=other))
    # operands of two different classes that both hold no value: the pair is refused like any other pair of these classes
    # (with values it may be refused only because the shapes of the values happen to differ)
    for L_, R_ in itertools.permutations(POSES, 2):
        for op in ARITH:
            i += 1
            if ctx.mine(i):
                drive(RUNNERS, ctx, 'cell', dict(L=L_, R=R_, op=op, a=[], b=[], exp=['raise']))
    for L_, R_ in itertools.permutations([c_ for c_ in CLASSES if c_ in MULTI_OK and c_ not in POSES], 2):
        for op in ARITH:
            if expected(L_, R_, op)[0] != 'raise':
                continue
            i += 1
            if ctx.mine(i):
                drive(RUNNERS, ctx, 'cell', dict(L=L_, R=R_, op=op, a=[], b=[], exp=['raise']))
    # two different pose classes with many values on one or both sides (a batch path keyed on the shape of the values would not
    # tell an SE2 from an SO3: both are 3 x 3)
    for L_, R_ in itertools.permutations(POSES, 2):
        for op in ARITH:
            for nl, nr in ((16, 16), (16, False), (False, 17), (64, 64)):
                i += 1
                if ctx.mine(i):
                    drive(RUNNERS, ctx, 'cell', dict(L=L_, R=R_, op=op, a=operand(rng, L_, nl), b=operand(rng, R_, nr), exp=['raise']))
    # every refused pair of multi-valued classes again with objects of many values (a vectorised path taken above some length must
    # still look at the classes before it looks at the numbers)
    for L_, R_ in itertools.permutations([c_ for c_ in CLASSES if c_ in MULTI_OK], 2):
        if L_ in POSES and R_ in POSES:
            continue
        for op in ARITH:
            if expected(L_, R_, op)[0] != 'raise':
                continue
            for n_ in (16, 256, 300):
                i += 1
                if ctx.mine(i):
                    drive(RUNNERS, ctx, 'cell', dict(L=L_, R=R_, op=op, a=operand(rng, L_, n_), b=operand(rng, R_, n_), exp=['raise']))
    for L_, R_ in itertools.permutations(POSES, 2):
        for op in ARITH:
            for n_ in (256, 300):
                i += 1
                if ctx.mine(i):
                    drive(RUNNERS, ctx, 'cell', dict(L=L_, R=R_, op=op, a=operand(rng, L_, n_), b=operand(rng, R_, n_), exp=['raise']))
    # operands holding no value (Empty()): never None
    for c in POSES + ['Quaternion', 'UnitQuaternion', 'Twist2', 'Twist3']:
        d_ = 2 if c in ('SO2', 'SE2', 'Twist2') else 3
        for op in ARITH + ['eq', 'ne']:
            for side in ('L', 'R', 'LR', 'vec'):
                i += 1
                if not ctx.mine(i):
                    continue
                if side == 'vec':
                    if op != 'mul' or c in ('Quaternion', 'Twist2', 'Twist3'):
                        continue
                    drive(RUNNERS, ctx, 'cell', dict(L=c, R='list', op=op, a=[], b=[float(x) for x in gen.vec(rng, d_, 1e-1, 1e1)], exp=['notnone']))
                else:
                    drive(RUNNERS, ctx, 'cell', dict(L=c, R=c, op=op, a=[] if 'L' in side else operand(rng, c, False), b=[] if 'R' in side else operand(rng, c, False), exp=['notnone']))
    # a bare matrix on the right of a quaternion or twist is defined nowhere ("matrices with quaternions or twists"): must raise
    for c in ('Quaternion', 'UnitQuaternion', 'Twist2', 'Twist3'):
        for op in ARITH + list(AUG):
            for shape in ((3, 3), (4, 4), (2, 2), (6, 6)):
                for ml in (False, True):
                    i += 1
                    if not ctx.mine(i):
                        continue
                    if c == 'UnitQuaternion' and shape[0] == 3 and op in ('mul', 'imul'):
                        continue            # documented: a 3xN array on the right is a set of points to rotate
                    M = np.eye(shape[0]) + 0.1 * rng.normal(size=shape)
                    drive(RUNNERS, ctx, 'cell', dict(L=c, R='ndarray', op=op, a=operand(rng, c, ml), b=M, exp=['raise']))
    # a pose divided by (or raised to) an array is defined nowhere either -- scalar divisors only ("scalar * / on poses give
    # plain arrays"); the matrix that conforms to the pose's own shape is the interesting one (it is what + and - accept)
    for c in POSES:
        n_ = {'SO2': 2, 'SE2': 3, 'SO3': 3, 'SE3': 4}[c]
        for op in ('truediv', 'itruediv', 'pow', 'ipow'):
            for shape in ((n_, n_), (n_,), (n_ - 1,) if c in ('SE2', 'SE3') else (n_ + 1,), (n_, 2)):
                for ml in (False, True):
                    i += 1
                    if not ctx.mine(i):
                        continue
                    M = (np.eye(n_) + 0.1 * rng.normal(size=shape)) if shape == (n_, n_) else 1.0 + rng.random(size=shape)
                    drive(RUNNERS, ctx, 'cell', dict(L=c, R='ndarray', op=op, a=operand(rng, c, ml), b=M, exp=['raise']))
    # a pose holding several values times an array of points that conforms in its rows only (d x K with K different from the
    # number of values, K != 1): defined nowhere -- an exception, in particular never None
    for c in POSES:
        d_ = 2 if c in ('SO2', 'SE2') else 3
        for op in ('mul', 'imul'):
            for K in (3, 4, 5, 7):          # (operand() builds two values)
                i += 1
                if ctx.mine(i):
                    drive(RUNNERS, ctx, 'cell', dict(L=c, R='ndarray', op=op, a=operand(rng, c, True), b=1.0 + rng.random(size=(d_, K)), exp=['raise']))
    # a plain list / tuple on the LEFT of a library object is documented for no class: must raise
    for c in CLASSES:
        for op in ARITH:
            for kind in ('list', 'tuple'):
                for n in (2, 3, 4, 6):
                    for ml in ((False, True) if c in MULTI_OK else (False,)):
                        i += 1
                        if not ctx.mine(i):
                            continue
                        v = [float(x) for x in gen.vec(rng, n, 1e-1, 1e1)]
                        drive(RUNNERS, ctx, 'cell', dict(L=kind, R=c, op=op, a=v, b=operand(rng, c, ml), exp=['raise']))
    ctx.extra['table_cells_enumerated'] = i
