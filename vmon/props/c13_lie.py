"""C13 -- Lie-algebra maps, adjoint and differential motion are consistent.

Identity monitor on the real functions (skew, vex, skewa, vexa, cross, norm, normsq, colvec,
adjoint, tr2jac, delta2tr, tr2delta, SE3.Ad/jacob/delta/Delta, Twist3.ad/Ad) against
independent NumPy / longdouble references; the linear identities are also discharged
symbolically by executing the library on SymPy symbols.
Residuals relative to max(1,|t|) max(1,|S|): 1e-9, and 1e-7 where a general exponential enters.
"""
import math

import numpy as np

from .. import core, gen, ref
from ..core import drive

PROP = 'C13'
SHARDS = {'quick': 4, 'thorough': 16}
TOL, TOLX = 1e-9, 1e-7
RULE = ('vectors of length 1, 3, 6 with components 1e-6..1e6; rigid motions T, T1, T2 over the whole group with |t| <= 1e3; '
        'twists with rotation magnitude over the C03 pools; differential motions 1e-9..1e-2. distinct = (identity, operands '
        'rounded to 9 digits); non-trivial = T has non-zero translation and a rotation about a non-coordinate axis (so a '
        'transposed block or a sign slip cannot vanish)')
ASSUMPTIONS = ['6x6 reference adjoint [[R, [t]x R],[0, R]] for twists ordered (v, w); expm(ad S) by scipy.linalg.expm in float64 '
               '(a sample re-checked with mpmath at 50 digits)', 'tr2delta equals the logarithm up to 2|d|^2']
MIN_EVALS = {'maps': {'quick': 3000, 'thorough': 60000}, 'adjoint': {'quick': 3000, 'thorough': 60000},
             'delta': {'quick': 1800, 'thorough': 40000}, 'symbolic': {'quick': 6, 'thorough': 6}}


def S():
    import spatialmath
    return spatialmath


def B():
    import spatialmath.base as b
    return b


def md(a, b):
    a, b = np.asarray(a, dtype=np.float64), np.asarray(b, dtype=np.float64)
    if a.shape != b.shape or not np.all(np.isfinite(a)):
        return math.inf
    return float(np.max(np.abs(a - b))) if a.size else 0.0


def general_T(rng):
    a = gen.unit_axis(rng)
    if rng.random() < 0.8:
        a = rng.normal(size=3)
        a /= np.linalg.norm(a)
    return ref.rt2tr(ref.rot(a, gen.rot_angle(rng)), gen.transl(rng, hi=1e3))


def is_general(T):
    R, t = T[:3, :3], T[:3, 3]
    li = np.array([R[2, 1] - R[1, 2], R[0, 2] - R[2, 0], R[1, 0] - R[0, 1]])
    return np.linalg.norm(t) > 0 and np.sum(np.abs(li) > 1e-6) >= 2


# ----------------------------------------------------------------------------- maps
def run_maps(ctx, p):
    b = B()
    which = p['which']
    v = np.asarray(p['v'], dtype=np.float64)
    u = np.asarray(p.get('u', v), dtype=np.float64)
    sig = dict(api=which)
    sc = max(1e-300, float(np.max(np.abs(v))))
    if p.get('itype'):
        # whole numbers held in an integer array (pixel coordinates, encoder counts): the same real vector
        sig['element_type'] = 'unsigned' if p['itype'].startswith('u') else 'signed'
        vi = np.asarray(p['v']).astype(p['itype'])
        v = vi.astype(np.float64)
        if p.get('iform') == 'scalars':      # the same whole numbers as a list of NumPy integer scalars (elements taken out of such an array)
            vi = [x for x in vi]
            sig['form'] = 'list of NumPy integers'
        sc = max(1.0, float(np.max(np.abs(v))))
    try:
        if p.get('itype') and which == 'vex_skew':
            Sk = b.skew(vi)
            Mi = ref.skew(v).astype(p['itype']) if len(v) == 3 else None
            if Mi is not None and np.array_equal(Mi.astype(np.float64), ref.skew(v)):
                # the matrix itself held in the narrow signed type (its entries fit, the difference of two of them need not)
                d0 = md(b.vex(Mi), v) / sc
            else:
                d0 = 0.0
            d = max(d0, md(np.asarray(Sk, dtype=np.float64), ref.skew(v)), md(b.vex(Sk), v),
                    (md(np.asarray(b.skew(vi), dtype=np.float64) @ u, np.cross(v, u)) / max(1.0, float(np.max(np.abs(u))))) if len(v) == 3 else 0.0) / sc
        elif p.get('itype') and which == 'vexa_skewa':
            Sa = b.skewa(vi)
            d = max(md(np.asarray(Sa, dtype=np.float64), ref.skewa(v)), md(b.vexa(Sa), v)) / sc
        elif which == 'vex_skew':            # length 1 or 3
            d = md(b.vex(b.skew(v)), v) / sc
            Sk = b.skew(v)
            d = max(d, md(b.skew(b.vex(Sk)), Sk) / sc, md(Sk, ref.skew(v)) / sc, md(Sk, -Sk.T) / sc)
            # the same matrix as another object: Fortran-ordered, a transposed view (-S.T is S), frozen, a slice of a bigger array
            for lay in gen.LAYOUTS[:4]:
                d = max(d, md(b.vex(gen.layout(Sk, lay)), v) / sc)
            d = max(d, md(b.vex(-Sk.T), v) / sc, md(b.vex(np.array(Sk.T, order='C').T), v) / sc)
        elif which == 'vexa_skewa':        # length 3 or 6
            Sa = b.skewa(v)
            d = max(md(b.vexa(Sa), v), md(b.skewa(b.vexa(Sa)), Sa), md(Sa, ref.skewa(v))) / sc
            for lay in gen.LAYOUTS[:4]:
                d = max(d, md(b.vexa(gen.layout(Sa, lay)), v) / sc)
            d = max(d, md(b.vexa(np.array(Sa.T, order='C').T), v) / sc)
        elif which == 'skew_cross':
            sc = max(1e-300, float(np.linalg.norm(v) * np.linalg.norm(u)))
            want = np.cross(v, u)
            d = max(md(b.skew(v) @ u, want), md(b.cross(v, u), want)) / sc
        elif which == 'norms':
            want = float(np.sqrt(np.sum(np.asarray(v, dtype=ref.LD) ** 2)))
            d = max(abs(b.norm(v) - want) / want, abs(b.normsq(v) - want * want) / (want * want),
                    md(b.colvec(v), v.reshape(-1, 1)))
            # every documented vector form (list, tuple, 1-D, row, column) is a vector to these helpers; a scalar comes back
            for form in gen.FORMS:
                vf = gen.as_form(v, form)
                n_, q_ = b.norm(vf), b.normsq(vf)
                if np.ndim(n_) != 0 or np.ndim(q_) != 0:
                    d = math.inf
                else:
                    d = max(d, abs(float(n_) - want) / want, abs(float(q_) - want * want) / (want * want))
                d = max(d, md(b.colvec(vf), v.reshape(-1, 1)))
            cv = b.colvec(v)
            if cv.shape != (len(v), 1):
                d = math.inf
            # unitvec / unitvec_norm: the direction, of unit length, for every vector the library does not call zero
            # (length above 10 eps; the direction of a differential motion of 1e-9 is a vector like any other)
            if want > 1e-13:
                u1 = b.unitvec(v)
                u2, n2 = b.unitvec_norm(v)
                if u1 is None or u2 is None:
                    d = math.inf
                else:
                    d = max(d, md(np.asarray(u1) * want, v) / want, md(np.asarray(u2) * want, v) / want, abs(float(n2) - want) / want)
        else:
            raise KeyError(which)
    except Exception as e:
        ctx.bad('maps', dict(sig, kind='raised', exc=type(e).__name__, n=len(v)), '%s raised %r for v=%s' % (which, e, v))
        return
    ctx.judge('maps', d <= TOL, dict(sig, kind='identity_residual', n=len(v)), lambda: '%s: relative residual %.3g for v=%s u=%s' % (which, d, v, u))
    ctx.cell('maps', which, len(v), core.band(sc))
    ctx.nontrivial(which, [float('%.9g' % x) for x in np.r_[v, u]])


# ----------------------------------------------------------------------------- adjoint family
def run_adj(ctx, p):
    import scipy.linalg
    b = B()
    sm = S()
    which = p['which']
    T1, T2 = np.asarray(p['T1'], dtype=np.float64), np.asarray(p['T2'], dtype=np.float64)
    Sv = np.asarray(p['S'], dtype=np.float64)
    t1, t2 = np.linalg.norm(T1[:3, 3]), np.linalg.norm(T2[:3, 3])
    sig = dict(api=which)
    try:
        if which == 'Ad_value':
            want = ref.adjoint(T1)
            d = max(md(b.adjoint(T1), want), md(sm.SE3(T1).Ad(), want)) / max(1.0, t1)
        elif which == 'Ad_homomorphism':
            T12 = ref.f64(ref.mm(T1, T2))
            d = md(b.adjoint(T12), b.adjoint(T1) @ b.adjoint(T2)) / (max(1.0, t1) * max(1.0, t2))
        elif which == 'Ad_inverse':
            Ti = ref.f64(ref.rt2tr(np.asarray(T1[:3, :3].T, dtype=ref.LD), -ref.mm(T1[:3, :3].T, T1[:3, 3])))
            A, Ai = b.adjoint(T1), b.adjoint(Ti)
            d = max(md(A @ Ai, np.eye(6)), md(Ai @ A, np.eye(6))) / max(1.0, t1) ** 2
        elif which == 'Ad_intertwine':       # Ad(T) S = vexa(T [S] T^-1)
            Ti = ref.rt2tr(np.asarray(T1[:3, :3].T, dtype=ref.LD), -ref.mm(T1[:3, :3].T, T1[:3, 3]))
            want = ref.vexa(ref.f64(ref.mm(T1, ref.skewa(Sv), Ti)))
            d = md(b.adjoint(T1) @ Sv, want) / (max(1.0, t1) * max(1.0, float(np.linalg.norm(Sv))))
        elif which == 'exp_ad':              # expm(ad S) = Ad(exp S)
            tw = sm.Twist3(Sv)
            ad = np.asarray(tw.ad(), dtype=np.float64)
            d0 = md(ad, ref.ad(Sv)) / max(1.0, float(np.max(np.abs(Sv))))
            E = ref.f64(ref.exp_twist_ld(Sv))
            lhs = scipy.linalg.expm(ref.ad(Sv))
            rhs1, rhs2 = b.adjoint(E), np.asarray(tw.Ad(), dtype=np.float64)
            sc = max(1.0, float(np.linalg.norm(E[:3, 3])))
            d = max(d0, md(rhs1, lhs) / sc * (TOL / TOLX), md(rhs2, lhs) / sc * (TOL / TOLX))
        elif which == 'jacobian':
            R = T1[:3, :3]
            Z = np.zeros((3, 3))
            want = np.block([[R.T, Z], [Z, R.T]])
            Ti = ref.f64(ref.rt2tr(np.asarray(R.T, dtype=ref.LD), -ref.mm(R.T, T1[:3, 3])))
            d = max(md(b.tr2jac(T1), want), md(sm.SE3(T1).jacob(), want),
                    md(b.tr2jac(T1, samebody=True), ref.adjoint(Ti)) / max(1.0, t1),
                    md(b.adjoint(T1) @ b.tr2jac(T1, samebody=True), np.eye(6)) / max(1.0, t1) ** 2)
            # the flag as a caller may hold it (the result of a NumPy comparison, 0 / 1), positional or by keyword; the matrix
            # as a Fortran-ordered / frozen / strided object
            TF = np.asfortranarray(T1)
            d = max(d, md(b.tr2jac(T1, samebody=np.bool_(True)), ref.adjoint(Ti)) / max(1.0, t1), md(b.tr2jac(T1, 1), ref.adjoint(Ti)) / max(1.0, t1),
                    md(b.tr2jac(T1, np.bool_(False)), want), md(b.tr2jac(T1, samebody=0), want),
                    md(b.tr2jac(TF), want), md(b.tr2jac(gen.layout(T1, 'readonly'), samebody=True), ref.adjoint(Ti)) / max(1.0, t1),
                    md(b.adjoint(TF), ref.adjoint(T1)) / max(1.0, t1), md(b.adjoint(gen.layout(T1, 'strided')), ref.adjoint(T1)) / max(1.0, t1))
        elif which == 'jacobian_held':
            # the way the results are used: several Jacobians / adjoints are obtained first and combined afterwards
            R1, R2 = T1[:3, :3], T2[:3, :3]
            Z = np.zeros((3, 3))
            J1, J2 = b.tr2jac(T1), b.tr2jac(T2)
            J1s, J2s = b.tr2jac(T1, samebody=True), b.tr2jac(T2, samebody=True)
            A1, A2 = b.adjoint(T1), b.adjoint(T2)
            Jc = sm.SE3([T1, T2]).jacob()
            T12 = ref.f64(ref.mm(T1, T2))
            J12, J12s = b.tr2jac(T12), b.tr2jac(T12, samebody=True)
            inv = lambda T: ref.f64(ref.rt2tr(np.asarray(T[:3, :3].T, dtype=ref.LD), -ref.mm(T[:3, :3].T, T[:3, 3])))
            sc = max(1.0, t1) * max(1.0, t2)
            d = max(md(J1, np.block([[R1.T, Z], [Z, R1.T]])), md(J2, np.block([[R2.T, Z], [Z, R2.T]])),
                    md(J1s, ref.adjoint(inv(T1))) / max(1.0, t1), md(J2s, ref.adjoint(inv(T2))) / max(1.0, t2),
                    md(A1, ref.adjoint(T1)) / max(1.0, t1), md(A2, ref.adjoint(T2)) / max(1.0, t2),
                    md(J12, J2 @ J1), md(J12s, J2s @ J1s) / sc,
                    md(np.asarray(Jc[0]), J1) if len(Jc) == 2 else math.inf, md(np.asarray(Jc[1]), J2) if len(Jc) == 2 else math.inf)
        else:
            raise KeyError(which)
    except Exception as e:
        ctx.bad('adjoint', dict(sig, kind='raised', exc=type(e).__name__, where=_where(e)), '%s raised %r for T1=%s' % (which, e, core.short(T1, 300)))
        return
    ctx.judge('adjoint', d <= TOL, dict(sig, kind='identity_residual'),
              lambda: '%s: scaled residual %.3g (allowed 1e-9; 1e-7 for the exponential part) T1=%s T2=%s S=%s' % (which, d, core.short(T1, 300), core.short(T2, 200), Sv))
    ctx.cell('adj', which, core.band(t1))
    if is_general(T1):
        ctx.nontrivial(which, [float('%.9g' % x) for x in np.r_[T1.reshape(-1), T2.reshape(-1), Sv]])


def _where(e):
    import traceback
    tb = traceback.extract_tb(e.__traceback__)
    for fr in reversed(tb):
        if 'spatialmath' in fr.filename:
            return '%s:%s' % (fr.filename.split('spatialmath/')[-1], fr.name)
    return tb[-1].name if tb else '?'


def run_adj3(ctx, p):
    """adjoint of an SO(3) matrix: blockdiag(R, R)"""
    b = B()
    R = np.asarray(p['R'], dtype=np.float64)
    try:
        A = b.adjoint(R)
        Z = np.zeros((3, 3))
        d = md(A, np.block([[R, Z], [Z, R]]))
    except Exception as e:
        ctx.bad('adjoint', dict(api='adjoint(SO3)', kind='raised', exc=type(e).__name__), 'adjoint(3x3) raised %r' % e)
        return
    ctx.judge('adjoint', d <= TOL, dict(api='adjoint(SO3)', kind='identity_residual'), lambda: 'adjoint(R) differs from blockdiag(R,R) by %g' % d)


def run_adj_multi(ctx, p):
    """the adjoint family on objects holding several values: SE3.Ad(), Twist3.Ad(), Twist3.ad() give one matrix per value, equal
    to the single-valued result -- also when the values are of different kinds (revolute, prismatic and general twists mixed)"""
    import scipy.linalg
    sm = S()
    Ss = [np.asarray(s_, dtype=np.float64) for s_ in p['S']]
    sig = dict(api='adjoint_multi', kinds=''.join(sorted(set(p['kinds']))))
    try:
        tw = sm.Twist3(Ss)
        Ads, ads = tw.Ad(), tw.ad()
        E = [ref.f64(ref.exp_twist_ld(s_)) for s_ in Ss]
        X = sm.SE3(E)
        AdX = X.Ad()
        ok = len(Ads) == len(Ss) and len(ads) == len(Ss) and len(AdX) == len(Ss)
        worst = 0.0
        if ok:
            for s_, e_, a1, a2, a3 in zip(Ss, E, Ads, ads, AdX):
                sc = max(1.0, float(np.linalg.norm(e_[:3, 3])), float(np.max(np.abs(s_))))
                want = ref.adjoint(e_)
                worst = max(worst, md(np.asarray(a1, dtype=np.float64), want) / sc * (TOL / TOLX), md(np.asarray(a3, dtype=np.float64), want) / sc,
                            md(np.asarray(a2, dtype=np.float64), ref.ad(s_)) / sc)
    except Exception as e:
        ctx.bad('adjoint', dict(sig, kind='raised', exc=type(e).__name__), 'adjoint family on %d twists (%s) raised %r' % (len(Ss), p['kinds'], e))
        return
    ctx.judge('adjoint', ok and worst <= TOL, dict(sig, kind='per_value_adjoint_wrong'),
              lambda: 'Twist3.Ad / Twist3.ad / SE3.Ad on %d values of kinds %s: %s, worst scaled residual %.3g' % (len(Ss), p['kinds'], 'lengths ok' if ok else 'wrong number of results', worst))
    ctx.cell('adj_multi', len(Ss), sig['kinds'])
    ctx.nontrivial('adj_multi', p['kinds'], [float('%.9g' % t) for s_ in Ss for t in s_])


# ----------------------------------------------------------------------------- differential motion
def run_delta(ctx, p):
    b = B()
    sm = S()
    which = p['which']
    d_ = np.asarray(p['d'], dtype=np.float64)
    T0 = np.asarray(p['T0'], dtype=np.float64)
    nd = float(np.linalg.norm(d_))
    sig = dict(api=which)
    try:
        if which == 'delta_roundtrip':
            res = md(b.tr2delta(b.delta2tr(d_)), d_) / nd
            res = max(res, md(b.delta2tr(d_), np.eye(4) + ref.skewa(d_)) / nd)
            tol = TOL
        elif which == 'delta_two_arg':
            T1 = ref.f64(ref.mm(T0, ref.exp_twist_ld(d_)))
            Ti = ref.f64(ref.rt2tr(np.asarray(T0[:3, :3].T, dtype=ref.LD), -ref.mm(T0[:3, :3].T, T0[:3, 3])))
            rel = ref.f64(ref.mm(Ti, T1))
            a = b.tr2delta(T0, T1)
            c = sm.SE3(T0).delta(sm.SE3(T1))
            sc = max(1.0, float(np.linalg.norm(T0[:3, 3])))
            res = max(md(a, b.tr2delta(rel)), md(c, a)) / sc
            tol = TOL
            # first order agreement with the logarithm
            fo = md(a, d_)
            ctx.judge('delta', fo <= 2 * nd * nd + TOL * sc, dict(sig, kind='not_first_order_log'),
                      lambda: 'tr2delta(T0, T0 exp(d)) = %s differs from d = %s by %.3g > 2|d|^2 = %.3g' % (a, d_, fo, 2 * nd * nd))
        elif which == 'delta_log':
            E = ref.f64(ref.exp_twist_ld(d_))
            res = md(b.tr2delta(E), d_)
            tol = 2 * nd * nd + 1e-15
            # ... and with the library's own logarithm of the same matrix, taken after the call
            lg = np.asarray(b.trlog(E, twist=True), dtype=np.float64)
            res = max(res, md(b.tr2delta(E), lg))
        elif which == 'Delta_class':
            X = sm.SE3.Delta(d_)
            ok = type(X) is sm.SE3 and len(X) == 1 and ref.hom_residual(X.A) <= 1e-9
            back = b.tr2delta(X.A)
            res = md(back, d_) if ok else math.inf
            tol = 2 * nd * nd + 1e-15
        else:
            raise KeyError(which)
    except Exception as e:
        ctx.bad('delta', dict(sig, kind='raised', exc=type(e).__name__, band=core.band(nd)), '%s raised %r for d=%s' % (which, e, d_))
        return
    ctx.judge('delta', res <= tol, dict(sig, kind='identity_residual'), lambda: '%s: residual %.3g (allowed %.3g) for d=%s T0=%s' % (which, res, tol, d_, core.short(T0, 300)))
    ctx.cell('delta', which, core.band(nd))
    if is_general(T0):
        ctx.nontrivial(which, [float('%.9g' % x) for x in np.r_[d_, T0.reshape(-1)]])


# ----------------------------------------------------------------------------- symbolic
def run_sym(ctx, p):
    import sympy
    b = B()
    which = p['which']
    sig = dict(api=which, mode='symbolic')
    a = np.array(sympy.symbols('a0:3', real=True), dtype=object)
    c = np.array(sympy.symbols('c0:3', real=True), dtype=object)
    s6 = np.array(sympy.symbols('s0:6', real=True), dtype=object)
    try:
        if which == 'vex_skew':
            diff = b.vex(b.skew(a)) - a
        elif which == 'skew_antisym':
            Sk = b.skew(a)
            diff = (Sk + Sk.T).reshape(-1)
        elif which == 'skew_cross':
            diff = b.skew(a) @ c - b.cross(a, c)
        elif which == 'cross_antisym':
            diff = b.cross(a, c) + b.cross(c, a)
        elif which == 'vexa_skewa':
            diff = b.vexa(b.skewa(s6)) - s6
        elif which == 'vexa_skewa2':
            s3 = np.array(sympy.symbols('s0:3', real=True), dtype=object)
            diff = b.vexa(b.skewa(s3)) - s3
        else:
            raise KeyError(which)
    except Exception as e:
        ctx.bad('symbolic', dict(sig, kind='raised_on_symbols', exc=type(e).__name__), '%s raised %r on symbols' % (which, e))
        return
    bad = [str(sympy.expand(x)) for x in np.atleast_1d(diff).reshape(-1) if sympy.expand(x) != 0]
    ctx.judge('symbolic', not bad, dict(sig, kind='nonzero_normal_form'), lambda: '%s does not reduce to 0: %s' % (which, bad[:3]))
    ctx.extra.setdefault('symbolic_identities', {})[which] = 1 if not bad else 0
    ctx.nontrivial('sym', which)


def run_shape(ctx, p):
    """the inverse maps are defined on square matrices of their algebra's size: an array of another shape has no vector (a 3 x 4 array is
    not "the top of" an se(3) matrix) and is refused, it is not answered with numbers taken from somewhere in it"""
    b = B()
    f = {'vex': b.vex, 'vexa': b.vexa}[p['which']]
    M = np.arange(1.0, 1.0 + p['shape'][0] * p['shape'][1]).reshape(p['shape']) * 0.25
    try:
        r = f(M)
        err = None
    except Exception as e:
        r, err = None, e
    ctx.judge('maps', err is not None, dict(api=p['which'], kind='array_of_wrong_shape_accepted', shape='%dx%d' % tuple(p['shape'])),
              lambda: '%s of a %d x %d array returned %s' % (p['which'], p['shape'][0], p['shape'][1], core.short(r, 100)))
    ctx.cell('shape', p['which'], '%dx%d' % tuple(p['shape']))


def run_exact(ctx, p):
    """matrices whose entries are whole numbers (a rotation of the cube, integer translations) held in an integer or narrow float
    element type: the inverse, the two-argument difference and the adjoint of the inverse are those of the same numbers in float64"""
    b = B()
    dt = np.dtype(p['dtype'])
    T0, T1 = np.asarray(p['T0'], dtype=np.float64), np.asarray(p['T1'], dtype=np.float64)
    sig = dict(api=p['which'], dtype=str(dt))
    f = {'trinv': lambda A, B_: b.trinv(A), 'tr2delta2': lambda A, B_: b.tr2delta(A, B_), 'adjoint_inv': lambda A, B_: b.adjoint(b.trinv(A)),
         'trinv2': lambda A, B_: b.trinv2(A)}[p['which']]
    try:
        want = np.asarray(f(T0, T1), dtype=np.float64)
    except Exception:
        ctx.ood('delta')
        return
    try:
        got = np.asarray(f(T0.astype(dt), T1.astype(dt)), dtype=np.float64)
    except Exception as e:
        ctx.ood('delta')        # (refusing an element type is not judged here)
        ctx.cell('exact_refused', p['which'], str(dt), type(e).__name__)
        return
    res = md(got, want) if got.shape == want.shape else math.inf
    ctx.judge('delta', res <= 1e-9, dict(sig, kind='element_type_changes_value'),
              lambda: '%s of whole-number matrices held as %s: %s, the same numbers as float64 give %s (T0=%s T1=%s)' % (
                  p['which'], dt, core.short(got, 200), core.short(want, 200), core.short(T0, 200), core.short(T1, 200)))
    ctx.cell('exact', p['which'], str(dt))
    ctx.nontrivial(p['which'], str(dt), T0.reshape(-1).tolist())


RUNNERS = {'shape': run_shape, 'exact': run_exact, 'adj_multi': run_adj_multi, 'maps': run_maps, 'adj': run_adj, 'adj3': run_adj3, 'delta': run_delta, 'sym': run_sym}


def REACH():
    b = B()
    sm = S()
    return [b.skew, b.vex, b.skewa, b.vexa, b.cross, b.norm, b.normsq, b.colvec, b.adjoint, b.tr2jac, b.delta2tr, b.tr2delta,
            sm.SE3.__dict__['Ad'], sm.SE3.__dict__['jacob'], sm.SE3.__dict__['delta'], sm.SE3.__dict__['Delta'],
            sm.Twist3.__dict__['ad'], sm.Twist3.__dict__['Ad']]


# ----------------------------------------------------------------------------- workload
def twist(rng):
    from .c03_explog import rot_mag
    # (one twist in five turns more than once: "for all twists S" -- the translation of a pitched screw is not periodic in the angle)
    if rng.random() < 0.12:
        return np.r_[gen.transl(rng, hi=1e3), gen.unit_axis(rng) * float(rng.uniform(2 * math.pi, 6 * math.pi))]
    return np.r_[gen.transl(rng, hi=1e3), gen.unit_axis(rng) * rot_mag(rng, many=bool(rng.random() < 0.2))]


def run(ctx):
    rng = ctx.rng
    for k, w in enumerate(['vex_skew', 'skew_antisym', 'skew_cross', 'cross_antisym', 'vexa_skewa', 'vexa_skewa2']):
        if ctx.mine(k):
            drive(RUNNERS, ctx, 'sym', dict(which=w))
    for _ in range(ctx.scale(5000, 120000)):
        which = ['vex_skew', 'vexa_skewa', 'skew_cross', 'norms'][rng.integers(4)]
        n = {'vex_skew': [1, 3], 'vexa_skewa': [3, 6], 'skew_cross': [3], 'norms': [1, 3, 6]}[which]
        n = n[rng.integers(len(n))]
        lo, hi = (1e-6, 1e6) if rng.random() < 0.6 else (1e-2, 1e2)
        if which == 'norms' and rng.random() < 0.25:
            lo, hi = 1e-12, 1e-7        # short vectors (directions of differential motions)
        drive(RUNNERS, ctx, 'maps', dict(which=which, v=gen.vec(rng, n, lo, hi), u=gen.vec(rng, n, lo, hi)))
        if which in ('vex_skew', 'vexa_skewa') and rng.random() < 0.15:
            it = ['uint8', 'uint16', 'uint64', 'int8', 'int16', 'int64'][rng.integers(6)]
            hi_ = {'uint8': 256, 'uint16': 65536, 'uint64': 10 ** 6, 'int8': 128, 'int16': 32768, 'int64': 10 ** 6}[it]
            vi = rng.integers(0 if it[0] == 'u' else -hi_, hi_, size=n)      # (the most negative value of a signed type included)
            if np.any(vi):
                drive(RUNNERS, ctx, 'maps', dict(which=which, v=[int(x) for x in vi], u=gen.vec(rng, n, 1e-2, 1e2), itype=it, iform=['array', 'scalars'][rng.integers(2)]))
    for _ in range(ctx.scale(300, 6000)):
        n = int(rng.integers(2, 8))
        if rng.random() < 0.1:
            n = int([8, 9, 16, 17, 32, 33, 40, 64, 100][rng.integers(9)])        # many values (a batch path would show here)
        kinds, Ss = [], []
        for _k in range(n):
            kd = 'RPG'[rng.integers(3)]
            w = gen.unit_axis(rng) * rng.uniform(0.1, 3.0)
            if kd == 'R':       # revolute: moment perpendicular to the axis
                s_ = np.r_[-np.cross(w, gen.vec(rng, 3, 1e-2, 1e1)), w]
            elif kd == 'P':
                s_ = np.r_[gen.vec(rng, 3, 1e-2, 1e1), np.zeros(3)]
            else:
                s_ = np.r_[gen.vec(rng, 3, 1e-2, 1e1), w]
            kinds.append(kd)
            Ss.append(s_)
        drive(RUNNERS, ctx, 'adj_multi', dict(kinds=kinds, S=Ss))
    for _ in range(ctx.scale(5000, 120000)):
        which = ['Ad_value', 'Ad_homomorphism', 'Ad_inverse', 'Ad_intertwine', 'exp_ad', 'jacobian', 'jacobian_held'][rng.integers(7)]
        p = dict(which=which, T1=general_T(rng), T2=general_T(rng), S=twist(rng))
        drive(RUNNERS, ctx, 'adj', p)
        if ctx.ncases % 1999 == 1:
            ctx.sample(dict(case='adj', **p))
    for _ in range(ctx.scale(300, 5000)):
        drive(RUNNERS, ctx, 'adj3', dict(R=gen.so3(rng)))
    k_ = 0
    for which in ('vex', 'vexa'):
        for shape in ((3, 4), (4, 3), (4, 5), (3, 5), (2, 3), (3, 2), (5, 5), (1, 1), (4, 6), (2, 4)):
            k_ += 1
            if ctx.mine(k_):
                drive(RUNNERS, ctx, 'shape', dict(which=which, shape=list(shape)))
    for _ in range(ctx.scale(400, 8000)):
        dt = ['int8', 'uint8', 'int16', 'int32', 'int64', 'uint16', 'float32', 'float16'][rng.integers(8)]
        which = ['trinv', 'tr2delta2', 'adjoint_inv', 'trinv2'][rng.integers(4)]
        lim = 100 if dt in ('int8', 'uint8', 'float16') else 1000

        def exact_T(dim):
            if dim == 3:
                R = gen.exact_so3(rng) if not dt.startswith('u') else np.eye(3)[[[0, 1, 2], [1, 2, 0], [2, 0, 1]][rng.integers(3)]]
            else:
                R = [np.eye(2), np.array([[0.0, -1], [1, 0]]), -np.eye(2), np.array([[0.0, 1], [-1, 0]])][rng.integers(4) if not dt.startswith('u') else 0] + 0.0
            t = rng.integers(0 if dt.startswith('u') else -lim, lim + 1, size=dim).astype(np.float64)
            return ref.f64(ref.rt2tr(R, t))
        dim = 2 if which == 'trinv2' else 3
        drive(RUNNERS, ctx, 'exact', dict(which=which, dtype=dt, T0=exact_T(dim), T1=exact_T(dim)))
    for _ in range(ctx.scale(3000, 80000)):
        which = ['delta_roundtrip', 'delta_two_arg', 'delta_log', 'Delta_class'][rng.integers(4)]
        mag = gen.logu(rng, 1e-9, 1e-2)
        d = rng.normal(size=6)
        d = d / np.linalg.norm(d) * mag
        if rng.random() < 0.2:
            d[:3] = 0
        elif rng.random() < 0.2:
            d[3:] = 0
        drive(RUNNERS, ctx, 'delta', dict(which=which, d=d, T0=general_T(rng)))
