"""C19 -- Pluecker lines: incidence, projection and rigid transformation are consistent.

Boundary monitor on every public member of Plucker and Plane against elementary geometry of
the *defining data* (points, directions, planes) computed independently in NumPy/longdouble:
incidence residual |w x p - v| / |w|, foot of the perpendicular, closed-form line-line distance
and feet of the common perpendicular, plane incidence n.x + d.  Residuals 1e-9 relative to the
data magnitude.  Boolean predicates are judged only for constructed ground truth well away
from their (absolute, eps-level) tolerance.
"""
import math

import numpy as np

from .. import core, gen, ref
from ..core import drive

PROP = 'C19'
SHARDS = {'quick': 4, 'thorough': 16}
TOL = 1e-9
RULE = ('point pairs >= 1e-3 apart with coordinates up to 1e3, directions of length 1e-3..1e3 (never pre-normalised), rigid motions '
        'over the whole group, query points, line pairs in general / parallel / intersecting / coincident position, planes not '
        'parallel to the line. distinct = (member, configuration, data rounded to 9 digits); non-trivial = line not through the '
        'origin with non-unit direction')
ASSUMPTIONS = ['data magnitude = largest coordinate among the defining points / directions / query points (and 1)',
               'predicates (contains, ==, |, ^, isparallel, Plane.contains) are judged True only on configurations that are exact in '
               'floating point (lines through the origin, integer data, power-of-two rescaling) and False only far from the tolerance']
MIN_EVALS = {'incidence': {'quick': 7000, 'thorough': 120000}, 'projection': {'quick': 3500, 'thorough': 60000},
             'transform': {'quick': 1200, 'thorough': 25000}, 'pairs': {'quick': 1000, 'thorough': 18000},
             'planes': {'quick': 1000, 'thorough': 15000}, 'predicates': {'quick': 1400, 'thorough': 22000}}


def S():
    import spatialmath
    return spatialmath


def mag(*xs):
    m = 1.0
    for x in xs:
        x = np.asarray(x, dtype=np.float64)
        if x.size:
            m = max(m, float(np.max(np.abs(x))))
    return m


def on_line(pt, p0, d):
    """distance of pt from the line through p0 with direction d"""
    pt, p0, d = (np.asarray(a, dtype=np.float64) for a in (pt, p0, d))
    return float(np.linalg.norm(np.cross(pt - p0, d)) / np.linalg.norm(d))


def md(a, b):
    a, b = np.asarray(a, dtype=np.float64), np.asarray(b, dtype=np.float64)
    if a.shape != b.shape or not np.all(np.isfinite(a)):
        return math.inf
    return float(np.max(np.abs(a - b))) if a.size else 0.0


def make_line(p):
    """build the line named by p['ctor'] from its defining data; returns (L, p0, dir)"""
    sm = S()
    c = p['ctor']
    P, Q = np.asarray(p['P'], dtype=np.float64), np.asarray(p['Q'], dtype=np.float64)
    if c == 'PQ':
        return sm.Plucker.PQ(P, Q), P, P - Q          # library convention: w = P - Q
    if c == 'PointDir':
        return sm.Plucker.PointDir(P, Q), P, Q        # Q is the direction here
    if c == 'vw':
        v_, w_ = np.cross(Q, P), Q
        if p.get('vwtype'):     # whole-number moment and direction held in a narrow element type (the values fit; their products need not)
            v_, w_ = v_.astype(p['vwtype']), w_.astype(p['vwtype'])
        return sm.Plucker(v_, w_), P, Q
    raise KeyError(c)


def _where(e):
    import traceback
    tb = traceback.extract_tb(e.__traceback__)
    for fr in reversed(tb):
        if 'spatialmath' in fr.filename:
            return '%s:%s' % (fr.filename.split('spatialmath/')[-1], fr.name)
    return tb[-1].name if tb else '?'


# ----------------------------------------------------------------------------- single line
def run_line(ctx, p):
    sm = S()
    sig = dict(api='Plucker.' + p['ctor'])
    if p.get('vwtype'):
        sig['element_type'] = 'narrow'
    try:
        L, p0, d = make_line(p)
    except Exception as e:
        ctx.bad('incidence', dict(sig, kind='raised', exc=type(e).__name__), 'constructor raised %r' % e)
        return
    x = np.asarray(p['x'], dtype=np.float64)
    m = mag(p0, p['Q'] if p['ctor'] == 'PQ' else p0, x)
    what = lambda: '%s(P=%s, Q/dir=%s)' % (p['ctor'], p['P'], p['Q'])
    try:
        v, w = np.asarray(L.v, float), np.asarray(L.w, float)
        # defining points on the line (reference incidence residual from the stored coordinates)
        pts = [p0] + ([np.asarray(p['Q'], float)] if p['ctor'] == 'PQ' else [])
        for pt in pts:
            r = ref.point_line_residual(pt, v, w)
            ctx.judge('incidence', r <= TOL * m, dict(sig, kind='defining_point_off_line'), lambda: '%s: defining point %s is %.3g from the line (v=%s w=%s)' % (what(), pt, r, v, w))
        # ... and the line's own membership test, as shipped (default tolerance), says so too: defining points and point(lambda)
        for pt in pts + [np.asarray(L.point(lam_), dtype=np.float64).reshape(-1) for lam_ in p['lams'][:2]]:
            inside = bool(L.contains(pt))
            ctx.judge('incidence', inside, dict(sig, kind='contains_rejects_own_point'),
                      lambda: '%s: contains(%s) is False for a point of the line (incidence residual %.3g, data magnitude %.3g)' % (what(), pt, ref.point_line_residual(pt, v, w), m))
        # direction parallel to the defining direction, same orientation
        par = float(np.linalg.norm(np.cross(w / np.linalg.norm(w), d / np.linalg.norm(d))))
        ctx.judge('incidence', par <= TOL and np.dot(w, d) > 0, dict(sig, kind='direction_wrong'), lambda: '%s: w=%s is not along %s' % (what(), w, d))
        # Pluecker constraint
        c = abs(float(np.dot(v, w))) / (np.linalg.norm(v) * np.linalg.norm(w) + 1e-300)
        ctx.judge('incidence', c <= TOL, dict(sig, kind='pluecker_constraint'), lambda: '%s: v.w/(|v||w|) = %.3g' % (what(), c))
        # point(lambda) on the line, spaced by lambda along the unit direction from pp
        lams = p['lams']
        # (the parameters as a list, a tuple, a 1-D array, a row or a column: point() reads them with getvector)
        pts = np.asarray(L.point(gen.as_form(lams, p.get('lamform', 'list'))), dtype=np.float64)
        ok = pts.shape == (3, len(lams))
        if ok:
            for k, lam in enumerate(lams):
                r = on_line(pts[:, k], p0, d)
                ctx.judge('incidence', r <= TOL * max(m, abs(lam)), dict(sig, kind='point_lambda_off_line'), lambda: '%s: point(%r) = %s is %.3g from the line' % (what(), lam, pts[:, k], r))
            if len(lams) > 1:
                sp = float(np.linalg.norm(pts[:, 1] - pts[:, 0]))
                ctx.judge('incidence', abs(sp - abs(lams[1] - lams[0])) <= TOL * max(m, abs(lams[1]), abs(lams[0])), dict(sig, kind='point_lambda_spacing'),
                          lambda: '%s: |point(%r) - point(%r)| = %r' % (what(), lams[1], lams[0], sp))
        else:
            ctx.bad('incidence', dict(sig, kind='point_shape'), '%s: point(%s) has shape %s' % (what(), lams, pts.shape))
        # principal point: on the line, perpendicular to w, distance ppd
        pp = np.asarray(L.pp, dtype=np.float64)
        foot, dist, _ = ref.closest_on_line(np.zeros(3), p0, d)
        ctx.judge('projection', md(pp, foot) <= TOL * m, dict(sig, kind='pp_wrong'), lambda: '%s: pp = %s, closest point to the origin is %s' % (what(), pp, foot))
        ctx.judge('projection', abs(float(L.ppd) - dist) <= TOL * m, dict(sig, kind='ppd_wrong'), lambda: '%s: ppd = %r, distance to the origin is %r' % (what(), L.ppd, dist))
        # closest(x): orthogonal projection, distance, parameter
        cl = L.closest(x)
        foot, dist, _ = ref.closest_on_line(x, p0, d)
        ctx.judge('projection', md(cl.p, foot) <= TOL * m, dict(sig, kind='closest_point_wrong'), lambda: '%s: closest(%s).p = %s, projection is %s' % (what(), x, cl.p, foot))
        ctx.judge('projection', abs(float(cl.d) - dist) <= TOL * m, dict(sig, kind='closest_distance_wrong'), lambda: '%s: closest(%s).d = %r, distance is %r' % (what(), x, cl.d, dist))
        back = np.asarray(L.point(cl.lam), dtype=np.float64).reshape(-1)
        ctx.judge('projection', md(back, foot) <= TOL * m, dict(sig, kind='closest_lam_wrong'), lambda: '%s: point(closest.lam=%r) = %s, projection is %s' % (what(), cl.lam, back, foot))
    except Exception as e:
        ctx.bad('incidence', dict(sig, kind='raised', exc=type(e).__name__, where=_where(e)), '%s: member raised %r' % (what(), e))
        return
    ctx.cell('line', p['ctor'], core.band(np.linalg.norm(d)))
    if np.linalg.norm(np.cross(p0, d)) > 1e-6 and abs(np.linalg.norm(d) - 1) > 1e-3:
        ctx.nontrivial('line', p['ctor'], [float('%.9g' % t) for t in np.r_[p['P'], p['Q']]])


def run_transform(ctx, p):
    """T * L is the line through the transformed points"""
    sm = S()
    sig = dict(api='SE3*Plucker')
    T = np.asarray(p['T'], dtype=np.float64)
    try:
        L, p0, d = make_line(p)
        L2 = sm.SE3(T) * L
    except Exception as e:
        ctx.bad('transform', dict(sig, kind='raised', exc=type(e).__name__, where=_where(e)), 'SE3 * Plucker raised %r' % e)
        return
    if type(L2) is not sm.Plucker:
        ctx.bad('transform', dict(sig, kind='wrong_type'), 'SE3 * Plucker returned %s' % type(L2).__name__)
        return
    R, t = T[:3, :3], T[:3, 3]
    q0, q1 = ref.f64(ref.mm(R, p0.reshape(3, 1))).reshape(-1) + t, ref.f64(ref.mm(R, (p0 + d).reshape(3, 1))).reshape(-1) + t
    m = mag(p0, p0 + d, t, q0, q1)
    v, w = np.asarray(L2.v, float), np.asarray(L2.w, float)
    for pt in (q0, q1):
        r = ref.point_line_residual(pt, v, w)
        ctx.judge('transform', r <= TOL * m, dict(sig, kind='transformed_point_off_line'), lambda: 'T*L: transformed defining point %s is %.3g from the transformed line' % (pt, r))
    dd = ref.f64(ref.mm(R, d.reshape(3, 1))).reshape(-1)
    par = float(np.linalg.norm(np.cross(w / np.linalg.norm(w), dd / np.linalg.norm(dd))))
    ctx.judge('transform', par <= TOL and np.dot(w, dd) > 0, dict(sig, kind='direction_wrong'), lambda: 'T*L: direction %s is not R d = %s' % (w, dd))
    ctx.cell('transform', p['ctor'])
    ctx.nontrivial('transform', [float('%.9g' % x) for x in np.r_[p['P'], p['Q'], T.reshape(-1)]])


# ----------------------------------------------------------------------------- pairs of lines
def run_pair(ctx, p):
    sm = S()
    conf = p['conf']
    sig = dict(api='Plucker.pair', conf=conf)
    P1, D1, P2, D2 = (np.asarray(p[k], dtype=np.float64) for k in ('P1', 'D1', 'P2', 'D2'))
    m = mag(P1, P2, P1 + D1, P2 + D2)
    try:
        L1, L2 = sm.Plucker.PointDir(P1, D1), sm.Plucker.PointDir(P2, D2)
        if conf in ('general', 'intersecting'):
            dist, f1, f2 = ref.line_line(P1, D1, P2, D2)
            if p.get('small_angle'):
                # two lines through X at an angle of 1e-5 .. 1e-4: they meet (to eps x magnitude / angle), both feet are X
                dist, f1, f2 = 0.0, np.asarray(p['X'], dtype=np.float64), np.asarray(p['X'], dtype=np.float64)
                sig['small_angle'] = True
            got = float(L1.distance(L2))
            ctx.judge('pairs', abs(got - dist) <= TOL * m, dict(sig, kind='distance_wrong'), lambda: 'distance = %r, elementary geometry gives %r (P1=%s D1=%s P2=%s D2=%s)' % (got, dist, P1, D1, P2, D2))
            cp = L1.commonperp(L2)
            ok = type(cp) is sm.Plucker
            if ok:
                v, w = np.asarray(cp.v, float), np.asarray(cp.w, float)
                wn = w / np.linalg.norm(w)
                o1 = abs(float(np.dot(wn, D1 / np.linalg.norm(D1))))
                o2 = abs(float(np.dot(wn, D2 / np.linalg.norm(D2))))
                r1, r2 = ref.point_line_residual(f1, v, w), ref.point_line_residual(f2, v, w)
                pc = abs(float(np.dot(v, w))) / (np.linalg.norm(v) * np.linalg.norm(w) + 1e-300)
                ok = o1 <= TOL and o2 <= TOL and r1 <= TOL * m and r2 <= TOL * m and pc <= 1e-9
                ctx.judge('pairs', ok, dict(sig, kind='commonperp_wrong'),
                          lambda: 'commonperp: not orthogonal (%.3g, %.3g) or does not meet the lines (%.3g, %.3g) or v.w != 0 (%.3g); P1=%s D1=%s P2=%s D2=%s' % (o1, o2, r1, r2, pc, P1, D1, P2, D2))
            else:
                ctx.bad('pairs', dict(sig, kind='commonperp_wrong'), 'commonperp returned %r' % (cp,))
            if conf == 'intersecting':
                X = np.asarray(p['X'], dtype=np.float64)
                pt = L1.intersects(L2)
                if pt is not None:       # the ^ predicate decides whether a point is returned; when it is, it must be the point
                    ctx.judge('pairs', np.shape(pt) in ((3,), (3, 1)) and md(np.asarray(pt).reshape(-1), X) <= TOL * m, dict(sig, kind='intersection_point_wrong'),
                              lambda: 'intersects() = %s, the lines meet at %s' % (core.short(pt, 200), X))
                else:
                    ctx.ood('pairs')
        elif conf == 'parallel_pts':
            # the same segment translated: lines given by point pairs, parallel up to the rounding of the coordinate differences
            Q1, t = P1 + D1, P2
            L1, L2 = sm.Plucker.PQ(P1, Q1), sm.Plucker.PQ(P1 + t, Q1 + t)
            m = mag(P1, Q1, P1 + t, Q1 + t)
            dist = on_line(P1 + t, P1, D1)
            got = float(L1.distance(L2))
            ctx.judge('pairs', abs(got - dist) <= TOL * m, dict(sig, kind='distance_wrong'),
                      lambda: 'translated copy of the line through %s, %s by %s: distance = %r, geometry gives %r' % (P1, Q1, t, got, dist))
            par = (bool(L1 | L2), bool(L1.isparallel(L2)))
            ctx.judge('pairs', all(par), dict(sig, kind='parallel_not_recognised'), lambda: 'translated copy of a line: | gives %r, isparallel %r (P=%s Q=%s t=%s)' % (par[0], par[1], P1, Q1, t))
        elif conf == 'parallel':
            dist = on_line(P2, P1, D1)
            got = float(L1.distance(L2))
            ctx.judge('pairs', abs(got - dist) <= TOL * m, dict(sig, kind='distance_wrong'), lambda: 'parallel lines: distance = %r, geometry gives %r' % (got, dist))
    except Exception as e:
        ctx.bad('pairs', dict(sig, kind='raised', exc=type(e).__name__, where=_where(e)), 'pair member raised %r (conf %s)' % (e, conf))
        return
    ctx.cell('pair', conf)
    ctx.nontrivial('pair', conf, [float('%.9g' % x) for x in np.r_[P1, D1, P2, D2]])


# ----------------------------------------------------------------------------- planes
def run_plane(ctx, p):
    sm = S()
    which = p['which']
    sig = dict(api='Plane.' + which)
    try:
        if which == 'PN':
            pt, n = np.asarray(p['pt'], dtype=np.float64), np.asarray(p['n'], dtype=np.float64)
            pl = sm.Plane.PN(pt, n)
            m = mag(pt)
            r = abs(float(np.dot(pl.n, pt) + pl.d)) / np.linalg.norm(pl.n)
            ctx.judge('planes', r <= TOL * m, dict(sig, kind='defining_point_off_plane'), lambda: 'Plane.PN(%s, %s) = %s: n.p + d = %.3g' % (pt, n, pl.plane, r))
            ctx.judge('planes', bool(pl.contains(pt)), dict(sig, kind='contains_rejects_defining_point'),
                      lambda: 'Plane.PN(%s, %s).contains(pt) is False (distance %.3g, data magnitude %.3g)' % (pt, n, r, m))
            par = float(np.linalg.norm(np.cross(pl.n / np.linalg.norm(pl.n), n / np.linalg.norm(n))))
            ctx.judge('planes', par <= TOL, dict(sig, kind='normal_wrong'), lambda: 'Plane.PN normal %s not along %s' % (pl.n, n))
        elif which == 'P3':         # plane through three points contains them
            A3 = np.asarray(p['pts'], dtype=np.float64)      # 3x3, points as columns
            pl = sm.Plane.P3(A3)
            m = mag(A3)
            for k in range(3):
                r = abs(float(np.dot(pl.n, A3[:, k]) + pl.d)) / np.linalg.norm(pl.n)
                ctx.judge('planes', r <= TOL * m, dict(sig, kind='defining_point_off_plane'), lambda: 'Plane.P3: point %s is %.3g from the plane %s' % (A3[:, k], r, pl.plane))
                # the plane's own membership test: with the tolerance the statement names (1e-9 of the data magnitude) always, and
                # as shipped (default tolerance, relative to the point's own magnitude) when the point is as large as the data
                npt = max(1.0, float(np.linalg.norm(A3[:, k])))
                inside = bool(pl.contains(A3[:, k], tol=1e-9 * m / npt)) and (npt < 0.5 * m or bool(pl.contains(A3[:, k])))
                ctx.judge('planes', inside, dict(sig, kind='contains_rejects_defining_point'),
                          lambda: 'Plane.P3(...).contains(%s) is False for a point the plane was built from (distance %.3g, data magnitude %.3g)' % (A3[:, k], r, m))
        elif which == 'Planes':     # line of intersection of two planes contains the planes' common points
            n1, n2, X = (np.asarray(p[k], dtype=np.float64) for k in ('n1', 'n2', 'X'))
            pl1, pl2 = sm.Plane.PN(X, n1), sm.Plane.PN(X, n2)
            L = sm.Plucker.Planes(pl1, pl2) if p.get('asplane', True) else sm.Plucker.Planes(pl1.plane, pl2.plane)
            m = mag(X)
            v, w = np.asarray(L.v, float), np.asarray(L.w, float)
            d = np.cross(n1, n2)
            for pt in (X, X + d / np.linalg.norm(d) * 2.5):
                r = ref.point_line_residual(pt, v, w)
                ctx.judge('planes', r <= TOL * m, dict(sig, kind='common_point_off_line'), lambda: 'Plucker.Planes: common point %s is %.3g from the line' % (pt, r))
        elif which == 'intersect_plane':
            P0, D, pt, n = (np.asarray(p[k], dtype=np.float64) for k in ('P', 'Q', 'pt', 'n'))
            L = sm.Plucker.PointDir(P0, D)
            pl = sm.Plane.PN(pt, n)
            res = L.intersect_plane(pl if p.get('asplane', True) else pl.plane)
            s = float(np.dot(pt - P0, n) / np.dot(D, n))
            X = P0 + s * D
            m = mag(P0, pt, X)
            if res is None:
                ctx.bad('planes', dict(sig, kind='no_intersection'), 'intersect_plane returned None for a non-parallel plane')
            else:
                ctx.judge('planes', md(res.p, X) <= TOL * m, dict(sig, kind='intersection_point_wrong'), lambda: 'intersect_plane.p = %s, geometry gives %s' % (res.p, X))
                back = np.asarray(L.point(res.lam), dtype=np.float64).reshape(-1)
                ctx.judge('planes', md(back, X) <= TOL * m, dict(sig, kind='line_parameter_wrong'),
                          lambda: 'intersect_plane.lam = %r: point(lam) = %s, the intersection is %s' % (res.lam, back, X))
    except Exception as e:
        ctx.bad('planes', dict(sig, kind='raised', exc=type(e).__name__, where=_where(e)), 'Plane/%s raised %r' % (which, e))
        return
    ctx.cell('plane', which)
    ctx.nontrivial('plane', which, core.short(core.J({k: v for k, v in p.items() if k != 'which'}), 300))


# ----------------------------------------------------------------------------- predicates on exact ground truth
def run_pred(ctx, p):
    sm = S()
    which = p['which']
    sig = dict(api='Plucker.' + which, want=bool(p['want']) if 'want' in p else 'per column')
    try:
        if which == 'eq':
            P0, D = np.asarray(p['P'], float), np.asarray(p['D'], float)
            L1 = sm.Plucker.PointDir(P0, D)
            k = p['variant']
            if k == 'rescaled':
                L2 = sm.Plucker.PointDir(P0, D * p['factor'])
            elif k == 'reversed':
                L2 = sm.Plucker.PointDir(P0, -D)
            elif k == 'displaced':
                L2 = sm.Plucker.PointDir(P0 + np.asarray(p['shift'], float), D)
            elif k in ('near_parallel_offset', 'near_tilted', 'same_other_point'):
                # general (non-integer) data: a parallel line a small but clearly resolvable distance away (1e-6 .. 1e-3 of the
                # data magnitude), a line through the same point tilted by 1e-6 .. 1e-3 rad, and the same line given by another of
                # its points and a positively rescaled direction (differs by rounding only)
                L2 = sm.Plucker.PointDir(np.asarray(p['P2'], float), np.asarray(p['D2'], float))
            else:
                L2 = sm.Plucker.PointDir(P0, D)
            got, gotne = L1 == L2, L1 != L2
            ok = bool(got) == bool(p['want']) and bool(gotne) == (not p['want'])
            sig['variant'] = k
        elif which == 'parallel':
            D = np.asarray(p['D'], float)
            L1 = sm.Plucker.PointDir(p['P'], D)
            L2 = sm.Plucker.PointDir(p['P2'], D * p['factor'] if p['want'] else np.asarray(p['D2'], float))
            got = (L1 | L2, L1.isparallel(L2))
            ok = bool(got[0]) == bool(p['want']) and bool(got[1]) == bool(p['want'])
        elif which == 'intersect':
            # lines through the origin intersect exactly (moments are zero); skew lines far apart do not
            L1 = sm.Plucker.PointDir(p['P'], p['D'])
            L2 = sm.Plucker.PointDir(p['P2'], p['D2'])
            got = L1 ^ L2
            ok = bool(got) == bool(p['want'])
        elif which == 'contains':
            L = sm.Plucker.PointDir(p['P'], p['D'])
            got = L.contains(np.asarray(p['x'], float))
            ok = bool(got) == bool(p['want'])
        elif which == 'contains_tol':
            # general-position line, points of the line from point(lambda) mixed with points well off the line; the caller
            # states the tolerance relative to the data magnitude; the 3xN form must answer column by column like N calls
            P, Q = np.asarray(p['P'], float), np.asarray(p['Q'], float)
            L = sm.Plucker.PQ(P, Q)
            lam = np.asarray(p['lam'], float)
            X = np.asarray(L.point(lam), float).reshape(3, -1)
            m_ = mag(P, Q, X)
            onoff = [bool(t) for t in p['on']]
            u = np.cross(Q - P, np.asarray(p['offdir'], float))
            u = u / np.linalg.norm(u)
            # points "on" the line carry measurement noise of 1e-10 relative (far above rounding, inside the caller's tolerance)
            tol = 1e-9          # relative to the data magnitude (documented meaning of tol)
            if p.get('near'):
                # points off the line by 2 .. 5 times the tolerance that applies to THEM (tol x max(1, |x|, |principal point|)), in one
                # batch with a point of the line 300 .. 1000 lengths away: each column is judged by its own magnitude
                d_ = (Q - P) / np.linalg.norm(Q - P)
                pp_ = P - np.dot(P, d_) * d_
                X = X + np.column_stack([u * 1e-10 * max(1.0, float(np.linalg.norm(X[:, i]))) * (1 if i % 2 else -1) if on else
                                         u * float(p['nearfac'][i]) * tol * max(1.0, float(np.linalg.norm(X[:, i])), float(np.linalg.norm(pp_))) for i, on in enumerate(onoff)])
            else:
                X = X + np.column_stack([u * 1e-10 * max(1.0, float(np.linalg.norm(X[:, i]))) * (1 if i % 2 else -1) if on else u * p['offdist'] * m_ for i, on in enumerate(onoff)])
            arr = [bool(t) for t in L.contains(X, tol=tol)]
            each = [bool(L.contains(X[:, i].copy(), tol=tol)) for i in range(X.shape[1])]
            cols = [L.contains(X[:, i:i + 1].copy(), tol=tol) for i in range(X.shape[1])]     # a single point as a 3x1 column: one answer, not a list
            colok = all(isinstance(c_, (bool, np.bool_)) for c_ in cols) and [bool(c_) for c_ in cols] == onoff
            got = (arr, each, cols)
            ok = arr == onoff and each == onoff and colok
            p = dict(p, want=onoff)
        elif which == 'plane_contains':
            pl = sm.Plane.PN(p['pt'], p['n'])
            got = pl.contains(np.asarray(p['x'], float))
            ok = bool(got) == bool(p['want'])
            sig['api'] = 'Plane.contains'
        else:
            raise KeyError(which)
    except Exception as e:
        ctx.bad('predicates', dict(sig, kind='raised', exc=type(e).__name__, where=_where(e)), 'predicate %s raised %r' % (which, e))
        return
    ctx.judge('predicates', ok, dict(sig, kind='predicate_wrong'), lambda: 'predicate %s returned %r, constructed ground truth is %r: %s' % (which, got, p['want'], core.short(core.J(p), 400)))
    ctx.cell('pred', which, str(p['want']) if which != 'contains_tol' else 'mixed', p.get('variant', ''))
    ctx.nontrivial('pred', which, str(p['want']), core.short(core.J(p), 300))


def run_line_history(ctx, p):
    """query a line object, replace the line it holds through the documented list interface, query again: every answer must be
    the geometry of the line held NOW (compared with a freshly built object and with the defining points)"""
    sm = S()
    P1, Q1, P2, Q2, x = (np.asarray(p[k], dtype=np.float64) for k in ('P1', 'Q1', 'P2', 'Q2', 'x'))
    how = p['how']
    sig = dict(api='Plucker.after_update', how=how)
    try:
        L = sm.Plucker.PQ(P1, Q1)
        M = sm.Plucker.PQ(P2, Q2)
        # first round of queries (whatever they cache)
        L.pp, L.uw, L.point(0.5), L.closest(x), L.contains(P1)
        if how == 'setitem':
            L[0] = M
        elif how == 'insert_pop':
            L.insert(0, M)
            L.pop()
        elif how == 'append_pop0':
            L.append(M)
            L.pop(0)
        elif how == 'reverse':
            L.append(M)
            L.reverse()
            L.pop()
        else:           # in-place write into the stored vector
            L.A[:] = M.A
        F = sm.Plucker.PQ(P2, Q2)
        m = mag(P2, Q2, x)
        d = Q2 - P2
        ppw = P2 + d * float(np.dot(-P2, d) / np.dot(d, d))
        cp, cd = L.closest(x)[0], L.closest(x)[1]
        fw, fd = F.closest(x)[0], F.closest(x)[1]
        checks = [('pp', md(L.pp, ppw)), ('pp vs fresh object', md(L.pp, F.pp)), ('uw', md(L.uw, F.uw)),
                  ('point(0.5) on the line', on_line(np.asarray(L.point(0.5)).reshape(-1), P2, d)), ('point(-2) vs fresh', md(np.asarray(L.point(-2.0)).reshape(-1), np.asarray(F.point(-2.0)).reshape(-1))),
                  ('closest point', md(np.asarray(cp).reshape(-1), np.asarray(fw).reshape(-1))), ('closest distance', abs(float(cd) - on_line(x, P2, d)))]
    except Exception as e:
        ctx.bad('line', dict(sig, kind='raised', exc=type(e).__name__, where=_where(e)), 'line queries after %s raised %r' % (how, e))
        return
    for name, dv in checks:
        ctx.judge('line', dv <= TOL * m, dict(sig, kind='stale_geometry', what=name.split(' ')[0]),
                  lambda: 'after %s the object answers %s for the line it held before: off by %.3g (P1=%s Q1=%s now P2=%s Q2=%s)' % (how, name, dv, P1, Q1, P2, Q2))
    ctx.cell('line_history', how)
    ctx.nontrivial('line_history', how, [float('%.9g' % v) for v in np.r_[P1, Q1, P2, Q2]])


def run_volume(ctx, p):
    """a line through the inside of an axis-aligned box: intersect_volume returns the two piercing points, each on the line, on the
    surface of the box, and each equal to point() of the parameter reported in the same position"""
    sm = S()
    P, d, b = np.asarray(p['P'], float), np.asarray(p['d'], float), np.asarray(p['bounds'], float)
    sig = dict(api='Plucker.intersect_volume')
    m = max(1.0, float(np.max(np.abs(b))), float(np.max(np.abs(P))))
    try:
        L = sm.Plucker.PointDir(P, d)
        r = L.intersect_volume(b if p.get('form', 'array') == 'array' else b.tolist())
        pts, lam = np.asarray(r.p, dtype=np.float64), np.asarray(r.lam, dtype=np.float64).reshape(-1)
        back = np.asarray(L.point(lam), dtype=np.float64) if lam.size else np.zeros((3, 0))
    except Exception as e:
        ctx.bad('incidence', dict(sig, kind='raised', exc=type(e).__name__), 'intersect_volume(%s) of the line through %s along %s raised %r' % (b, P, d, e))
        return
    if pts.shape != (3, 2) or lam.shape != (2,):
        ctx.bad('incidence', dict(sig, kind='count_or_shape'), 'a line through the interior point %s of the box %s gives p of shape %s, lam of shape %s' % (P, b, pts.shape, lam.shape))
        return
    lo, hi = b[0::2], b[1::2]
    for k in range(2):
        onl = on_line(pts[:, k], P, d)
        onsurf = float(np.min(np.minimum(np.abs(pts[:, k] - lo), np.abs(pts[:, k] - hi))))
        inside = float(np.max(np.maximum(lo - pts[:, k], pts[:, k] - hi)))
        pair = md(back[:, k], pts[:, k])
        ctx.judge('incidence', max(onl, onsurf, inside, pair) <= TOL * m * 10, dict(sig, kind='piercing_point_wrong' if max(onl, onsurf, inside) > TOL * m * 10 else 'point_and_parameter_not_paired'),
                  lambda: 'intersect_volume(%s), line through %s along %s: p[:,%d] = %s is %.3g off the line, %.3g off the surface, %.3g outside; point(lam[%d]) differs from it by %.3g' % (
                      b, P, d, k, pts[:, k], onl, onsurf, inside, k, pair))
    ctx.cell('volume', p.get('form', 'array'), ''.join('+' if x > 0 else '-' if x < 0 else '0' for x in d))
    ctx.nontrivial('volume', [float('%.9g' % x) for x in np.r_[P, d, b]])


RUNNERS = {'volume': run_volume, 'line_history': run_line_history, 'line': run_line, 'transform': run_transform, 'pair': run_pair, 'plane': run_plane, 'pred': run_pred}


def REACH():
    sm = S()
    P, PL = sm.Plucker.__dict__, sm.Plane.__dict__
    names = ['PQ', 'PointDir', 'Planes', 'pp', 'ppd', 'point', 'contains', 'closest', '__eq__', '__ne__', 'isparallel', '__or__', '__xor__',
             'intersects', 'distance', 'commonperp', '__mul__', '__rmul__', 'intersect_plane']
    return [P[n] for n in names if n in P] + [PL['PN'], PL['contains']]


# ----------------------------------------------------------------------------- workload
def direction(rng):
    r_ = rng.random()
    if r_ < 0.12:
        # nearly of unit length, not exactly: a unit vector typed in to six decimals, one that passed through single precision,
        # one scaled by 1 +- 1e-9 .. 1e-5
        a = gen.unit_axis(rng)
        k = rng.integers(3)
        return np.round(a, 6) if k == 0 else a.astype(np.float32).astype(np.float64) if k == 1 else a * (1 + gen.sign(rng) * gen.logu(rng, 1e-9, 1e-5))
    return gen.unit_axis(rng) * (1.0 if r_ < 0.3 else gen.logu(rng, 1e-3, 1e3))


def point(rng):
    return gen.vec(rng, 3, 1e-3, 1e3) if rng.random() < 0.9 else np.zeros(3)


def intvec(rng, lo=-6, hi=7):
    while True:
        v = rng.integers(lo, hi, 3).astype(float)
        if np.any(v):
            return v


def run(ctx):
    rng = ctx.rng
    for _ in range(ctx.scale(1500, 30000)):
        ctor = ['PQ', 'PointDir', 'vw'][rng.integers(3)]
        P = point(rng)
        if ctor == 'PQ':
            Q = P + direction(rng)
        else:
            Q = direction(rng)
        p = dict(ctor=ctor, P=P, Q=Q, x=point(rng), lams=[0.0, float(rng.uniform(-5, 5)), float(gen.sign(rng) * gen.logu(rng, 1e-3, 1e3))][:int(rng.integers(1, 4))] + [float(rng.uniform(-5, 5)) for _ in range(int(rng.integers(0, 3)))],
                 lamform=['list', 'tuple', 'array', 'row', 'col'][rng.integers(5)])
        drive(RUNNERS, ctx, 'line', p)
        if rng.random() < 0.05:
            # small whole numbers: the moment Q x P and the direction fit an int8 / float16 array, the squares and products formed
            # from them inside pp / ppd / closest do not
            Pi, Qi = rng.integers(-9, 10, size=3).astype(float), rng.integers(-7, 8, size=3).astype(float)
            if np.any(Qi) and np.max(np.abs(np.cross(Qi, Pi))) <= 127:
                drive(RUNNERS, ctx, 'line', dict(p, ctor='vw', P=Pi, Q=Qi, vwtype=['int8', 'float16', 'float32', 'int64'][rng.integers(4)]))
        if rng.random() < 0.5:
            drive(RUNNERS, ctx, 'transform', dict(p, T=gen.se3(rng, hi=1e3)))
        if ctx.ncases % 499 == 1:
            ctx.sample(dict(case='line', **p), limit=4)
    for _ in range(ctx.scale(1200, 20000)):
        conf = ['general', 'general', 'intersecting', 'parallel', 'parallel_pts'][rng.integers(5)]
        P1, D1 = point(rng), direction(rng)
        if conf == 'general':
            P2, D2, extra = point(rng), direction(rng), {}
            if np.linalg.norm(np.cross(D1 / np.linalg.norm(D1), D2 / np.linalg.norm(D2))) < 1e-2:
                continue
        elif conf == 'intersecting':
            D2 = direction(rng)
            small = rng.random() < 0.25
            if small:      # nearly parallel: D1 turned by 1e-5 .. 1e-4 rad about an axis normal to it (the conditioning is eps / angle: 2e-11)
                u1 = D1 / np.linalg.norm(D1)
                nrm = np.cross(u1, gen.unit_axis(rng))
                if np.linalg.norm(nrm) < 0.1:
                    continue
                D2 = ref.f64(ref.mm(ref.rot(nrm / np.linalg.norm(nrm), float(gen.sign(rng) * gen.logu(rng, 1e-5, 1e-4))), u1.reshape(3, 1))).reshape(-1) * float(gen.logu(rng, 0.5, 2))
            elif np.linalg.norm(np.cross(D1 / np.linalg.norm(D1), D2 / np.linalg.norm(D2))) < 1e-2:
                continue
            X = P1 + float(rng.uniform(-3, 3)) * D1 / np.linalg.norm(D1)
            P2 = X + float(rng.uniform(-3, 3)) * D2 / np.linalg.norm(D2)
            extra = {'X': X}
            if small:
                extra['small_angle'] = True
        else:
            D2 = D1 * float(gen.logu(rng, 1e-2, 1e2)) * (1.0 if rng.random() < 0.7 else -1.0)
            P2, extra = point(rng), {}
        drive(RUNNERS, ctx, 'pair', dict(conf=conf, P1=P1, D1=D1, P2=P2, D2=D2, **extra))
    for _ in range(ctx.scale(400, 6000)):
        # a box around a point of the line (the point strictly inside), directions of either sign, some along a coordinate axis
        P = gen.vec(rng, 3, 1e-2, 1e2)
        d = gen.unit_axis(rng) * gen.logu(rng, 1e-2, 1e2)
        half = np.array([gen.logu(rng, 1e-1, 1e2) for _ in range(6)])
        b = np.array([P[0] - half[0], P[0] + half[1], P[1] - half[2], P[1] + half[3], P[2] - half[4], P[2] + half[5]])
        drive(RUNNERS, ctx, 'volume', dict(P=P, d=d, bounds=b, form=['array', 'list'][rng.integers(2)]))
    for _ in range(ctx.scale(300, 5000)):
        P1, Q1, P2, Q2 = point(rng), point(rng), point(rng), point(rng)
        if min(np.linalg.norm(P1 - Q1), np.linalg.norm(P2 - Q2)) < 1e-2 * mag(P1, Q1, P2, Q2):
            continue
        drive(RUNNERS, ctx, 'line_history', dict(P1=P1, Q1=Q1, P2=P2, Q2=Q2, x=point(rng), how=['setitem', 'insert_pop', 'append_pop0', 'reverse', 'write'][rng.integers(5)]))
    for _ in range(ctx.scale(1200, 20000)):
        which = ['PN', 'Planes', 'intersect_plane', 'P3'][rng.integers(4)]
        if which == 'P3':
            A3 = np.column_stack([point(rng), point(rng), point(rng)])
            if rng.random() < 0.4:       # small triangle far from the origin (sides 1e-2 .. 1, coordinates up to 1e3)
                c0, side = gen.unit_axis(rng) * gen.logu(rng, 1e1, 1e3), gen.logu(rng, 1e-2, 1.0)
                A3 = np.column_stack([c0, c0 + gen.unit_axis(rng) * side, c0 + gen.unit_axis(rng) * side])
                if np.linalg.norm(np.cross(A3[:, 1] - A3[:, 0], A3[:, 2] - A3[:, 0])) < 0.2 * side * side:
                    continue
            elif rng.random() < 0.3:     # thin triangle: two vertices close together, the third far away (angle at it 1e-4 .. 1e-1 rad)
                p0, p1 = gen.unit_axis(rng) * gen.logu(rng, 1e1, 1e3), gen.unit_axis(rng) * gen.logu(rng, 1e1, 1e3)
                d01 = float(np.linalg.norm(p1 - p0))
                off = np.cross(p1 - p0, gen.unit_axis(rng))
                if d01 < 1.0 or np.linalg.norm(off) < 1e-3 * d01:
                    continue
                p2 = p1 + off / np.linalg.norm(off) * d01 * gen.logu(rng, 1e-4, 1e-1)
                A3 = np.column_stack([[p0, p1, p2][i_] for i_ in rng.permutation(3)])
            if np.linalg.norm(np.cross(A3[:, 1] - A3[:, 0], A3[:, 2] - A3[:, 0])) < 1e-5:
                continue
            drive(RUNNERS, ctx, 'plane', dict(which=which, pts=A3))
        elif which == 'PN':
            drive(RUNNERS, ctx, 'plane', dict(which=which, pt=point(rng), n=direction(rng)))
        elif which == 'Planes':
            n1, n2 = direction(rng), direction(rng)
            if np.linalg.norm(np.cross(n1 / np.linalg.norm(n1), n2 / np.linalg.norm(n2))) < 1e-2:
                continue
            drive(RUNNERS, ctx, 'plane', dict(which=which, n1=n1, n2=n2, X=point(rng), asplane=bool(rng.integers(2))))
        else:
            P, D, n = point(rng), direction(rng), direction(rng)
            if abs(np.dot(D / np.linalg.norm(D), n / np.linalg.norm(n))) < 1e-2:
                continue
            drive(RUNNERS, ctx, 'plane', dict(which=which, P=P, Q=D, pt=point(rng), n=n, asplane=bool(rng.integers(2))))
    for _ in range(ctx.scale(3000, 50000)):
        which = ['eq', 'parallel', 'intersect', 'contains', 'plane_contains', 'contains_tol'][rng.integers(6)]
        if which == 'eq':
            variant = ['same', 'rescaled', 'reversed', 'displaced'][rng.integers(4)]
            P, D = intvec(rng), intvec(rng)
            shift = np.cross(D, intvec(rng))
            if variant == 'displaced' and not np.any(shift):
                continue
            if rng.random() < 0.25:
                P = np.zeros(3)         # a line through the origin: zero moment, so the direction alone tells a line from its reverse
            p = dict(which=which, P=P, D=D, variant=variant, factor=float(2.0 ** rng.integers(-3, 4)), shift=shift,
                     want=variant in ('same', 'rescaled'))
            if rng.random() < 0.5:
                P, D = point(rng), direction(rng)
                if rng.random() < 0.5:      # far from the origin: where a test on the angle between 6-vectors goes blind
                    P = gen.unit_axis(rng) * gen.logu(rng, 10, 1e3)
                du = D / np.linalg.norm(D)
                n_ = np.cross(du, gen.unit_axis(rng))
                if np.linalg.norm(n_) < 0.1:
                    continue
                n_ /= np.linalg.norm(n_)
                variant = ['near_parallel_offset', 'near_tilted', 'same_other_point'][rng.integers(3)]
                eps_ = gen.logu(rng, 1e-7, 1e-4)
                if variant == 'near_parallel_offset':
                    P2, D2 = P + n_ * eps_ * max(1.0, float(np.linalg.norm(P))), D * float(rng.uniform(0.5, 2))
                elif variant == 'near_tilted':
                    P2, D2 = P, (du * math.cos(eps_) + n_ * math.sin(eps_)) * np.linalg.norm(D) * float(rng.uniform(0.5, 2))
                else:
                    P2, D2 = P + du * float(rng.uniform(-3, 3)) * max(1.0, float(np.linalg.norm(P))), D * float(rng.uniform(0.5, 2))
                p = dict(which=which, P=P, D=D, variant=variant, P2=P2, D2=D2, want=variant == 'same_other_point')
        elif which == 'parallel':
            want = bool(rng.integers(2))
            D = intvec(rng)
            D2 = np.cross(D, intvec(rng)) + D
            if not want and np.linalg.norm(np.cross(D, D2)) < 1e-3:
                continue
            p = dict(which=which, P=point(rng), P2=point(rng), D=D, D2=D2, factor=float(2.0 ** rng.integers(-3, 4)) * (1 if rng.random() < 0.7 else -1), want=want)
        elif which == 'intersect':
            want = bool(rng.integers(2))
            D, D2 = intvec(rng), intvec(rng)
            if np.linalg.norm(np.cross(D, D2)) < 1e-3:
                continue
            if want:
                p = dict(which=which, P=np.zeros(3), D=D, P2=np.zeros(3), D2=D2, want=True)
            else:
                off = np.cross(D, D2)
                p = dict(which=which, P=np.zeros(3), D=D, P2=off / np.linalg.norm(off) * float(rng.uniform(0.5, 50)), D2=D2, want=False)
        elif which == 'contains_tol':
            P, Q = point(rng), point(rng)
            off = direction(rng)
            if np.linalg.norm(P - Q) < 1e-2 * max(1.0, np.linalg.norm(P), np.linalg.norm(Q)) or \
                    np.linalg.norm(np.cross(Q - P, off)) < 1e-2 * np.linalg.norm(Q - P) * np.linalg.norm(off):
                continue
            N = int(rng.integers(2, 8))
            p = dict(which=which, P=P, Q=Q, lam=rng.uniform(-3, 3, size=N) * np.linalg.norm(Q - P), on=[bool(rng.random() < 0.7) for _ in range(N)],
                     offdir=off, offdist=float(gen.logu(rng, 1e-3, 1.0)), variant='N=%d' % N)
            if rng.random() < 0.4:
                lam_ = rng.uniform(-3, 3, size=N) * np.linalg.norm(Q - P)
                far_ = int(rng.integers(N))
                lam_[far_] = gen.sign(rng) * rng.uniform(300, 1000) * np.linalg.norm(Q - P)
                on_ = [bool(rng.random() < 0.5) for _ in range(N)]
                on_[far_] = True
                p = dict(p, lam=lam_, on=on_, near=True, nearfac=[float(rng.uniform(2, 5)) for _ in range(N)], variant='near,N=%d' % N)
        elif which == 'contains':
            want = bool(rng.integers(2))
            D = intvec(rng)
            if want:
                p = dict(which=which, P=np.zeros(3), D=D, x=D * float(rng.integers(-4, 5)), want=True)
            else:
                P = point(rng)
                off = np.cross(D, intvec(rng))
                if np.linalg.norm(off) < 1e-3:
                    continue
                p = dict(which=which, P=P, D=D, x=P + off / np.linalg.norm(off) * float(rng.uniform(0.01, 50)), want=False)
        else:
            want = bool(rng.integers(2))
            pt, n = intvec(rng), intvec(rng)
            if want:
                inpl = np.cross(n, intvec(rng))
                p = dict(which=which, pt=pt, n=n, x=pt + inpl * float(rng.integers(-3, 4)), want=True)
            else:
                p = dict(which=which, pt=pt, n=n, x=pt + n * float(rng.uniform(0.01, 10)), want=False)
        drive(RUNNERS, ctx, 'pred', p)
