"""C07 -- invalid values are rejected: objects never hold non-members.

Monitors: (i) constructor oracle at the boundary of every class constructor with checking on
(an object returned although a supplied array is > 1e-6 from the group = violation);
(ii) object-invariant hook on __init__ of every list-capable class (no None element, element
shapes) -- fires for internal constructions too; (iii) membership predicates judged against an
independent SVD distance to the group, outside a band only; (iv) scalar predicates against
their definitions outside a 1e-6 band.
"""
import itertools
import math

import numpy as np

from .. import core, gen, ref
from ..core import drive
from ..instrument import hook_method

PROP = 'C07'
SHARDS = {'quick': 4, 'thorough': 16}
BAND = 1e-6
RULE = ('valid members (reference-built and built by the primitive constructors) perturbed by noise 1e-12..1 in one entry / '
        'all entries / scaled, reflections (one axis or reflection x rotation), last-row corruptions, non-algebra twist '
        'matrices; supplied bare, [bad], [good,bad], [bad,good], (good,bad,good) to every class constructor, and to every '
        'predicate with check=True. distinct = (class/predicate, container form, defect kind, magnitude band, array rounded)')
ASSUMPTIONS = ['UnitQuaternion is only given 3x3 arrays: a 4x4 array is documented as four quaternions (N x 4) and is normalised, not rejected',
               'distance to the group = Frobenius distance to the nearest proper rotation (SVD) combined with the last-row '
               'error; judged only when > 1e-6 (must reject) or when the value is an unperturbed primitive (must accept)']
MIN_EVALS = {'ctor.reject': {'quick': 2000, 'thorough': 30000}, 'ctor.accept': {'quick': 700, 'thorough': 10000},
             'predicate': {'quick': 6000, 'thorough': 100000}, 'scalar.predicate': {'quick': 1700, 'thorough': 20000},
             'invariant': {'quick': 800, 'thorough': 12000}}
_ctx = None
SHAPES = {'SO2': (2, 2), 'SE2': (3, 3), 'SO3': (3, 3), 'SE3': (4, 4), 'Quaternion': (4,), 'UnitQuaternion': (4,),
          'Twist2': (3,), 'Twist3': (6,)}


def S():
    import spatialmath
    return spatialmath


# ----------------------------------------------------------------------------- invariant hook
def invariant(cname):
    def on_return(args, kw, res, st):
        ctx = _ctx
        self = args[0]
        if type(self).__name__ != cname:      # subclass constructor runs its own hook
            return
        d = getattr(self, 'data', None)
        bad = None
        if not isinstance(d, list):
            bad = 'data is %s' % type(d).__name__
        else:
            for i, x in enumerate(d):
                if x is None:
                    bad = 'element %d is None' % i
                    break
                if not isinstance(x, np.ndarray) or x.shape != SHAPES[cname]:
                    bad = 'element %d is %s' % (i, core.short(x, 80))
                    break
        symbolic = isinstance(d, list) and any(isinstance(x, np.ndarray) and x.dtype == object for x in d)
        if symbolic:
            ctx.ood('invariant')
            return
        ctx.judge('invariant', bad is None, dict(api=cname + '.__init__', kind='object_invariant', what=(bad or '').split(' is ')[-1][:20]),
                  lambda: '%s object constructed from %s holds an invalid element: %s' % (cname, core.short(args[1:], 300), bad))
    return on_return


def setup(ctx):
    global _ctx
    _ctx = ctx
    sm = S()
    for cname in SHAPES:
        hook_method(getattr(sm, cname), '__init__', invariant(cname), mid='C07.%s.__init__' % cname)


# ----------------------------------------------------------------------------- distances
def dist(kind, a):
    a = np.asarray(a, dtype=np.float64)
    if not np.all(np.isfinite(a)):
        return math.inf
    if kind in ('SO2', 'SO3'):
        return ref.dist_to_SO(a)
    if kind in ('SE2', 'SE3'):
        return ref.dist_to_SE(a)
    if kind in ('se2', 'se3'):       # algebra form: zero diagonal / bottom row, skew block
        n = a.shape[0] - 1
        blk = a[:n, :n]
        return float(math.sqrt(np.linalg.norm(blk + blk.T) ** 2 / 4 + np.linalg.norm(a[n, :]) ** 2))
    raise ValueError(kind)


# ----------------------------------------------------------------------------- constructor oracle
def containers(form, good, bad, kind=None):
    if form.startswith('long:'):       # 'long:<n>:<pos>': a list (or, n odd, a tuple) of n arrays, the one in question at <pos>, members around it
        _, n, pos = form.split(':')
        n, pos = int(n), int(pos)
        g = np.asarray(good, dtype=np.float64)
        if kind in ('se2', 'se3'):
            others = [g * (1 + (k % 7)) for k in range(n)]
        else:
            # distinct members as valid as `good` itself: its columns permuted / negated by an exact quarter-turn frame (no rounding)
            d_ = 2 if g.shape[0] == 2 or kind in ('SE2',) else 3
            if d_ == 2:
                frames = [np.array([[c_, -s_], [s_, c_]]) + 0.0 for c_, s_ in ((1.0, 0.0), (0.0, 1.0), (-1.0, 0.0), (0.0, -1.0))]
            else:
                frames = []
                for perm in itertools.permutations(range(3)):
                    for sg in itertools.product((1.0, -1.0), repeat=3):
                        P_ = np.eye(3)[list(perm)] * np.array(sg)[:, None] + 0.0
                        if np.linalg.det(P_) > 0:
                            frames.append(P_)
            others = []
            for k in range(n):
                x = g.copy()
                x[:d_, :d_] = g[:d_, :d_] @ frames[k % len(frames)]
                others.append(x)
        items = others[:pos] + [bad] + others[pos + 1:]
        return items if n % 2 == 0 else tuple(items)
    if form == 'bare':
        return bad
    if form == '[bad]':
        return [bad]
    if form == '[good,bad]':
        return [good, bad]
    if form == '[bad,good]':
        return [bad, good]
    if form == '(good,bad,good)':
        return (good, bad, good)
    if form == 'stacked[bad]':         # one array of rank 3 (np.array([M]), what np.stack / a slice of a trajectory array gives)
        return np.array([np.asarray(bad, dtype=np.float64)])
    if form == 'stacked[good,bad]':
        return np.array([np.asarray(good, dtype=np.float64), np.asarray(bad, dtype=np.float64)])
    raise ValueError(form)


def run_ctor(ctx, p):
    """constructor with checking on, given an array at distance d from the group"""
    sm = S()
    cname, form = p['cls'], p['form']
    good, bad = np.asarray(p['good'], dtype=np.float64), np.asarray(p['bad'], dtype=np.float64)
    kind = p['kind']            # group the *array* should belong to (SO3, SE3, se3 ...)
    if p.get('dtype') == 'float32':
        bad32 = bad.astype(np.float32)
        bad = bad32.astype(np.float64)
    d = dist(kind, bad)
    C = getattr(sm, cname)
    given_bad = bad if p.get('dtype') != 'float32' else bad32
    if p.get('dtype') == 'object':
        # plain numbers in an array of dtype object (what np.array of mixed Python numbers, a pandas column or a SymPy matrix
        # evaluated to floats hands over): whether members are accepted in this form is not stated, non-members are still refused
        given_bad = bad.astype(object)
    if p.get('layout'):        # the same values held as a frozen / non-contiguous / Fortran-ordered array or nested lists of NumPy scalars
        given_bad = gen.layout(given_bad, p['layout'])
    arg = containers(form, good, given_bad, kind)
    sig = dict(api=cname, form=form if not form.startswith('long:') else 'long', defect=p['defect'])
    if form.startswith('long:'):
        form = 'long'
    if p.get('flag'):
        sig['flag'] = p['flag']
    if p.get('layout'):
        sig['layout'] = p['layout']
    if p.get('dtype') == 'object':
        sig['dtype'] = 'object'
        if p['defect'] == 'none' or d <= BAND:
            ctx.ood('ctor.reject')
            return
    if p.get('dtype') == 'float32':
        sig['dtype'] = 'float32'
        if p['defect'] == 'none' or d <= BAND:
            ctx.ood('ctor.reject')       # whether single-precision members are accepted is not stated; only rejection beyond the band is
            return
    if d <= BAND and form.startswith('stacked'):
        ctx.ood('ctor.reject')          # (a rank-3 array of valid members is not a documented form: accepting or refusing it is not judged)
        return
    if d <= BAND:
        # near-valid: not judged for rejection; if it is an unperturbed valid member it must be accepted
        if p['defect'] == 'none':
            try:
                X = C(arg)
                n = 1 if form == 'bare' else len(arg)
                ok = len(X) == n and all(isinstance(x, np.ndarray) for x in X.data)
                ctx.judge('ctor.accept', ok, dict(sig, kind='valid_not_held'), lambda: '%s(%s) holds %s' % (cname, form, core.short(X.data, 300)))
            except Exception as e:
                ctx.bad('ctor.accept', dict(sig, kind='valid_rejected', exc=type(e).__name__),
                        '%s(%s) rejected valid members with %r: %s' % (cname, form, e, core.short(bad, 300)))
            ctx.cell('accept', cname, form)
        else:
            ctx.ood('ctor.reject')
        return
    try:
        X = C(arg) if not p.get('flag') else C(arg, check=FLAG_ON[p['flag']])
    except Exception:
        ctx.ok('ctor.reject')
        ctx.cell('reject', cname, form, p['defect'], core.band(d))
        ctx.nontrivial(cname, form, p['defect'], np.round(bad, 9).tolist())
        return
    ctx.bad('ctor.reject', dict(sig, kind='accepted_nonmember', band=core.band(d), holds_none=any(x is None for x in X.data)),
            '%s(%s) returned an object although the supplied array is %.3g from the group (defect %s): array=%s data=%s' % (
                cname, form, d, p['defect'], core.short(bad, 400), core.short(X.data, 300)))


# ----------------------------------------------------------------------------- predicates
def run_pred(ctx, p):
    import spatialmath.base as base
    sm = S()
    name, kind = p['pred'], p['kind']
    a = np.asarray(p['a'], dtype=np.float64)
    if p.get('dtype') == 'float32':
        # single-precision input: the array is what its elements say in any precision; the 1e-6 band is a property of the group
        a32 = a.astype(np.float32)
        a = a32.astype(np.float64)
        d = dist(kind, a)
        given = a32
    else:
        d = dist(kind, a)
        given = a
    chk = FLAG_ON[p.get('flag') or 'True']       # checking switched on by True, or by another true value (1, numpy.True_: what a comparison gives)
    f = {'isR': lambda x: base.isR(x), 'isrot': lambda x: base.isrot(x, check=chk), 'ishom': lambda x: base.ishom(x, check=chk),
         'isrot2': lambda x: base.isrot2(x, check=chk), 'ishom2': lambda x: base.ishom2(x, check=chk),
         'SO2.isvalid': lambda x: sm.SO2.isvalid(x, check=chk), 'SE2.isvalid': lambda x: sm.SE2.isvalid(x, check=chk),
         'SO3.isvalid': lambda x: sm.SO3.isvalid(x, check=chk), 'SE3.isvalid': lambda x: sm.SE3.isvalid(x, check=chk),
         'Twist3.isvalid': lambda x: sm.Twist3.isvalid(x, check=chk), 'Twist2.isvalid': lambda x: sm.Twist2.isvalid(x, check=chk)}[name]
    sig = dict(api=name, defect=p['defect'])
    if p.get('flag'):
        sig['flag'] = p['flag']
    if p.get('dtype') == 'float32':
        sig['dtype'] = 'float32'
    if p.get('layout') and p['layout'] != 'npscalars':
        given = gen.layout(given, p['layout'])
        sig['layout'] = p['layout']
    try:
        r = f(given)
    except Exception as e:
        ctx.bad('predicate', dict(sig, kind='raised', exc=type(e).__name__), '%s raised %r on %s' % (name, e, core.short(a, 300)))
        return
    if d > BAND:
        ctx.judge('predicate', not r, dict(sig, kind='accepts_nonmember', band=core.band(d)),
                  lambda: '%s(check=True) is %r for an array %.3g from the group (defect %s): %s' % (name, r, d, p['defect'], core.short(a, 400)))
        ctx.cell('pred', name, p['defect'], core.band(d))
        ctx.nontrivial(name, p['defect'], np.round(a, 9).tolist())
    elif p['defect'] == 'none' and p.get('dtype') != 'float32':
        ctx.judge('predicate', bool(r), dict(sig, kind='rejects_primitive', src=p.get('src', 'ref')),
                  lambda: '%s(check=True) is %r for a value produced by %s: %s' % (name, r, p.get('src'), core.short(a, 400)))
        ctx.cell('pred', name, 'valid', p.get('src', 'ref'))
    else:
        ctx.ood('predicate')


def run_scalar(ctx, p):
    import spatialmath.base as base
    import spatialmath.base.quaternions as bq
    name, x, want = p['pred'], p['x'], p['want']
    x = np.asarray(x, dtype=np.float64) if not np.isscalar(x) else float(x)
    f = {'isunitvec': base.isunitvec, 'iszerovec': base.iszerovec, 'iszero': base.iszero, 'isskew': base.isskew,
         'isskewa': base.isskewa, 'iseye': base.iseye, 'isunit': bq.isunit, 'isunittwist': base.isunittwist,
         'isunittwist2': base.isunittwist2,
         # the twist classes' own unit predicate (a property): same definition of a unit twist
         'Twist3.isunit': lambda v: S().Twist3(v).isunit, 'Twist2.isunit': lambda v: S().Twist2(v).isunit}[name]
    sig = dict(api=('base.' + name) if '.' not in name else name, want=bool(want), cls=p.get('case', ''))
    try:
        r = bool(f(x))
    except Exception as e:
        ctx.bad('scalar.predicate', dict(sig, kind='raised', exc=type(e).__name__), '%s raised %r on %s' % (name, e, core.short(x)))
        return
    ctx.judge('scalar.predicate', r == bool(want), dict(sig, kind='disagrees_with_definition'),
              lambda: 'base.%s(%s) is %r, the definition gives %r (%s)' % (name, core.short(x, 300), r, want, p.get('case')))
    ctx.cell('scalar', name, bool(want), p.get('case', ''))
    ctx.nontrivial(name, want, np.round(np.asarray(x, dtype=float), 9).tolist())


def member_ok(cname, x):
    """is array x a value an object of class cname may hold?  shape, finiteness and (poses, unit quaternion) group membership"""
    if not isinstance(x, np.ndarray) or x.shape != SHAPES[cname] or x.dtype == object or not np.all(np.isfinite(x)):
        return False
    if cname in ('SO2', 'SO3', 'SE2', 'SE3'):
        return dist(cname, x) <= BAND
    if cname == 'UnitQuaternion':
        return abs(float(np.linalg.norm(x)) - 1) <= BAND
    return True


def dtype_array(p):
    """a non-member whose defect only shows if the arithmetic is done in a wider type than the array's own: integer matrices whose
    products wrap around to the identity, complex-orthogonal matrices (R R^T = I, det = 1, entries of magnitude > 1), unsigned
    'skew' matrices whose sum with the transpose wraps to zero"""
    n, k = p['n'], p['defect']
    if k == 'int_wrap':
        dt = np.dtype(p['itype'])
        x = np.iinfo(dt).max if dt.kind == 'i' else (np.iinfo(dt).max // 2 + 2)        # x * x = 1 modulo 2**bits
        M = np.eye(n, dtype=dt)
        for j in p['where']:
            M[j, j] = x
        return M
    if k == 'complex_orthogonal':
        t = p['t']
        M = np.eye(n, dtype=complex)
        M[:2, :2] = [[np.cosh(t), 1j * np.sinh(t)], [-1j * np.sinh(t), np.cosh(t)]]
        return M
    if k == 'unsigned_skew':
        dt = np.dtype(p['itype'])
        M = np.zeros((n, n), dtype=dt)
        M[0, 1] = p['v']
        M[1, 0] = np.iinfo(dt).max - p['v'] + 1       # v + this = 0 modulo 2**bits, but it is not -v
        return M
    if k == 'complex_translation':       # a proper rotation block, real last row, imaginary translation
        M = np.eye(n, dtype=complex)
        c_, s_ = math.cos(p['t']), math.sin(p['t'])
        M[:2, :2] = [[c_, -s_], [s_, c_]]
        M[0, n - 1] = 1j * (1.0 + p['t'])
        return M
    if k == 'half_precision_unit':       # norm 1.0002: in float16 arithmetic it rounds to exactly 1
        return np.array([1.0, 0.02] + [0.0] * (n - 2), dtype=np.float16)
    if k == 'half_precision_zero':       # length 1e-4, below the resolution of float16 next to 1 but not zero
        return np.array([p['v'] * 1e-4] + [0.0] * (n - 1), dtype=np.float16)
    if k == 'half_precision_skew':
        M = np.zeros((n, n), dtype=np.float16)
        M[0, 1] = 1e-4 * p['v']
        return M
    raise KeyError(k)


def run_dtype(ctx, p):
    import spatialmath.base as base
    sm = S()
    M = dtype_array(p)
    tgt = p['target']
    sig = dict(api=tgt, defect=p['defect'])
    preds = {'isR': lambda x: base.isR(x), 'isrot': lambda x: base.isrot(x, check=True), 'ishom': lambda x: base.ishom(x, check=True),
             'isrot2': lambda x: base.isrot2(x, check=True), 'ishom2': lambda x: base.ishom2(x, check=True),
             'isskew': base.isskew, 'isskewa': base.isskewa, 'isunitvec': base.isunitvec, 'iszerovec': base.iszerovec,
             'isunit': __import__('spatialmath.base.quaternions', fromlist=['x']).isunit}
    what = lambda: '%s given a %s %s array %s' % (tgt, p['defect'], M.dtype, core.short(M, 300))
    if tgt in preds:
        arg = M
        if p.get('scalars') and M.ndim == 1:       # the same numbers as a list / tuple of NumPy scalars of that type
            arg = [x for x in M] if p['scalars'] == 'list' else tuple(x for x in M)
            sig['form'] = p['scalars'] + ' of scalars'
        try:
            r = preds[tgt](arg)
        except (TypeError, ValueError):
            r = False        # refusing the element type altogether is a rejection too
        ctx.judge('predicate', not r, dict(sig, kind='accepts_nonmember'), lambda: '%s returned %r' % (what(), r))
    else:
        C = getattr(sm, tgt)
        try:
            X = C(M if p.get('form') != 'list' else [M])
        except Exception:
            ctx.ok('ctor.reject')
            ctx.cell('dtype', tgt, p['defect'], 'raises')
            ctx.nontrivial('dtype', tgt, p['defect'], p.get('itype'), p.get('form'))
            return
        d_ = getattr(X, 'data', None)
        ok = isinstance(d_, list) and all(member_ok(tgt, np.asarray(x, dtype=np.float64) if np.asarray(x).dtype.kind in 'iuf' else np.full(SHAPES[tgt], np.nan)) for x in d_) \
            if tgt not in ('Twist2', 'Twist3') else False
        ctx.judge('ctor.reject', ok, dict(sig, kind='object_holds_nonmember'), lambda: '%s returned an object holding %s' % (what(), core.short(d_, 300)))
    ctx.cell('dtype', tgt, p['defect'])
    ctx.nontrivial('dtype', tgt, p['defect'], p.get('itype'), p.get('form'))


MUTATOR_FORMS = ('append', 'insert', 'setitem', 'setslice', 'extend')


def run_objarg(ctx, p):
    """a library object (of any class, holding 1 or 2 values), a list of them, or a degenerate numeric argument handed to a
    constructor: either an exception, or an object every element of which is a member (documented conversions)"""
    sm = S()
    cname, what_ = p['cls'], p['what']
    C = getattr(sm, cname)
    sig = dict(api=cname, arg=what_, form=p['form'])
    try:
        if what_ == 'object':
            from .c10_list import single, from_list
            d = p['other']
            arrs = [np.asarray(a, dtype=np.float64) for a in p['arrs']]
            obj = single(d, arrs[0])[0] if len(arrs) == 1 else from_list(d, arrs)
            sig['other'] = d
            sig['values'] = len(arrs)
        else:
            obj = np.asarray(p['vec'], dtype=np.float64)       # degenerate numeric argument (zero / tiny / non-finite)
            sig['defect'] = p['defect']
        if p['form'] in ('Nx4:first', 'Nx4:last', '1x4'):
            # the degenerate 4-vector as one row of the N x 4 array form, next to valid unit rows
            good_ = np.array([[1.0, 0, 0, 0], [0.5, 0.5, 0.5, 0.5]])
            arg = obj.reshape(1, 4) if p['form'] == '1x4' else np.vstack([obj, good_] if p['form'] == 'Nx4:first' else [good_, obj])
        else:
            arg = obj if p['form'] == 'bare' else [obj]
    except Exception as e:
        ctx.harness_errors.append('objarg operand construction failed: %r' % (e,))
        return
    try:
        if p['form'] in MUTATOR_FORMS:
            # the object handed to a list-mutation method of a valid object of class C: it is refused, or what C then holds are members
            X = C()
            if p['form'] == 'append':
                X.append(obj)
            elif p['form'] == 'insert':
                X.insert(0, obj)
            elif p['form'] == 'setitem':
                X[0] = obj
            elif p['form'] == 'setslice':
                X[0:1] = obj
            else:
                X.extend(obj)
        else:
            X = C(arg)
    except Exception:
        ctx.ok('ctor.reject')
        ctx.cell('objarg', cname, what_, p.get('other', p.get('defect')), p['form'], 'raises')
        ctx.nontrivial('objarg', cname, p.get('other', p.get('defect')), p['form'], len(p.get('arrs', [])))
        return
    d_ = getattr(X, 'data', None)
    ok = isinstance(d_, list) and all(member_ok(cname, x) for x in d_)
    ctx.judge('ctor.reject', ok, dict(sig, kind='object_holds_nonmember'),
              lambda: '%s(%s) returned an object holding %s' % (cname, core.short(arg, 200) if what_ != 'object' else '%s%s holding %d value(s)' % (
                  '[' if p['form'] != 'bare' else '', p['other'], len(p['arrs'])), core.short(d_, 300)))
    ctx.cell('objarg', cname, what_, p.get('other', p.get('defect')), p['form'], 'accepts')
    ctx.nontrivial('objarg', cname, p.get('other', p.get('defect')), p['form'], len(p.get('arrs', [])))


def CALLS():
    """other ways in which a value can reach an object: name -> (class of the result, builder(sm, base, v) -> object)"""
    sk = ref.skew
    ska = ref.skewa
    one = lambda n: (lambda v: np.asarray(v[:n], dtype=np.float64))
    return {
        # exponential constructors given an element of the WRONG algebra (right algebra: decided by C03)
        'SE3.Exp(3-vector)': ('SE3', lambda sm, b, v: sm.SE3.Exp(v[:3])), 'SE3.Exp(3x3 skew)': ('SE3', lambda sm, b, v: sm.SE3.Exp(sk(v[:3]))),
        'SE3.Exp(2x3)': ('SE3', lambda sm, b, v: sm.SE3.Exp(v[:6].reshape(2, 3))), 'SE3.Exp([[3-vector]])': ('SE3', lambda sm, b, v: sm.SE3.Exp([list(v[:3])])),
        'SO3.Exp(6-vector)': ('SO3', lambda sm, b, v: sm.SO3.Exp(v[:6])), 'SO3.Exp(4x4 skewa)': ('SO3', lambda sm, b, v: sm.SO3.Exp(ska(v[:6]))),
        'SE2.Exp(1-vector)': ('SE2', lambda sm, b, v: sm.SE2.Exp(v[:1])), 'SE2.Exp(2x2 skew)': ('SE2', lambda sm, b, v: sm.SE2.Exp(sk(v[:1]))),
        'SO2.Exp(3-vector)': ('SO2', lambda sm, b, v: sm.SO2.Exp(v[:3])), 'SO2.Exp(3x3 skewa)': ('SO2', lambda sm, b, v: sm.SO2.Exp(ska(v[:3]))),
        # a matrix where the first of several separate scalars is expected
        'SE3(T, 0, 0)': ('SE3', lambda sm, b, v: sm.SE3(b.trotx(v[0], t=v[1:4]), 0, 0)), 'SE3(2I, 0, 0)': ('SE3', lambda sm, b, v: sm.SE3(2 * np.eye(4), 0, 0)),
        'SE2(T, 0)': ('SE2', lambda sm, b, v: sm.SE2(b.trot2(v[0], t=v[1:3]), 0)), 'SE2(2I, 0, 0)': ('SE2', lambda sm, b, v: sm.SE2(2 * np.eye(3), 0, 0)),
        # the two-argument twist constructors given row / column vectors
        'Twist3(row, row)': ('Twist3', lambda sm, b, v: sm.Twist3(v[:3].reshape(1, 3), v[3:6].reshape(1, 3))),
        'Twist3(col, col)': ('Twist3', lambda sm, b, v: sm.Twist3(v[:3].reshape(3, 1), v[3:6].reshape(3, 1))),
        'Twist2(row, w)': ('Twist2', lambda sm, b, v: sm.Twist2(v[:2].reshape(1, 2), float(v[2]))),
        # normalisation switched off while checking stays on (the default): a non-unit quaternion must not get in
        'UnitQuaternion(s, v, norm=False)': ('UnitQuaternion', lambda sm, b, v: sm.UnitQuaternion(float(v[0]), v[1:4], norm=False)),
        'UnitQuaternion(Nx4, norm=False)': ('UnitQuaternion', lambda sm, b, v: sm.UnitQuaternion(np.vstack([v[:4], v[2:6]]), norm=False)),
        'UnitQuaternion(4-vector, norm=False)': ('UnitQuaternion', lambda sm, b, v: sm.UnitQuaternion(v[:4], norm=False)),
    }


def run_call(ctx, p):
    """see CALLS(): either an exception or an object every element of which is a member of its class"""
    import spatialmath.base as base
    name = p['call']
    cname, f = CALLS()[name]
    v = np.asarray(p['v'], dtype=np.float64)
    sig = dict(api=cname, call=name)
    try:
        X = f(S(), base, v)
    except Exception:
        ctx.ok('ctor.reject')
        ctx.cell('call', name, 'raises')
        ctx.nontrivial('call', name, [float('%.6g' % t) for t in v])
        return
    d_ = getattr(X, 'data', None)
    ok = type(X).__name__ == cname and isinstance(d_, list) and len(d_) >= 1 and all(member_ok(cname, x) for x in d_)
    ctx.judge('ctor.reject', ok, dict(sig, kind='object_holds_nonmember'),
              lambda: '%s with v=%s returned a %s holding %s' % (name, v, type(X).__name__, core.short(d_, 300)))
    ctx.cell('call', name, 'accepts')
    ctx.nontrivial('call', name, [float('%.6g' % t) for t in v])


def run_refill(ctx, p):
    """membership is decided by the numbers an array holds when it is handed over, whatever happened to the same array object before:
    a work array accepted once and refilled in place with a non-member (or given to another class) is judged afresh"""
    sm = S()
    C1, C2 = getattr(sm, p['first']), getattr(sm, p['cls'])
    kind = p['kind']
    buf = np.array(p['good'], dtype=np.float64)
    bad = np.asarray(p['bad'], dtype=np.float64)
    owner = buf
    if p.get('frozen') == 'view':        # what is handed over is a read-only window onto a buffer its owner keeps writing to
        buf = owner.view()
        buf.flags.writeable = False
    elif p.get('frozen') == 'thaw':      # a frozen array that its owner thaws, updates and freezes again
        buf.flags.writeable = False
    sig = dict(api=p['cls'], form=p['form'], defect=p['defect'], history='accepted by %s, then %s' % (
        'the same class' if p['first'] == p['cls'] else 'another class', 'refilled in place' if p['refill'] else 'given again'))
    try:
        X1 = C1(buf)
        pr1 = C1.isvalid(buf) if hasattr(C1, 'isvalid') else None
    except Exception:
        ctx.ood('ctor.reject')
        return
    if p['refill']:
        if p.get('frozen') == 'thaw':
            buf.flags.writeable = True
            buf[...] = bad
            buf.flags.writeable = False
        else:
            owner[...] = bad
    d = dist(kind, buf)
    if d <= BAND:
        ctx.ood('ctor.reject')
        return
    others = [np.array(p['good'], dtype=np.float64) for _ in range(2)]
    arg = {'bare': buf, '[bad]': [buf], '[good,bad]': [others[0], buf], '(good,bad,good)': (others[0], buf, others[1])}[p['form']]
    try:
        X = C2(arg)
    except Exception:
        ctx.ok('ctor.reject')
        ctx.cell('reject_refilled', p['first'], p['cls'], p['form'], p['defect'])
    else:
        ctx.bad('ctor.reject', dict(sig, kind='accepted_nonmember', band=core.band(d)),
                '%s(%s) accepted an array %.3g from its group (defect %s) that had earlier been accepted by %s%s: %s' % (
                    p['cls'], p['form'], d, p['defect'], p['first'], ' and was then refilled in place' if p['refill'] else '', core.short(buf, 300)))
    if hasattr(C2, 'isvalid'):
        try:
            r = C2.isvalid(buf, check=True)
        except Exception:
            r = False
        ctx.judge('predicate', not r, dict(api=p['cls'] + '.isvalid', defect=p['defect'], kind='accepts_nonmember', history=sig['history']),
                  lambda: '%s.isvalid is True for an array %.3g from the group that was a member when first seen: %s' % (p['cls'], d, core.short(buf, 300)))


RUNNERS = {'dtype': run_dtype, 'ctor': run_ctor, 'pred': run_pred, 'scalar': run_scalar, 'objarg': run_objarg, 'call': run_call, 'refill': run_refill}


def REACH():
    import spatialmath.base as b
    import spatialmath.base.quaternions as bq
    sm = S()
    return [b.isR, b.isrot, b.ishom, b.isrot2, b.ishom2, b.isskew, b.isskewa, b.iseye, bq.isunit, b.isunitvec, b.iszerovec,
            sm.smuserlist.SMUserList.__dict__['arghandler'], sm.smuserlist.SMUserList.__dict__['_import'],
            sm.Twist3.__dict__['isvalid'], sm.Twist2.__dict__['isvalid'], sm.Twist3.__dict__['_import']]


# ----------------------------------------------------------------------------- workload
def valid_member(rng, kind):
    """(array, source)"""
    import spatialmath.base as base
    if rng.random() < 0.5:
        # primitive constructors of the library
        u = ['rad', 'deg'][rng.integers(2)]
        a = gen.angle(rng) * (180 / math.pi if u == 'deg' else 1)
        if kind == 'SO3':
            k = rng.integers(6)
            if k == 0:
                return [base.rotx, base.roty, base.rotz][rng.integers(3)](a, unit=u), 'rotx/y/z'
            if k == 1:
                return base.rpy2r([gen.angle(rng), gen.angle(rng), gen.angle(rng)], order=['zyx', 'xyz', 'yxz'][rng.integers(3)]), 'rpy2r'
            if k == 2:
                return base.eul2r([gen.angle(rng), gen.angle(rng), gen.angle(rng)]), 'eul2r'
            if k == 3:
                return base.angvec2r(gen.angle(rng), gen.axis(rng)), 'angvec2r'
            if k == 4:
                return base.trexp(gen.unit_axis(rng) * gen.rot_angle(rng)), 'trexp'
            return base.q2r(gen.unit_quat(rng)), 'q2r'
        if kind == 'SE3':
            k = rng.integers(4)
            t = gen.transl(rng)
            if k == 0:
                return [base.trotx, base.troty, base.trotz][rng.integers(3)](a, unit=u, t=t), 'trotx/y/z'
            if k == 1:
                return base.transl(t), 'transl'
            if k == 2:
                return base.trexp(np.r_[t, gen.unit_axis(rng) * gen.rot_angle(rng)]), 'trexp'
            return base.rpy2tr([gen.angle(rng), gen.angle(rng), gen.angle(rng)]), 'rpy2tr'
        if kind == 'SO2':
            return base.rot2(a, unit=u), 'rot2'
        if kind == 'SE2':
            k = rng.integers(3)
            t = gen.transl(rng, 2)
            if k == 0:
                return base.trot2(a, unit=u, t=t), 'trot2'
            if k == 1:
                return base.transl2(t), 'transl2'
            return base.xyt2tr(np.r_[t, gen.angle(rng)]), 'xyt2tr'
    return {'SO3': gen.so3, 'SE3': lambda r: gen.se3(r, hi=1e3), 'SO2': gen.so2, 'SE2': lambda r: gen.se2(r, hi=1e3)}[kind](rng), 'ref'


def corrupt(rng, kind, a, mag=None):
    """-> (bad array, defect kind)"""
    a = np.array(a, dtype=np.float64)
    n = a.shape[0] if kind in ('SO2', 'SO3') else a.shape[0] - 1
    mag = gen.logu(rng, 1e-12, 1.0) if mag is None else mag
    k = rng.integers(7)
    if k == 0:
        i, j = rng.integers(n), rng.integers(n)
        a[i, j] += gen.sign(rng) * mag
        return a, 'noise_one'
    if k == 1:
        a[:n, :n] += rng.normal(size=(n, n)) * mag
        return a, 'noise_all'
    if k == 2:
        a[:n, :n] *= (1 + gen.sign(rng) * mag)
        return a, 'scale'
    if k == 3:
        i = rng.integers(n)
        a[:n, i] = -a[:n, i]
        return a, 'reflect_axis'
    if k == 4:
        D = np.eye(n)
        D[rng.integers(n), rng.integers(n)] = 0
        D = np.eye(n)
        D[rng.integers(n)] *= -1
        a[:n, :n] = D @ a[:n, :n]
        return a, 'reflect_rot'
    if kind in ('SE2', 'SE3'):
        j = rng.integers(n + 1)
        a[n, j] += gen.sign(rng) * mag
        return a, 'lastrow'
    a[:n, :n] = a[:n, :n][:, ::-1]     # swap columns: improper
    return a, 'swap_columns'


def twist_matrix(rng, dim):
    """valid se(n) matrix and a corrupted one"""
    w = gen.unit_axis(rng) * gen.rot_angle(rng) if dim == 3 else np.array([gen.angle(rng)])
    v = gen.transl(rng, dim, hi=1e3)
    good = ref.skewa(np.r_[v, w])
    bad = good.copy()
    mag = gen.logu(rng, 1e-12, 1.0)
    k = rng.integers(3)
    if k == 0:
        i = rng.integers(dim)
        bad[i, i] += gen.sign(rng) * mag
        return good, bad, 'diag'
    if k == 1:
        bad[dim, rng.integers(dim + 1)] += gen.sign(rng) * mag
        return good, bad, 'bottom'
    i, j = rng.choice(dim, 2, replace=False)
    bad[i, j] += gen.sign(rng) * mag
    return good, bad, 'nonskew'


FLAG_ON = {'True': True, '1': 1, 'np.True_': np.True_}
FORMS = ['bare', '[bad]', '[good,bad]', '[bad,good]', '(good,bad,good)']
PRED_FOR = {'SO3': ['isR', 'isrot', 'SO3.isvalid'], 'SE3': ['ishom', 'SE3.isvalid'], 'SO2': ['isR', 'isrot2', 'SO2.isvalid'],
            'SE2': ['ishom2', 'SE2.isvalid']}


def scalar_case(rng):
    name = ['isunitvec', 'iszerovec', 'iszero', 'isskew', 'isskewa', 'iseye', 'isunit', 'isunittwist', 'isunittwist2', 'Twist3.isunit', 'Twist2.isunit'][rng.integers(11)]
    if name in ('Twist3.isunit', 'Twist2.isunit'):
        real = name
        name = 'isunittwist' if name == 'Twist3.isunit' else 'isunittwist2'
        out = _scalar_case_for(rng, name)
        out['pred'] = real
        return out
    return _scalar_case_for(rng, name)


def _scalar_case_for(rng, name):
    off = gen.sign(rng) * gen.logu(rng, 2e-6, 1.0)     # outside the 1e-6 band
    yes = rng.random() < 0.5
    if name == 'isunitvec':
        u = gen.unit_axis(rng) if rng.random() < 0.7 else np.array(gen.unit_quat(rng))
        u = u / np.linalg.norm(u)
        return dict(pred=name, x=u if yes else u * (1 + off), want=yes, case='norm')
    if name == 'iszerovec':
        n = int(rng.integers(1, 7))
        u = rng.normal(size=n)
        u /= np.linalg.norm(u)
        return dict(pred=name, x=np.zeros(n) if yes else u * abs(off), want=yes, case='norm')
    if name == 'iszero':
        return dict(pred=name, x=0.0 if yes else off, want=yes, case='abs')
    if name == 'isskew':
        n = 3 if rng.random() < 0.6 else 2
        Sk = ref.skew(gen.vec(rng, 3, 1e-3, 1e3) if n == 3 else gen.vec(rng, 1, 1e-3, 1e3))
        if not yes:
            i, j = rng.integers(n), rng.integers(n)
            Sk = Sk.copy()
            Sk[i, j] += off
        return dict(pred=name, x=Sk, want=yes, case='S+S.T')
    if name == 'isskewa':
        dim = 3 if rng.random() < 0.6 else 2
        good = ref.skewa(np.r_[gen.vec(rng, dim, 1e-3, 1e3), gen.vec(rng, 3 if dim == 3 else 1, 1e-3, 1e3)])
        if yes:
            return dict(pred=name, x=good, want=True, case='valid')
        bad = good.copy()
        if rng.random() < 0.5:
            bad[dim, rng.integers(dim + 1)] += off
            return dict(pred=name, x=bad, want=False, case='bottom_row')
        i, j = rng.integers(dim), rng.integers(dim)
        bad[i, j] += off
        return dict(pred=name, x=bad, want=False, case='block')
    if name == 'iseye':
        n = int(rng.integers(2, 5))
        I = np.eye(n)
        if not yes:
            I[rng.integers(n), rng.integers(n)] += off
        return dict(pred=name, x=I, want=yes, case='S-I')
    if name == 'isunit':
        q = gen.unit_quat(rng)
        return dict(pred=name, x=q if yes else q * (1 + off), want=yes, case='quaternion norm')
    if name == 'isunittwist':
        w = gen.unit_axis(rng)
        w = w / np.linalg.norm(w)
        v = gen.vec(rng, 3, 1e-3, 1e3)
        k = rng.integers(5)
        if k == 4:
            # unit translational part, but a rotational part that is neither zero nor of unit length: not a unit twist
            w2 = gen.unit_axis(rng)
            w2 = w2 / np.linalg.norm(w2)
            mag = gen.logu(rng, 2e-6, 1e3)
            if abs(mag - 1) < 2e-6:
                mag = 0.5
            return dict(pred=name, x=np.r_[w, w2 * mag], want=False, case='unit translational part, rotational part neither zero nor unit')
        if k == 0:
            return dict(pred=name, x=np.r_[v, w], want=True, case='unit rotational part')
        if k == 1:
            return dict(pred=name, x=np.r_[w, 0, 0, 0], want=True, case='irrotational unit translational part')
        if k == 2:
            return dict(pred=name, x=np.r_[v, w * (1 + off)], want=False, case='rotational part not unit')
        return dict(pred=name, x=np.r_[w * (1 + off), 0, 0, 0], want=False, case='irrotational not unit')
    th = rng.uniform(0, 2 * math.pi)
    u = np.array([math.cos(th), math.sin(th)])
    u = u / np.linalg.norm(u)
    v = gen.vec(rng, 2, 1e-3, 1e3)
    k = rng.integers(5)
    if k == 4:
        mag = gen.logu(rng, 2e-6, 1e3)
        if abs(mag - 1) < 2e-6:
            mag = 0.5
        return dict(pred=name, x=np.r_[u, gen.sign(rng) * mag], want=False, case='unit translational part, rotational part neither zero nor unit')
    if k == 0:
        return dict(pred=name, x=np.r_[v, gen.sign(rng)], want=True, case='unit rotational part')
    if k == 1:
        return dict(pred=name, x=np.r_[u, 0.0], want=True, case='irrotational unit translational part')
    if k == 2:
        return dict(pred=name, x=np.r_[v, 1 + off], want=False, case='rotational part not unit')
    return dict(pred=name, x=np.r_[u * (1 + off), 0.0], want=False, case='irrotational not unit')


def run(ctx):
    rng = ctx.rng
    for _ in range(ctx.scale(7000, 120000)):
        cname = ['SO2', 'SE2', 'SO3', 'SE3', 'UnitQuaternion', 'Twist2', 'Twist3'][rng.integers(7)]
        form = FORMS[rng.integers(5)]
        if cname in ('Twist2', 'Twist3'):
            dim = 3 if cname == 'Twist3' else 2
            good, bad, defect = twist_matrix(rng, dim)
            kind = 'se3' if dim == 3 else 'se2'
        else:
            # a 4x4 array given to UnitQuaternion has its own documented meaning (N x 4 quaternions, N = 4): only 3x3 here
            kind = cname if cname != 'UnitQuaternion' else 'SO3'
            good, _ = valid_member(rng, kind)
            other, _ = valid_member(rng, kind)
            bad, defect = corrupt(rng, kind, other)
            if cname == 'UnitQuaternion':
                form = 'bare'          # matrices are accepted by UnitQuaternion only as a bare array
            elif rng.random() < 0.1:
                form = ['stacked[bad]', 'stacked[good,bad]'][rng.integers(2)]
        if cname != 'UnitQuaternion' and not form.startswith('stacked') and rng.random() < 0.08:
            n_ = int([8, 15, 16, 17, 32, 64, 100][rng.integers(7)])
            form = 'long:%d:%d' % (n_, int(rng.integers(n_)))
        if rng.random() < 0.2:
            bad, defect = (valid_member(rng, kind)[0] if cname not in ('Twist2', 'Twist3') else good), 'none'
        p = dict(cls=cname, form=form, good=good, bad=bad, kind=kind, defect=defect)
        if rng.random() < 0.15:
            p['flag'] = ['1', 'np.True_'][rng.integers(2)]
        if rng.random() < 0.06 and defect != 'none':
            p['dtype'] = 'object'
        if rng.random() < 0.12 and cname not in ('Twist2', 'Twist3') and defect != 'none':
            # single-precision arrays whose defect sits just above the band (a tolerance scaled by the dtype's eps would let them in)
            other, _ = valid_member(rng, kind)
            for _try in range(20):
                bad, defect = corrupt(rng, kind, other, mag=gen.logu(rng, 3e-6, 3e-4))
                if defect in ('noise_one', 'noise_all', 'scale', 'lastrow'):
                    break
            p = dict(cls=cname, form=form, good=good, bad=bad, kind=kind, defect=defect, dtype='float32')
        if rng.random() < 0.25:
            p['layout'] = gen.LAYOUTS[rng.integers(4)]      # array layouts only: a nested list is not a documented matrix form
        drive(RUNNERS, ctx, 'ctor', p)
        if ctx.ncases % 1499 == 1:
            ctx.sample(dict(case='ctor', **p))
    for _ in range(ctx.scale(500, 8000)):
        cname = ['SO2', 'SE2', 'SO3', 'SE3'][rng.integers(4)]
        form = ['bare', '[bad]', '[good,bad]', '(good,bad,good)'][rng.integers(4)]
        good, _ = valid_member(rng, cname)
        if rng.random() < 0.7:
            other, _ = valid_member(rng, cname)
            bad, defect = corrupt(rng, cname, other, mag=gen.logu(rng, 1e-5, 1.0))
            drive(RUNNERS, ctx, 'refill', dict(first=cname, cls=cname, kind=cname, form=form, good=good, bad=bad, defect=defect, refill=True,
                                               frozen=[None, None, 'view', 'thaw'][rng.integers(4)]))
        else:
            # one 3 x 3 array object: a member of SE(2) handed to SO3 afterwards, or a member of SO(3) handed to SE2
            first, second = [('SE2', 'SO3'), ('SO3', 'SE2')][rng.integers(2)]
            good, _ = valid_member(rng, first)
            drive(RUNNERS, ctx, 'refill', dict(first=first, cls=second, kind=second, form=form, good=good, bad=good, defect='member of ' + first, refill=False))
    for _ in range(ctx.scale(7000, 120000)):
        kind = ['SO2', 'SE2', 'SO3', 'SE3'][rng.integers(4)]
        a, src = valid_member(rng, kind)
        defect = 'none'
        if rng.random() < 0.7:
            a, defect = corrupt(rng, kind, a)
        dt = None
        if rng.random() < 0.12:
            for _try in range(20):
                a2, defect2 = corrupt(rng, kind, valid_member(rng, kind)[0], mag=gen.logu(rng, 3e-6, 3e-4))
                if defect2 in ('noise_one', 'noise_all', 'scale', 'lastrow'):
                    a, defect, dt = a2, defect2, 'float32'
                    break
        lay = gen.LAYOUTS[rng.integers(4)] if rng.random() < 0.25 else None
        for name in PRED_FOR[kind]:
            drive(RUNNERS, ctx, 'pred', dict(pred=name, kind=kind, a=a, defect=defect, src=src, dtype=dt, layout=lay,
                                             flag=[None, None, None, '1', 'np.True_'][rng.integers(5)] if name != 'isR' else None))
    for _ in range(ctx.scale(800, 12000)):
        dim = int(rng.integers(2, 4))
        good, bad, defect = twist_matrix(rng, dim)
        valid = rng.random() < 0.3
        drive(RUNNERS, ctx, 'pred', dict(pred='Twist%d.isvalid' % dim, kind='se%d' % dim, a=good if valid else bad,
                                         defect='none' if valid else defect, src='ref'))
    for _ in range(ctx.scale(3500, 50000)):
        drive(RUNNERS, ctx, 'scalar', scalar_case(rng))
    for _ in range(ctx.scale(300, 6000)):
        defect = ['int_wrap', 'complex_orthogonal', 'unsigned_skew'][rng.integers(3)]
        if defect == 'unsigned_skew':
            tgt = ['isskew', 'isskewa', 'Twist2', 'Twist3'][rng.integers(4)]
            n = {'isskew': int(rng.integers(2, 4)), 'isskewa': int(rng.integers(3, 5)), 'Twist2': 3, 'Twist3': 4}[tgt]
            p = dict(target=tgt, defect=defect, n=n, itype=['uint8', 'uint16', 'uint32', 'uint64'][rng.integers(4)], v=int(rng.integers(1, 100)))
        else:
            tgt = ['isR', 'isrot', 'ishom', 'isrot2', 'ishom2', 'SO2', 'SE2', 'SO3', 'SE3'][rng.integers(9)]
            n = {'isR': int(rng.integers(2, 4)), 'isrot': 3, 'ishom': 4, 'isrot2': 2, 'ishom2': 3, 'SO2': 2, 'SE2': 3, 'SO3': 3, 'SE3': 4}[tgt]
            p = dict(target=tgt, defect=defect, n=n, form=['bare', 'list'][rng.integers(2)])
            if defect == 'int_wrap':
                p.update(itype=['int8', 'int16', 'int32', 'int64', 'uint8', 'uint64'][rng.integers(6)], where=[0, 1])
            else:
                p.update(t=float(rng.uniform(0.1, 2.0)))
        drive(RUNNERS, ctx, 'dtype', p)
        if rng.random() < 0.5:
            r_ = rng.integers(4)
            if r_ == 0:
                tgt = ['ishom', 'ishom2', 'SE3', 'SE2'][rng.integers(4)]
                q = dict(target=tgt, defect='complex_translation', n=4 if tgt in ('ishom', 'SE3') else 3, t=float(rng.uniform(0.1, 2.0)), form=['bare', 'list'][rng.integers(2)])
            elif r_ == 1:
                tgt = ['isunitvec', 'isunit'][rng.integers(2)]
                q = dict(target=tgt, defect='half_precision_unit', n=4 if tgt == 'isunit' else int(rng.integers(2, 5)), scalars=[None, 'list', 'tuple'][rng.integers(3)])
            elif r_ == 2:
                q = dict(target='iszerovec', defect='half_precision_zero', n=int(rng.integers(1, 5)), v=int(rng.integers(1, 9)), scalars=[None, 'list', 'tuple'][rng.integers(3)])
            else:
                tgt = ['isskew', 'isskewa'][rng.integers(2)]
                q = dict(target=tgt, defect='half_precision_skew', n=3 if tgt == 'isskew' else 4, v=int(rng.integers(1, 9)))
            drive(RUNNERS, ctx, 'dtype', q)
    k = 0
    for name in CALLS():
        for _ in range(3 if ctx.tier == 'quick' else 40):
            drive(RUNNERS, ctx, 'call', dict(call=name, v=gen.vec(rng, 6, 1e-1, 3.0)))
    # library objects and degenerate vectors as constructor arguments: every (class, other class) pair, 1 and 2 values, bare / in a list
    from .c10_list import element as el10, CLASSES as C10, EXTRA as X10
    for cname in SHAPES:
        for d in C10 + X10:
            for nvals in (1, 2):
                for form in ('bare', 'list') + (MUTATOR_FORMS if d != cname else ()):
                    k += 1
                    if not ctx.mine(k):
                        continue
                    for _ in range(1 if ctx.tier == 'quick' else 12):
                        drive(RUNNERS, ctx, 'objarg', dict(cls=cname, what='object', other=d, form=form, arrs=[el10(rng, d) for _ in range(nvals)]))
        n = SHAPES[cname][0] if len(SHAPES[cname]) == 1 else None
        if n is None or cname != 'UnitQuaternion':
            continue            # R^4 and the twist vector spaces have no membership condition; a unit quaternion has: norm 1
        for defect in ('zero', 'tiny', 'nan', 'inf'):
            for form in ('bare', 'list', 'Nx4:first', 'Nx4:last', '1x4'):
                k += 1
                if not ctx.mine(k):
                    continue
                for _ in range(2 if ctx.tier == 'quick' else 24):
                    v = np.zeros(n) if defect == 'zero' else rng.normal(size=n) * gen.logu(rng, 1e-30, 1e-17) if defect == 'tiny' else gen.vec(rng, n, 1e-2, 1e2)
                    if defect in ('nan', 'inf'):
                        v[rng.integers(n)] = np.nan if defect == 'nan' else gen.sign(rng) * np.inf
                    drive(RUNNERS, ctx, 'objarg', dict(cls=cname, what='vector', defect=defect, form=form, vec=v))
