"""C06 -- applying a pose to points is the rigid motion p -> R p + t.

History-free boundary monitor on `pose * points` for SO2/SE2/SO3/SE3/UnitQuaternion/
UnitDualQuaternion (value and shape against an independent R p + t), law monitor
((X*Y)*p = X*(Y*p), X.inv()*(X*p) = p, distances and handedness), route monitor (matrix,
unit quaternion, unit dual quaternion, homtrans, h2e.T.e2h, qvmul agree), and contracts on
homtrans / e2h / h2e / qvmul that also see the internal calls.  1e-9 relative to the data
magnitude (largest coordinate among points, translation and result).
"""
import math

import numpy as np

from .. import core, gen, ref
from ..core import drive
from ..instrument import hook_function

PROP = 'C06'
SHARDS = {'quick': 4, 'thorough': 16}
TOL = 1e-9
RULE = ('poses over the whole group (1..5 pairwise distinct values), point coordinates log-uniform 1e-6..1e6 with mixed signs, '
        'point argument as list/tuple/1-D/row/column/d x N (N=1..7 incl. N=d), 2-D and 3-D. distinct = (class, form, N, M, '
        'values rounded to 6 digits); non-trivial = pose not the identity and point not at the origin')
ASSUMPTIONS = ['R and t of the reference are read from the stored matrices (.data) of the pose; for quaternion classes from '
               'the reference quaternion->matrix map', 'a single transformed vector may come back with shape (d,) or (d,1)',
               'multi-valued pose times a d x N array is not covered by the statement and is not driven']
MIN_EVALS = {'action': {'quick': 4000, 'thorough': 80000}, 'laws': {'quick': 900, 'thorough': 15000},
             'routes': {'quick': 1000, 'thorough': 20000}, 'homog.contract': {'quick': 3000, 'thorough': 50000}}
_ctx = None


def S():
    import spatialmath
    return spatialmath


def fin(x):
    try:
        return bool(np.all(np.isfinite(np.asarray(x, dtype=np.float64))))
    except Exception:
        return False


def mk_pose(cname, mats):
    """library object from reference matrices (SE(d) matrices); quaternion classes via reference q"""
    sm = S()
    mats = [np.asarray(m, dtype=np.float64) for m in mats]
    d = mats[0].shape[0] - 1
    if cname in ('SO2', 'SO3'):
        arr = [m[:d, :d] for m in mats]
        return getattr(sm, cname)(arr if len(arr) > 1 else arr[0])
    if cname in ('SE2', 'SE3'):
        return getattr(sm, cname)(mats if len(mats) > 1 else mats[0])
    if cname == 'UnitQuaternion':
        objs = [sm.UnitQuaternion(sm.SO3(m[:3, :3])) for m in mats]
        return objs[0] if len(objs) == 1 else sm.UnitQuaternion(objs)
    if cname == 'UnitDualQuaternion':
        return sm.UnitDualQuaternion(sm.SE3(mats[0]))
    raise ValueError(cname)


def Rt_of(cname, mats, k):
    m = np.asarray(mats[k], dtype=np.float64)
    d = m.shape[0] - 1
    if cname in ('SO2', 'SO3', 'UnitQuaternion'):
        return m[:d, :d], np.zeros(d)
    return m[:d, :d], m[:d, d]


def apply_ref(R, t, P):
    """P: d x N"""
    return ref.f64(ref.mm(R, P) + np.asarray(t, dtype=ref.LD).reshape(-1, 1))


def magnitude(*arrs):
    m = 0.0
    for a in arrs:
        a = np.asarray(a, dtype=np.float64)
        if a.size:
            m = max(m, float(np.max(np.abs(a))))
    return m


def shape_form(P, form):
    """P: d x N reference points -> the argument in the requested container form"""
    d, N = P.shape
    if form in gen.FORMS or form == 'ntuple':
        return gen.as_form(P[:, 0], form)
    return np.array(P)


# ----------------------------------------------------------------------------- action
def run_act(ctx, p):
    cname, mats, form = p['cls'], p['mats'], p['form']
    P = np.asarray(p['P'], dtype=np.float64)
    d, N = P.shape
    M = len(mats)
    sig = dict(api=cname + '.__mul__', form=form if form != 'array2d' else 'dxN', M='1' if M == 1 else 'M',
               Neqd=bool(form == 'array2d' and N == d))
    try:
        X = mk_pose(cname, mats)
    except Exception as e:
        ctx.bad('action', dict(sig, kind='ctor_raised', exc=type(e).__name__), 'building %s raised %r' % (cname, e))
        return
    arg = shape_form(P, form)
    if p.get('layout') and isinstance(arg, np.ndarray):
        # the same points held as a frozen array, a slice of a bigger array, a Fortran-ordered or reversed-stride array
        arg = gen.layout(arg, p['layout'])
        sig['layout'] = p['layout']
    try:
        got = X * arg
    except Exception as e:
        ctx.bad('action', dict(sig, kind='raised', exc=type(e).__name__, where=_where(e)),
                '%s (%d values) * points(%s %s) raised %r' % (cname, M, form, np.shape(arg), e))
        return
    if not isinstance(got, np.ndarray) or got.dtype == object or not fin(got):
        ctx.bad('action', dict(sig, kind='not_an_array'), '%s * points returned %s' % (cname, core.short(got)))
        return
    if M == 1:
        R, t = Rt_of(cname, mats, 0)
        want = apply_ref(R, t, P)
        if form == 'array2d':
            # a d x 1 array may come back as a plain d-vector (not fixed by the statement)
            okshape = got.shape == (d, N) or (N == 1 and got.shape == (d,))
            G = got.reshape(d, N) if okshape else None
        else:
            okshape = got.shape in ((d,), (d, 1))
            G = got.reshape(d, 1) if okshape else None
    else:
        # M poses, one point -> one column per pose value
        want = np.hstack([apply_ref(*Rt_of(cname, mats, k), P[:, :1]) for k in range(M)])
        okshape = got.shape == (d, M)
        G = got if okshape else None
    if not okshape:
        ctx.bad('action', dict(sig, kind='shape', got=str(got.shape)),
                '%s (%d values) * points %s form %s returned shape %s' % (cname, M, P.shape, form, got.shape))
        return
    mag = magnitude(P, want, *[Rt_of(cname, mats, k)[1] for k in range(M)])
    err = float(np.max(np.abs(G - want)))
    ok = ctx.judge('action', err <= TOL * mag, dict(sig, kind='value'),
                   lambda: '%s (%d values) * points (form %s, N=%d): differs from R p + t by %.3g (allowed %.3g); got %s want %s; pose=%s' % (
                       cname, M, form, N, err, TOL * mag, core.short(G, 300), core.short(want, 300), core.short(mats, 500)))
    if M > 1 and hasattr(X, 'inv'):
        # X.inv() * (X * p) = p for every value of an object holding several: value k of the inverse takes column k back to p
        try:
            Xi = X.inv()
            back = np.hstack([np.asarray(Xi[k] * G[:, k], dtype=np.float64).reshape(d, 1) for k in range(M)]) if len(Xi) == M else None
        except Exception as e:
            ctx.bad('laws', dict(sig, kind='raised', exc=type(e).__name__, where=_where(e)), '%s (%d values) .inv() applied to the transformed point raised %r' % (cname, M, e))
            back = False
        if back is not False:
            e2 = float(np.max(np.abs(back - P[:, :1]))) if back is not None else math.inf
            ctx.judge('laws', e2 <= TOL * mag, dict(sig, kind='inverse_of_sequence_does_not_undo'),
                      lambda: '%s (%d values): X.inv()[k] * (X * p)[:, k] differs from p by %.3g (allowed %.3g)' % (cname, M, e2, TOL * mag))
    if M > 1 and hasattr(X, 'reverse'):
        # the same object after documented list mutations (reverse; delete the first value and append it again): the columns follow
        # the values the object holds NOW
        try:
            X.reverse()
            g2 = np.asarray(X * arg, dtype=np.float64)
            first = X[0]
            del X[0]
            X.append(first)
            g3 = np.asarray(X * arg, dtype=np.float64)
            w2 = want[:, ::-1]
            w3 = np.hstack([w2[:, 1:], w2[:, :1]])
            e4 = max(float(np.max(np.abs(g2 - w2))) if g2.shape == w2.shape else math.inf, float(np.max(np.abs(g3 - w3))) if g3.shape == w3.shape else math.inf)
            ctx.judge('action', e4 <= TOL * mag, dict(sig, kind='stale_after_list_mutation'),
                      lambda: '%s (%d values) * p after reverse() / del + append: columns differ from the current values by %.3g' % (cname, M, e4))
        except Exception as e:
            ctx.bad('action', dict(sig, kind='raised', exc=type(e).__name__, where=_where(e)), '%s (%d values): product after reverse() / del / append raised %r' % (cname, M, e))
    ctx.cell('act', cname, sig['form'], 'N=%d' % N if form == 'array2d' else 'vec', 'M=%d' % M)
    if ok and not all(np.allclose(m, np.eye(len(m))) for m in mats) and np.any(P != 0):
        ctx.nontrivial(cname, form, N, M, [np.round(np.asarray(m), 6).tolist() for m in mats], np.round(P, 6).tolist())


def _where(e):
    import traceback
    tb = traceback.extract_tb(e.__traceback__)
    for fr in reversed(tb):
        if 'spatialmath' in fr.filename:
            return '%s:%s' % (fr.filename.split('spatialmath/')[-1], fr.name)
    return tb[-1].name if tb else '?'


# ----------------------------------------------------------------------------- laws
def run_laws(ctx, p):
    cname = p['cls']
    A, B = np.asarray(p['A'], dtype=np.float64), np.asarray(p['B'], dtype=np.float64)
    P = np.asarray(p['P'], dtype=np.float64)          # d x 4 : four points
    d = P.shape[0]
    sig = dict(api=cname)
    try:
        X, Y = mk_pose(cname, [A]), mk_pose(cname, [B])
        XY = X * Y
        l1 = np.asarray(XY * P)
        l2 = np.asarray(X * np.asarray(Y * P))
        back = np.asarray(X.inv() * np.asarray(X * P))
        Q = np.asarray(X * P)
        # the same composition written with the augmented operator on a copy, on an element taken out of a sequence and on an
        # inverse obtained earlier; the objects the user still holds must act on points as before
        Xi = X.inv()
        W = type(X)(X)
        W *= Y
        l1b = np.asarray(W * P)
        Sq = mk_pose(cname, [B, A])
        E = Sq[1]
        E *= Y
        l1c = np.asarray(E * P)
        Q2 = np.asarray(X * P)
        back2 = np.asarray(Xi * Q2)
        S1 = np.asarray(Sq[1] * P)
    except Exception as e:
        ctx.bad('laws', dict(sig, kind='raised', exc=type(e).__name__, where=_where(e)), '%s point laws raised %r' % (cname, e))
        return
    for nm, got, want in (('(C(X) *= Y) * p', l1b, l2), ('(S[1] *= Y) * p', l1c, l2), ('X * p after the augmented products', Q2, Q),
                          ('X.inv() (taken earlier) * (X * p)', back2, P), ('S[1] * p after E = S[1]; E *= Y', S1, Q)):
        e_ = float(np.max(np.abs(np.asarray(got) - np.asarray(want)))) if np.shape(got) == np.shape(want) else math.inf
        ctx.judge('laws', e_ <= TOL * magnitude(P, l1, l2, Q, Rt_of(cname, [A], 0)[1], Rt_of(cname, [B], 0)[1]), dict(sig, kind='augmented_composition'),
                  lambda: '%s: %s is off by %.3g' % (cname, nm, e_))
    tA, tB = Rt_of(cname, [A], 0)[1], Rt_of(cname, [B], 0)[1]
    mag = magnitude(P, l1, l2, tA, tB, Q)
    e1 = float(np.max(np.abs(l1 - l2))) if l1.shape == l2.shape else math.inf
    ctx.judge('laws', e1 <= TOL * mag, dict(sig, kind='compose'), lambda: '(X*Y)*p differs from X*(Y*p) by %.3g (allowed %.3g) for %s' % (e1, TOL * mag, cname))
    e2 = float(np.max(np.abs(back - P))) if back.shape == P.shape else math.inf
    ctx.judge('laws', e2 <= TOL * magnitude(P, Q, tA), dict(sig, kind='inverse'),
              lambda: 'X.inv()*(X*p) differs from p by %.3g (allowed %.3g) for %s' % (e2, TOL * magnitude(P, Q, tA), cname))
    if Q.shape == P.shape:
        # distances between points
        dp = [np.linalg.norm(P[:, i] - P[:, j]) for i in range(4) for j in range(i)]
        dq = [np.linalg.norm(Q[:, i] - Q[:, j]) for i in range(4) for j in range(i)]
        e3 = max(abs(a - b) for a, b in zip(dp, dq))
        ctx.judge('laws', e3 <= TOL * magnitude(P, Q), dict(sig, kind='distance'),
                  lambda: 'distances between points change by %.3g under %s' % (e3, cname))
        # handedness: sign of the (d x d) determinant of difference vectors
        DP = P[:, 1:d + 1] - P[:, :1]
        DQ = Q[:, 1:d + 1] - Q[:, :1]
        a, b = np.linalg.det(DP), np.linalg.det(DQ)
        scale = np.prod([np.linalg.norm(DP[:, i]) for i in range(d)])
        if abs(a) > 1e-3 * scale:       # well-conditioned frame only
            # (each transformed difference vector carries the rounding of the transformed points, a few eps of the data magnitude:
            #  relative to a short difference vector far from the origin that is not small)
            # and the determinant of a nearly flat frame amplifies the relative error of its columns by scale / |det| (up to 1e3 here)
            slack = sum(8 * np.finfo(float).eps * magnitude(P, Q, tA) / np.linalg.norm(DP[:, i]) for i in range(d)) * scale / abs(a)
            ctx.judge('laws', a * b > 0 and abs(a - b) <= (1e-6 + slack) * abs(a), dict(sig, kind='handedness'),
                      lambda: 'orientation (signed volume) changes from %g to %g under %s' % (a, b, cname))
    ctx.cell('laws', cname)
    ctx.nontrivial('laws', cname, np.round(A, 6).tolist(), np.round(B, 6).tolist())


def run_udqlaws(ctx, p):
    """unit-dual-quaternion route: composed objects (products of two and three factors, whose real part may lie in either
    hemisphere) applied to points against R p + t of the composed motion, and (X*Y)*p == X*(Y*p)"""
    sm = S()
    mats = [np.asarray(m, dtype=np.float64) for m in p['mats']]
    P = np.asarray(p['P'], dtype=np.float64)
    sig = dict(api='UnitDualQuaternion')
    try:
        U = [sm.UnitDualQuaternion(sm.SE3(m)) for m in mats]
        prod = U[0]
        for u in U[1:]:
            prod = prod * u
        l1 = np.column_stack([np.asarray(prod * P[:, i]).reshape(-1) for i in range(P.shape[1])])
        l2 = P
        for u in reversed(U):
            l2 = np.column_stack([np.asarray(u * l2[:, i]).reshape(-1) for i in range(l2.shape[1])])
    except Exception as e:
        ctx.bad('laws', dict(sig, kind='raised', exc=type(e).__name__, where=_where(e)), 'UnitDualQuaternion point laws raised %r' % (e,))
        return
    Tref = np.eye(4, dtype=ref.LD)
    for m in mats:
        Tref = Tref @ np.asarray(m, dtype=ref.LD)
    want = np.array(Tref[:3, :3] @ P.astype(ref.LD) + Tref[:3, 3:4], dtype=np.float64)
    mag = magnitude(P, want, *[m[:3, 3] for m in mats])
    e1 = float(np.max(np.abs(l1 - l2)))
    e2 = float(np.max(np.abs(l1 - want)))
    ctx.judge('laws', e1 <= TOL * mag, dict(sig, kind='compose', factors=len(mats)),
              lambda: '(X*Y..)*p differs from X*(Y*..p) by %.3g (allowed %.3g) on the unit-dual-quaternion route; real part of the product %s; got %s want %s' % (
                  e1, TOL * mag, core.short(prod.real.A, 80), core.short(l1, 200), core.short(l2, 200)))
    ctx.judge('laws', e2 <= TOL * mag, dict(sig, kind='compose_vs_matrix', factors=len(mats)),
              lambda: '(X*Y..)*p differs from the homogeneous-matrix product applied to p by %.3g (allowed %.3g); real part of the product %s' % (
                  e2, TOL * mag, core.short(prod.real.A, 80)))
    ctx.cell('laws', 'UnitDualQuaternion', len(mats), 's<0' if prod.real.s < 0 else 's>=0')
    ctx.nontrivial('udqlaws', [np.round(m, 6).tolist() for m in mats])


# ----------------------------------------------------------------------------- routes
def run_routes(ctx, p):
    import spatialmath.base as base
    sm = S()
    T = np.asarray(p['T'], dtype=np.float64)
    P = np.asarray(p['P'], dtype=np.float64)
    d = P.shape[0]
    R, t = T[:d, :d], T[:d, d]
    want = apply_ref(R, t, P)
    rot_only = bool(np.all(t == 0))
    routes = {}
    try:
        if d == 3:
            routes['SE3'] = lambda: sm.SE3(T) * P
            routes['homtrans'] = lambda: base.homtrans(T, P)
            routes['h2e.T.e2h'] = lambda: base.h2e(T @ base.e2h(P))
            # the helpers on one point given as a plain vector / list (1-D in, column out)
            routes['h2e.T.e2h(1-D)'] = lambda: np.column_stack([np.asarray(base.h2e((T @ base.e2h(P[:, i])).reshape(-1))).reshape(-1) for i in range(P.shape[1])])
            routes['h2e.T.e2h(list)'] = lambda: np.column_stack([np.asarray(base.h2e((T @ base.e2h(P[:, i].tolist())).reshape(-1).tolist())).reshape(-1) for i in range(P.shape[1])])
            routes['UnitDualQuaternion'] = lambda: np.column_stack([np.asarray(sm.UnitDualQuaternion(sm.SE3(T)) * P[:, i]).reshape(-1) for i in range(P.shape[1])])
            if rot_only:
                routes['SO3'] = lambda: sm.SO3(R) * P
                routes['UnitQuaternion'] = lambda: sm.UnitQuaternion(sm.SO3(R)) * P
                q = np.array(sm.UnitQuaternion(sm.SO3(R)).A)
                routes['qvmul'] = lambda: np.column_stack([base.qvmul(q, P[:, i]) for i in range(P.shape[1])])
        else:
            routes['SE2'] = lambda: sm.SE2(T) * P
            routes['homtrans'] = lambda: base.homtrans(T, P)
            routes['h2e.T.e2h'] = lambda: base.h2e(T @ base.e2h(P))
            if rot_only:
                routes['SO2'] = lambda: sm.SO2(R) * P
    except Exception as e:
        ctx.bad('routes', dict(api='setup', kind='raised', exc=type(e).__name__), 'route setup raised %r' % e)
        return
    mag = magnitude(P, want, t)
    for name, f in routes.items():
        try:
            got = np.asarray(f(), dtype=np.float64)
            if got.shape != want.shape and got.size == want.size and want.shape[1] == 1:
                got = got.reshape(want.shape)      # a single point may come back as a plain vector
        except Exception as e:
            ctx.bad('routes', dict(api=name, kind='raised', exc=type(e).__name__, where=_where(e)), 'route %s raised %r' % (name, e))
            continue
        err = float(np.max(np.abs(got - want))) if got.shape == want.shape and fin(got) else math.inf
        ctx.judge('routes', err <= TOL * mag, dict(api=name, kind='value', rot_only=rot_only),
                  lambda: 'route %s gives %s, R p + t is %s (diff %.3g, allowed %.3g); T=%s' % (
                      name, core.short(got, 300), core.short(want, 300), err, TOL * mag, core.short(T, 400)))
        ctx.cell('route', name, 'rot' if rot_only else 'rigid')
    ctx.nontrivial('routes', np.round(T, 6).tolist(), np.round(P, 6).tolist())


RUNNERS = {'act': run_act, 'laws': run_laws, 'routes': run_routes, 'udqlaws': run_udqlaws}


# ----------------------------------------------------------------------------- contracts on homogeneous helpers
def on_homtrans(args, kw, res, st):
    ctx = _ctx
    T, P = args[0], args[1]
    if not (isinstance(T, np.ndarray) and T.shape in ((3, 3), (4, 4)) and T.dtype != object and fin(T) and ref.hom_residual(T) <= 1e-10
            and isinstance(P, np.ndarray) and P.ndim == 2 and P.shape[0] == T.shape[0] - 1 and P.dtype != object and fin(P)):
        ctx.ood('homog.contract')
        return
    d = T.shape[0] - 1
    want = apply_ref(T[:d, :d], T[:d, d], P)
    mag = magnitude(P, want, T[:d, d])
    err = float(np.max(np.abs(np.asarray(res, dtype=np.float64) - want))) if np.shape(res) == want.shape and fin(res) else math.inf
    ctx.judge('homog.contract', err <= TOL * mag, dict(api='base.homtrans', kind='value'),
              lambda: 'homtrans differs from R p + t by %.3g (allowed %.3g)' % (err, TOL * mag))


def on_e2h(args, kw, res, st):
    ctx = _ctx
    v = args[0]
    if not (isinstance(v, np.ndarray) and v.ndim == 2 and v.dtype != object and fin(v)):
        ctx.ood('homog.contract')
        return
    ok = np.shape(res) == (v.shape[0] + 1, v.shape[1]) and np.array_equal(np.asarray(res)[:-1], v) and np.all(np.asarray(res)[-1] == 1)
    ctx.judge('homog.contract', bool(ok), dict(api='base.e2h', kind='value'), lambda: 'e2h(%s) = %s' % (core.short(v), core.short(res)))


def on_h2e(args, kw, res, st):
    ctx = _ctx
    v = args[0]
    if not (isinstance(v, np.ndarray) and v.ndim == 2 and v.dtype != object and fin(v) and v.shape[0] >= 2 and np.all(v[-1] != 0)):
        ctx.ood('homog.contract')
        return
    want = v[:-1] / v[-1]
    err = float(np.max(np.abs(np.asarray(res, dtype=np.float64) - want) / np.maximum(np.abs(want), 1e-300))) if np.shape(res) == want.shape and want.size else (0.0 if np.shape(res) == want.shape else math.inf)
    ctx.judge('homog.contract', err <= 1e-12, dict(api='base.h2e', kind='value'), lambda: 'h2e column-wise division wrong by rel %.3g' % err)


def on_qvmul(args, kw, res, st):
    ctx = _ctx
    q, v = args[0], args[1]
    if not (fin(q) and fin(v) and np.size(q) == 4 and np.size(v) == 3 and abs(np.linalg.norm(np.asarray(q, float)) - 1) < 1e-10):
        ctx.ood('homog.contract')
        return
    v = np.asarray(v, dtype=np.float64).reshape(3, 1)
    want = ref.f64(ref.mm(ref.q2r(np.asarray(q, float).reshape(-1)), v)).reshape(-1)
    mag = magnitude(v)
    err = float(np.max(np.abs(np.asarray(res, dtype=np.float64).reshape(-1) - want))) if np.size(res) == 3 and fin(res) else math.inf
    ctx.judge('homog.contract', err <= TOL * mag, dict(api='base.qvmul', kind='value'),
              lambda: 'qvmul(q, v) differs from R(q) v by %.3g (allowed %.3g); q=%s v=%s' % (err, TOL * mag, q, v.reshape(-1)))


def setup(ctx):
    global _ctx
    _ctx = ctx
    import spatialmath.base.transformsNd as tn
    import spatialmath.base.quaternions as bq
    n = {}
    n['homtrans'] = hook_function(tn, 'homtrans', on_homtrans, None, mid='C06.homtrans')
    n['e2h'] = hook_function(tn, 'e2h', on_e2h, None, mid='C06.e2h')
    n['h2e'] = hook_function(tn, 'h2e', on_h2e, None, mid='C06.h2e')
    n['qvmul'] = hook_function(bq, 'qvmul', on_qvmul, None, mid='C06.qvmul')
    ctx.extra['bindings_rebound'] = n


def REACH():
    import spatialmath.base as b
    sm = S()
    return [sm.super_pose.SMPose.__dict__['__mul__'], sm.UnitQuaternion.__dict__['__mul__'],
            sm.DualQuaternion.__dict__['__mul__'], b.homtrans, b.e2h, b.h2e, b.qvmul]


REQUIRED_REACH = {'SMPose.__mul__': ['return base.h2e(left.A @ base.e2h(v))', 'return left.A @ v',
                                     'return np.array([base.h2e(x @ v).flatten() for x in left.A]).T',
                                     'return np.array([(x @ v).flatten() for x in left.A]).T',
                                     'return left.A @ right', 'return base.h2e(left.A @ base.e2h(right))']}


# ----------------------------------------------------------------------------- workload
def points(rng, d, N):
    return np.array([[gen.sign(rng) * gen.logu(rng, 1e-6, 1e6) for _ in range(N)] for _ in range(d)])


def pose_mats(rng, d, M, rigid):
    def one(r):
        if d == 3:
            return ref.rt2tr(gen.so3(r), gen.transl(r) if rigid else np.zeros(3))
        return ref.rt2tr(gen.so2(r), gen.transl(r, 2) if rigid else np.zeros(2))
    return gen.distinct(rng, one, M)


def run(ctx):
    rng = ctx.rng
    for _ in range(ctx.scale(8000, 200000)):
        cname = ['SO2', 'SE2', 'SO3', 'SE3', 'SO3', 'SE3', 'UnitQuaternion', 'UnitDualQuaternion'][rng.integers(8)]
        d = 2 if cname in ('SO2', 'SE2') else 3
        rigid = cname in ('SE2', 'SE3', 'UnitDualQuaternion')
        multi = cname != 'UnitDualQuaternion' and rng.random() < 0.3
        M = int(rng.integers(2, 8)) if multi else 1
        if multi and rng.random() < 0.04:
            M = [16, 17, 64, 100][rng.integers(4)]          # many pose values (a batch path would show here)
        if M > 1 or cname == 'UnitDualQuaternion':
            form = (gen.FORMS + ['ntuple'])[rng.integers(6)]
            N = 1
        else:
            form = (gen.FORMS + ['ntuple'])[rng.integers(6)] if rng.random() < 0.5 else 'array2d'
            N = 1 if form != 'array2d' else (d if rng.random() < 0.3 else int(rng.integers(1, 8)))
            if form == 'array2d' and rng.random() < 0.03:
                N = [64, 100, 1000][rng.integers(3)]          # many points
        if cname == 'UnitDualQuaternion':
            form = ['list', 'tuple', 'array'][rng.integers(3)]
        p = dict(cls=cname, mats=pose_mats(rng, d, M, rigid), form=form, P=points(rng, d, N))
        if rigid and rng.random() < 0.1:
            # everything at the bottom of the stated range at once: points of 1e-6 .. 1e-5 in every coordinate and a translation that is
            # tiny but not zero (1e-16 .. 1e-10): R p + t still has its t
            p['P'] = np.array([[gen.sign(rng) * gen.logu(rng, 1e-6, 1e-5) for _ in range(N)] for _ in range(d)])
            for T_ in p['mats']:
                u_ = rng.normal(size=d)
                T_[:d, d] = u_ / np.linalg.norm(u_) * gen.logu(rng, 1e-16, 1e-10)
        if form == 'array2d' and N == d and rng.random() < 0.3:
            # d points whose coordinates happen to form the identity / a rotation matrix (a frame's axes as points): still points
            p['P'] = np.eye(d) if rng.random() < 0.4 else (gen.so3(rng) if d == 3 else gen.so2(rng))
        if form in ('array', 'row', 'col', 'array2d') and rng.random() < 0.3:
            p['layout'] = gen.LAYOUTS[rng.integers(4)]
        drive(RUNNERS, ctx, 'act', p)
        if ctx.ncases % 1999 == 1:
            ctx.sample(dict(kind='act', **p))
    for _ in range(ctx.scale(500, 10000)):
        cname = ['SO2', 'SE2', 'SO3', 'SE3', 'UnitQuaternion'][rng.integers(5)]
        d = 2 if cname in ('SO2', 'SE2') else 3
        rigid = cname in ('SE2', 'SE3')
        A, B = pose_mats(rng, d, 2, rigid)
        drive(RUNNERS, ctx, 'laws', dict(cls=cname, A=A, B=B, P=points(rng, d, 4)))
    for _ in range(ctx.scale(400, 8000)):
        k = int(rng.integers(2, 4))
        drive(RUNNERS, ctx, 'udqlaws', dict(mats=pose_mats(rng, 3, k, True), P=points(rng, 3, 3)))
    for _ in range(ctx.scale(400, 8000)):
        d = 3 if rng.random() < 0.7 else 2
        T = pose_mats(rng, d, 1, rng.random() < 0.6)[0]
        drive(RUNNERS, ctx, 'routes', dict(T=T, P=points(rng, d, int(rng.integers(1, 5)))))
