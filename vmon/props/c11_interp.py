"""C11 -- interpolation: endpoints, validity, linear translation, constant-rate rotation.

For one pair of poses the real interpolator (slerp, trinterp, trinterp2, pose.interp,
UnitQuaternion.interp) is sampled at many s; the oracle R_ref(s) = R0 exp(s Phi) is evaluated in
longdouble with Phi the logarithm of R0'R1 (shorter arc) or its 2 pi complement about the same
axis (longer arc); ONE Phi must explain every sample of the pair, and it must be the shorter arc
when that is requested.  Translation must be (1-s) t0 + s t1.  Out-of-range s must raise.
The routes (matrix function / class method / quaternion) are compared with each other. 1e-6.
"""
import math

import numpy as np

from .. import core, gen, ref
from ..core import drive

PROP = 'C11'
SHARDS = {'quick': 4, 'thorough': 16}
TOL = 1e-6
PI = math.pi
RULE = ('pose pairs with relative rotation angle log-uniform 1e-12..pi-1e-6 (plus uniform), quaternion pairs with either sign '
        'of the dot product, translations up to 1e3; s in {0, 1e-12, 1e-6, .., 0.5, .., 1-1e-12, 1} plus uniform samples, and '
        's slightly/clearly outside [0,1]; scalar and vector s; with / without explicit start; shortest on/off; SO2/SE2/SO3/SE3/'
        'UnitQuaternion and the base functions. distinct = (api, options, pair rounded to 9 digits); non-trivial = relative '
        'rotation angle > 1e-6 or translation differs')
ASSUMPTIONS = ['antipodal quaternion pairs (1 + dot < 1e-9) are excluded unless the shorter arc is requested (statement)',
               'for rotation matrices either arc is accepted (the matrix functions have no shortest option); the same arc must '
               'explain all samples of a pair']
MIN_EVALS = {'sample': {'quick': 20000, 'thorough': 300000}, 'range': {'quick': 1500, 'thorough': 20000},
             'routes': {'quick': 600, 'thorough': 8000}, 'vector_s': {'quick': 200, 'thorough': 3000}}
SVALS = [0.0, 1e-12, 1e-9, 1e-6, 1e-3, 0.25, 0.5, 0.75, 1 - 1e-3, 1 - 1e-6, 1 - 1e-9, 1 - 1e-12, 1.0]
BAD_S = [-1e-9, 1 + 1e-9, -0.5, 1.5, -1e-3, 2.0, 2, 3, 7, -1, 10, -1e-12, 1 + 1e-12, -1e-15, 1.0000000000000002, -5e-324, -1e-300]      # floats and plain integers (an integer count is not a coefficient)


def S():
    import spatialmath
    return spatialmath


def rel_phi(R0, R1):
    """(phi_short (3,), axis, theta) of R0'R1 from reference arithmetic"""
    M = ref.f64(ref.mm(R0.T, R1))
    th = ref.rot_angle(M)
    li = np.array([M[2, 1] - M[1, 2], M[0, 2] - M[2, 0], M[1, 0] - M[0, 1]])
    n = np.linalg.norm(li)
    if th < 1e-9 or n == 0:
        return li / 2, None, th
    if th < PI - 1e-3:
        ax = li / n
    else:
        Msym = (M + M.T) / 2 - math.cos(th) * np.eye(3)
        k = int(np.argmax(np.diag(Msym)))
        ax = Msym[:, k] / np.linalg.norm(Msym[:, k])
        if np.dot(ax, li) < 0:
            ax = -ax
    return ax * th, ax, th


def ref_R(R0, phi, s):
    return ref.f64(ref.mm(R0, ref.exp_rot_ld(np.asarray(phi, dtype=ref.LD) * ref.LD(s))))


def q_to_R(q):
    q = np.asarray(q, dtype=np.float64)
    return ref.f64(ref.q2r(q / np.linalg.norm(q)))


def band_rel(th):
    return gen.angle_band(th)


def judge_samples(ctx, sig, R0, R1, t0, t1, samples, must_short, what):
    """samples: list of (s, R(s) 3x3 or None, t(s) or None).  One arc must explain all."""
    phi_s, ax, th = rel_phi(R0, R1)
    cands = [('short', phi_s)]
    if ax is not None and not must_short:
        cands.append(('long', -(2 * PI - th) * ax))
    worst = {}
    for name, phi in cands:
        w = 0.0
        for s, Rs, ts in samples:
            d = float(np.max(np.abs(Rs - ref_R(R0, phi, s))))
            w = max(w, d)
        worst[name] = w
    best = min(worst, key=worst.get)
    ok = worst[best] <= TOL
    ctx.judge('sample', ok, dict(sig, kind='not_constant_rate_about_fixed_axis', band=band_rel(th)),
              lambda: '%s: no single arc explains the samples (worst deviation short=%.3g%s) relative angle %.12g' % (
                  what(), worst['short'], (' long=%.3g' % worst['long']) if 'long' in worst else '', th))
    # validity + translation
    for s, Rs, ts in samples:
        r = ref.rot_residual(Rs)
        ctx.judge('sample', r <= TOL, dict(sig, kind='invalid_member', band=band_rel(th)), lambda: '%s: R(%r) has residual %.3g' % (what(), s, r))
        if ts is not None:
            want = (1 - s) * t0 + s * t1
            sc = max(1.0, float(np.max(np.abs(t0))), float(np.max(np.abs(t1))))
            d = float(np.max(np.abs(ts - want)))
            ctx.judge('sample', d <= TOL * sc, dict(sig, kind='translation_not_linear'), lambda: '%s: t(%r) = %s, expected %s' % (what(), s, ts, want))
    ctx.cell('arc', sig['api'], best, band_rel(th), 'short_required' if must_short else 'any')
    return ok


def expect_raise(ctx, sig, f, what):
    try:
        v = f()
    except Exception:
        ctx.ok('range')
        return
    ctx.bad('range', dict(sig, kind='out_of_range_s_accepted', returned='exception_object' if isinstance(v, Exception) else type(v).__name__),
            '%s returned %s instead of raising' % (what(), core.short(getattr(v, 'data', v), 200)))


# ----------------------------------------------------------------------------- runners
def run_mat(ctx, p):
    """base.trinterp / pose.interp (3-D): matrices"""
    import spatialmath.base as base
    sm = S()
    T0, T1 = np.asarray(p['T0'], dtype=np.float64), np.asarray(p['T1'], dtype=np.float64)
    se = T0.shape == (4, 4)
    with_start, api = p['with_start'], p['api']
    R0, R1 = T0[:3, :3], T1[:3, :3]
    t0, t1 = (T0[:3, 3], T1[:3, 3]) if se else (np.zeros(3), np.zeros(3))
    if not with_start:
        R0, t0, T0 = np.eye(3), np.zeros(3), np.eye(T0.shape[0])
    sig = dict(api=api, start=bool(with_start), se=bool(se))
    what = lambda: '%s(%s start) T0=%s T1=%s' % (api, 'with' if with_start else 'no', core.short(T0, 300), core.short(T1, 300))
    C = sm.SE3 if se else sm.SO3

    A0, A1 = T0, T1
    if p.get('itype'):
        # poses whose entries are whole numbers (quarter turns, integer translations) held in integer arrays, as typed in by hand
        A0, A1 = (np.rint(T0).astype(p['itype'][0]) if p['itype'][0] else T0), (np.rint(T1).astype(p['itype'][1]) if p['itype'][1] else T1)
        sig['element_type'] = 'integer'

    def call(s):
        if api == 'base.trinterp':
            return base.trinterp(A0 if with_start else None, A1, s)
        X = C(T1)
        r = X.interp(s, start=C(T0)) if with_start else X.interp(s)
        return r.A
    samples = []
    for s in p['svals']:
        try:
            M = np.asarray(call(s), dtype=np.float64)
        except Exception as e:
            ctx.bad('sample', dict(sig, kind='raised', exc=type(e).__name__), '%s raised %r at s=%r' % (what(), e, s))
            return
        if M.shape != T1.shape or not np.all(np.isfinite(M)):
            ctx.bad('sample', dict(sig, kind='shape_or_nonfinite'), '%s at s=%r returned %s' % (what(), s, core.short(M)))
            return
        samples.append((s, M[:3, :3], M[:3, 3] if se else None))
    judge_samples(ctx, sig, R0, R1, t0, t1, samples, False, what)
    if api == 'base.trinterp' and p.get('T2') is not None:
        # a trajectory generator keeps its start / goal in two buffers and refills them: the second segment is answered from what
        # the buffers hold now, not from what the same two objects held during the first segment
        T2, T3 = np.asarray(p['T2'], dtype=np.float64), np.asarray(p['T3'], dtype=np.float64)
        try:
            B0, B1 = np.array(T0), np.array(T1)
            base.trinterp(B0, B1, 0.3)
            B0[...] = T2
            B1[...] = T3
            s_ = p['svals'][len(p['svals']) // 2]
            got = np.asarray(base.trinterp(B0, B1, s_), dtype=np.float64)
            want = np.asarray(base.trinterp(np.array(T2), np.array(T3), s_), dtype=np.float64)
            ctx.judge('sample', float(np.max(np.abs(got - want))) <= TOL * max([1.0] + [float(np.linalg.norm(T_[:3, 3])) for T_ in (T2, T3) if T_.shape == (4, 4)]), dict(sig, kind='answer_depends_on_earlier_call'),
                      lambda: 'trinterp on two buffers refilled in place (same objects, new values) at s=%r: %s; fresh arrays give %s' % (s_, core.short(got, 200), core.short(want, 200)))
        except Exception as e:
            ctx.bad('sample', dict(sig, kind='raised', exc=type(e).__name__), 'trinterp on refilled buffers raised %r' % e)
    for s in p.get('bad_s', []):
        expect_raise(ctx, dict(sig, s='below' if s < 0 else 'above'), lambda: call(s), lambda: '%s at s=%r' % (what(), s))
    ctx.nontrivial(api, with_start, [float('%.9g' % v) for v in np.r_[T0.reshape(-1), T1.reshape(-1)]])


def run_quat(ctx, p):
    """base.slerp / UnitQuaternion.interp on quaternions (either hemisphere)"""
    import spatialmath.base as base
    sm = S()
    q0, q1 = np.asarray(p['q0'], dtype=np.float64), np.asarray(p['q1'], dtype=np.float64)
    shortest, api, with_start = bool(p['shortest']), p['api'], p['with_start']
    if not with_start:
        q0 = np.array([1.0, 0, 0, 0])
    dot = float(np.dot(q0, q1))
    if not shortest and 1 + dot < 1e-9:
        ctx.ood('sample')
        return
    R0, R1 = q_to_R(q0), q_to_R(q1)
    sig = dict(api=api, shortest=shortest, start=bool(with_start), dot='neg' if dot < 0 else 'pos')
    what = lambda: '%s(q0=%s, q1=%s, shortest=%s)' % (api, q0, q1, shortest)
    # the option as a caller may hold it: Python bool, NumPy bool (the result of a comparison), 0 / 1
    shform = p.get('shform', 'bool')
    if shform == 'omitted' and shortest:
        shform = 'bool'        # (leaving the option out means the documented default, shortest=False)
    SH = {'bool': bool, 'np.bool_': np.bool_, 'int': int, 'omitted': bool}[shform](shortest)
    if shform != 'bool':
        sig['shform'] = shform
    KW = {} if shform == 'omitted' else {'shortest': SH}

    def call(s):
        if api == 'base.slerp':
            return base.slerp(q0, q1, s, **KW)
        a, b = sm.UnitQuaternion(q0), sm.UnitQuaternion(q1)
        r = a.interp(s, dest=b, **KW) if with_start else b.interp(s, **KW)
        return r.A
    samples = []
    for s in p['svals']:
        try:
            q = np.asarray(call(s), dtype=np.float64)
        except Exception as e:
            ctx.bad('sample', dict(sig, kind='raised', exc=type(e).__name__), '%s raised %r at s=%r' % (what(), e, s))
            return
        nq = float(np.linalg.norm(q)) if q.shape == (4,) and np.all(np.isfinite(q)) else math.inf
        if abs(nq - 1) > TOL:
            ctx.bad('sample', dict(sig, kind='not_unit'), '%s at s=%r returned %s (norm %r)' % (what(), s, q, nq))
            return
        samples.append((s, q_to_R(q), None))
    # which arc is taken by a slerp that does not flip: the quaternion geodesic, short iff dot >= 0
    must_short = shortest or dot >= 0
    phi_s, ax, th = rel_phi(R0, R1)
    if not must_short and ax is not None:
        # dot < 0 without shortest: the long way round
        phi = -(2 * PI - th) * ax
        worst = max(float(np.max(np.abs(Rs - ref_R(R0, phi, s)))) for s, Rs, _ in samples)
        ctx.judge('sample', worst <= TOL, dict(sig, kind='not_constant_rate_about_fixed_axis', band=band_rel(th)),
                  lambda: '%s: deviates from the quaternion geodesic (long arc) by %.3g' % (what(), worst))
        for s, Rs, _ in samples:
            ctx.judge('sample', ref.rot_residual(Rs) <= TOL, dict(sig, kind='invalid_member'), 'invalid')
        ctx.cell('arc', api, 'long', band_rel(th), 'dot<0')
    else:
        judge_samples(ctx, sig, R0, R1, np.zeros(3), np.zeros(3), samples, True, what)
    for s in p.get('bad_s', []):
        expect_raise(ctx, dict(sig, s='below' if s < 0 else 'above'), lambda: call(s), lambda: '%s at s=%r' % (what(), s))
    ctx.nontrivial(api, shortest, with_start, [float('%.9g' % v) for v in np.r_[q0, q1]])


def run_2d(ctx, p):
    """trinterp2 / SO2, SE2 interp: angle linear in s, translation linear"""
    import spatialmath.base as base
    sm = S()
    T0, T1 = np.asarray(p['T0'], dtype=np.float64), np.asarray(p['T1'], dtype=np.float64)
    se = T0.shape == (3, 3)
    with_start, api = p['with_start'], p['api']
    if not with_start:
        T0 = np.eye(T0.shape[0])
    th0 = math.atan2(T0[1, 0], T0[0, 0])
    th1 = math.atan2(T1[1, 0], T1[0, 0])
    t0, t1 = (T0[:2, 2], T1[:2, 2]) if se else (np.zeros(2), np.zeros(2))
    sig = dict(api=api, start=bool(with_start), se=bool(se))
    what = lambda: '%s T0=%s T1=%s' % (api, core.short(T0, 200), core.short(T1, 200))
    C = sm.SE2 if se else sm.SO2

    def call(s):
        if api == 'base.trinterp2':
            return base.trinterp2(T0 if with_start else None, T1, s)
        X = C(T1)
        r = X.interp(s, start=C(T0)) if with_start else X.interp(s)
        return r.A
    got = []
    for s in p['svals']:
        try:
            M = np.asarray(call(s), dtype=np.float64)
        except Exception as e:
            ctx.bad('sample', dict(sig, kind='raised', exc=type(e).__name__), '%s raised %r at s=%r' % (what(), e, s))
            return
        if M.shape != T1.shape or not np.all(np.isfinite(M)):
            ctx.bad('sample', dict(sig, kind='shape_or_nonfinite'), '%s at s=%r returned %s' % (what(), s, core.short(M)))
            return
        got.append((s, M))
    d0 = th1 - th0
    worst = {}
    for name, dl in (('direct', d0), ('plus', d0 + 2 * PI), ('minus', d0 - 2 * PI)):
        worst[name] = max(float(np.max(np.abs(M[:2, :2] - ref.rot2(th0 + s * dl)))) for s, M in got)
    best = min(worst, key=worst.get)
    ctx.judge('sample', worst[best] <= TOL, dict(sig, kind='angle_not_linear'), lambda: '%s: rotation angle is not linear in s (worst %.3g)' % (what(), worst[best]))
    for s, M in got:
        r = ref.rot_residual(M[:2, :2])
        ctx.judge('sample', r <= TOL and (not se or np.array_equal(M[2], [0, 0, 1])), dict(sig, kind='invalid_member'), lambda: '%s: invalid member at s=%r' % (what(), s))
        if se:
            want = (1 - s) * t0 + s * t1
            sc = max(1.0, float(np.max(np.abs(t0))), float(np.max(np.abs(t1))))
            ctx.judge('sample', float(np.max(np.abs(M[:2, 2] - want))) <= TOL * sc, dict(sig, kind='translation_not_linear'),
                      lambda: '%s: t(%r) = %s expected %s' % (what(), s, M[:2, 2], want))
    ctx.cell('arc2d', api, best)
    ctx.nontrivial(api, with_start, [float('%.9g' % v) for v in np.r_[T0.reshape(-1), T1.reshape(-1)]])


def run_routes(ctx, p):
    """matrix function, pose-class method and unit-quaternion interpolation agree; vector s gives the sequence"""
    import spatialmath.base as base
    sm = S()
    R0, R1 = np.asarray(p['R0'], dtype=np.float64), np.asarray(p['R1'], dtype=np.float64)
    s = p['s']
    sig = dict(api='routes')
    if p.get('stype'):
        # the same number s (a multiple of 1/256: exact in every type) handed over as a NumPy scalar of a narrow or integer type
        s_float = float(s)
        s = {'np.float16': np.float16, 'np.float32': np.float32, 'np.float64': np.float64, 'int': int, 'np.int64': np.int64}[p['stype']](s)
        sig['stype'] = p['stype']
        try:
            th0_, th1_ = float(np.arctan2(R0[1, 0], R0[0, 0])), float(np.arctan2(R1[1, 0], R1[0, 0]))
            pairs = [('trinterp', base.trinterp(R0, R1, s), base.trinterp(R0, R1, s_float)),
                     ('trinterp2', base.trinterp2(ref.rot2(th0_), ref.rot2(th1_), s), base.trinterp2(ref.rot2(th0_), ref.rot2(th1_), s_float)),
                     ('trinterp2(SE2)', base.trinterp2(None, ref.rt2tr(ref.rot2(th1_), [1.0, -2.0]), s), base.trinterp2(None, ref.rt2tr(ref.rot2(th1_), [1.0, -2.0]), s_float)),
                     ('SE2.interp', sm.SE2(1, -2, th1_).interp(s).A, sm.SE2(1, -2, th1_).interp(s_float).A)]
        except Exception as e:
            ctx.bad('routes', dict(sig, kind='raised', exc=type(e).__name__), 'interpolation with s=%r (%s) raised %r' % (s, p['stype'], e))
            return
        for nm_, got_, want_ in pairs:
            d_ = float(np.max(np.abs(np.asarray(got_, dtype=np.float64) - np.asarray(want_, dtype=np.float64))))
            ctx.judge('routes', d_ <= TOL, dict(sig, kind='scalar_type_changes_value', route=nm_),
                      lambda: '%s with s = %r given as %s differs by %.3g from the same call with the Python float' % (nm_, s_float, p['stype'], d_))
    try:
        A = base.trinterp(R0, R1, s)
        B = sm.SO3(R1).interp(s, start=sm.SO3(R0)).A
        q0, q1 = sm.UnitQuaternion(sm.SO3(R0)), sm.UnitQuaternion(sm.SO3(R1))
        Cq = q0.interp(s, dest=q1, shortest=True).R
        Dq = q_to_R(base.slerp(q0.A, q1.A, s, shortest=True))
        E = sm.SE3(ref.rt2tr(R1, [1, 2, 3])).interp(s, start=sm.SE3(ref.rt2tr(R0, [0, 0, 0]))).A[:3, :3]
    except Exception as e:
        ctx.bad('routes', dict(sig, kind='raised', exc=type(e).__name__), 'interpolation routes raised %r' % e)
        return
    names = ['trinterp', 'SO3.interp', 'UnitQuaternion.interp(shortest)', 'slerp(shortest)', 'SE3.interp']
    Ms = [A, B, Cq, Dq, E]
    for i in range(1, 5):
        d = float(np.max(np.abs(np.asarray(Ms[i]) - np.asarray(Ms[0]))))
        ctx.judge('routes', d <= TOL, dict(sig, kind='routes_disagree', pair='trinterp/' + names[i]),
                  lambda: '%s and trinterp differ by %.3g at s=%r for R0=%s R1=%s' % (names[i], d, s, core.short(R0, 200), core.short(R1, 200)))
    # vector of s
    sv = p['svec']
    try:
        X = sm.SE3(ref.rt2tr(R1, [1, -2, 3]))
        seq = X.interp(np.array(sv))
        ok = type(seq) is sm.SE3 and len(seq) == len(sv)
        if ok:
            for k, sk in enumerate(sv):
                one = X.interp(float(sk)).A
                ok = ok and float(np.max(np.abs(seq.data[k] - one))) <= TOL
        ctx.judge('vector_s', ok, dict(api='SE3.interp', kind='vector_s_not_sequence'), lambda: 'SE3.interp(%s) is not the sequence of single interpolations' % sv)
    except Exception as e:
        ctx.bad('vector_s', dict(api='SE3.interp', kind='raised', exc=type(e).__name__), 'SE3.interp(vector s) raised %r' % e)
    # ... and for the other classes: rotation pose, planar poses, unit quaternion (one- and two-object forms; array and list s)
    th0, th1 = float(np.arctan2(R0[1, 0], R0[0, 0])), float(np.arctan2(R1[1, 0], R1[0, 0]))
    cases = {
        'SO3.interp': (lambda sv_: sm.SO3(R1).interp(sv_), lambda sk: sm.SO3(R1).interp(sk)),
        'SO3.interp(start)': (lambda sv_: sm.SO3(R1).interp(sv_, start=sm.SO3(R0)), lambda sk: sm.SO3(R1).interp(sk, start=sm.SO3(R0))),
        'SO2.interp': (lambda sv_: sm.SO2(th1).interp(sv_), lambda sk: sm.SO2(th1).interp(sk)),
        'SE2.interp': (lambda sv_: sm.SE2(1, -2, th1).interp(sv_), lambda sk: sm.SE2(1, -2, th1).interp(sk)),
        'UnitQuaternion.interp': (lambda sv_: q1.interp(sv_), lambda sk: q1.interp(sk)),
        'UnitQuaternion.interp(dest)': (lambda sv_: q0.interp(sv_, dest=q1, shortest=True), lambda sk: q0.interp(sk, dest=q1, shortest=True)),
    }
    for name, (fvec, fone) in cases.items():
        for form in ('array', 'list'):
            arg = np.array(sv) if form == 'array' else [float(x) for x in sv]
            try:
                seq = fvec(arg)
                ones = [fone(float(sk)) for sk in sv]
                ok = type(seq) is type(ones[0]) and len(seq) == len(sv)
                if ok:
                    for k in range(len(sv)):
                        a_, b_ = np.asarray(seq.data[k], dtype=np.float64), np.asarray(ones[k].data[0], dtype=np.float64)
                        dk = float(np.max(np.abs(a_ - b_)))
                        if name.startswith('UnitQuaternion'):
                            dk = min(dk, float(np.max(np.abs(a_ + b_))))
                        ok = ok and dk <= TOL
                ctx.judge('vector_s', ok, dict(api=name, kind='vector_s_not_sequence', form=form),
                          lambda: '%s(%s %s) is not the sequence of single interpolations: %s' % (name, form, sv, core.short(getattr(seq, 'data', seq), 300)))
            except Exception as e:
                ctx.bad('vector_s', dict(api=name, kind='raised', exc=type(e).__name__, form=form), '%s(vector s as %s) raised %r' % (name, form, e))
    ctx.nontrivial('routes', [float('%.9g' % v) for v in np.r_[R0.reshape(-1), R1.reshape(-1)]], s)


RUNNERS = {'mat': run_mat, 'quat': run_quat, '2d': run_2d, 'routes': run_routes}


def REACH():
    import spatialmath.base as b
    sm = S()
    return [b.slerp, b.trinterp, b.trinterp2, sm.super_pose.SMPose.__dict__['interp'], sm.UnitQuaternion.__dict__['interp']]


REQUIRED_REACH = {'slerp': ['q0 = -q0   # pylint: disable=invalid-unary-operand-type', 'return q0'],
                  'UnitQuaternion.interp': ['q1 = - q1', 'return UnitQuaternion(q1)']}


# ----------------------------------------------------------------------------- workload
def rel_angle(rng):
    r = rng.random()
    if r < 0.35:
        return gen.logu(rng, 1e-12, 1e-2)
    if r < 0.5:
        return PI - gen.logu(rng, 1e-6, 1e-2)
    return float(rng.uniform(0, PI - 1e-6))


def svals(rng):
    return sorted(set(SVALS + [float(x) for x in rng.random(4)]))


def pair3(rng):
    R0 = gen.so3(rng)
    R1 = ref.f64(ref.mm(R0, ref.rot_ld(gen.unit_axis(rng), rel_angle(rng))))
    return R0, R1


def run(ctx):
    rng = ctx.rng
    for _ in range(ctx.scale(1400, 40000)):
        R0, R1 = pair3(rng)
        kind = rng.random()
        if kind < 0.08:          # degenerate ends: a pure translation (rotation exactly the identity) at one end, or the same rotation at both
            R0, R1 = ref.rot(gen.unit_axis(rng), rel_angle(rng)), np.eye(3)
        elif kind < 0.16:
            R0, R1 = np.eye(3), ref.rot(gen.unit_axis(rng), rel_angle(rng))
        elif kind < 0.22:
            R1 = R0.copy()
        se = rng.random() < 0.5
        T0 = ref.rt2tr(R0, gen.transl(rng, hi=1e3)) if se else R0
        T1 = ref.rt2tr(R1, gen.transl(rng, hi=1e3)) if se else R1
        if se and rng.random() < 0.12:
            T1[:3, 3] = T0[:3, 3] * (1 + gen.sign(rng) * gen.logu(rng, 1e-9, 1e-4)) + rng.normal(size=3) * gen.logu(rng, 1e-9, 1e-5)
        if rng.random() < 0.3:       # without start the end pose itself is the relative motion
            a = gen.unit_axis(rng)
            R1 = ref.rot(a, rel_angle(rng))
            T1 = ref.rt2tr(R1, gen.transl(rng, hi=1e3)) if se else R1
            ws = False
        else:
            ws = True
        p = dict(api=['base.trinterp', 'pose.interp'][rng.integers(2)], T0=T0, T1=T1, with_start=ws, svals=svals(rng),
                 bad_s=[BAD_S[rng.integers(len(BAD_S))]])
        if p['api'] == 'base.trinterp' and ws and rng.random() < 0.5:
            Ra, Rb = pair3(rng)
            p['T2'] = ref.rt2tr(Ra, gen.transl(rng, hi=1e3)) if se else Ra
            p['T3'] = ref.rt2tr(Rb, gen.transl(rng, hi=1e3)) if se else Rb
        drive(RUNNERS, ctx, 'mat', p)
        if rng.random() < 0.08:
            # whole-number poses: a signed permutation (det +1) and the same followed by a quarter turn about a coordinate axis
            P0 = np.eye(3)[rng.permutation(3)] * rng.choice([-1.0, 1.0], size=3)
            if np.linalg.det(P0) < 0:
                P0[0] = -P0[0]
            Q = np.rint(ref.rot(np.eye(3)[rng.integers(3)], gen.sign(rng) * math.pi / 2))
            P1 = P0 @ Q
            ti = lambda: rng.integers(-9, 10, size=3).astype(float)
            q = dict(api='base.trinterp', T0=ref.rt2tr(P0, ti()) if se else P0, T1=ref.rt2tr(P1, ti()) if se else P1, with_start=bool(rng.random() < 0.7), svals=svals(rng),
                     bad_s=[BAD_S[rng.integers(len(BAD_S))]], itype=[[None, 'int64'], ['int64', 'int64'], ['int32', None], [None, 'int8']][rng.integers(4)])
            if not q['with_start']:
                q['T1'] = ref.rt2tr(Q, ti()) if se else Q
            drive(RUNNERS, ctx, 'mat', q)
            if se:
                # the same in unsigned and 8-bit element types (rotations without negative entries: identity and the cyclic
                # permutations; translations whose difference is negative or leaves the type)
                cyc = [np.eye(3), np.eye(3)[[1, 2, 0]], np.eye(3)[[2, 0, 1]]]
                ut = rng.integers(2)
                tn = (lambda: rng.integers(0, 201, size=3).astype(float)) if ut else (lambda: rng.integers(-100, 101, size=3).astype(float))
                Pa, Pb = cyc[rng.integers(3)], cyc[rng.integers(3)]
                q2 = dict(api='base.trinterp', T0=ref.rt2tr(Pa, tn()), T1=ref.rt2tr(Pb, tn()), with_start=True, svals=svals(rng),
                          bad_s=[BAD_S[rng.integers(len(BAD_S))]], itype=[['uint8', 'uint8'], ['uint16', 'uint8']][rng.integers(2)] if ut else ['int8', 'int8'])
                drive(RUNNERS, ctx, 'mat', q2)
        if ctx.ncases % 499 == 1:
            ctx.sample(dict(case='mat', **{k: v for k, v in p.items()}), limit=4)
    for _ in range(ctx.scale(1400, 40000)):
        q0 = gen.unit_quat(rng)
        dq = np.array(ref.q_from_axis_angle(gen.unit_axis(rng), rel_angle(rng)), dtype=np.float64)
        q1 = np.array(ref.qmul(q0, dq), dtype=np.float64)
        q1 /= np.linalg.norm(q1)
        if rng.random() < 0.5:
            q1 = -q1
        ws = rng.random() < 0.7
        if not ws:
            q1 = dq if rng.random() < 0.5 else -dq
        p = dict(api=['base.slerp', 'UnitQuaternion.interp'][rng.integers(2)], q0=q0, q1=q1, shortest=bool(rng.integers(2)), shform=['bool', 'bool', 'np.bool_', 'int', 'omitted'][rng.integers(5)],
                 with_start=ws, svals=svals(rng), bad_s=[BAD_S[rng.integers(len(BAD_S))]])
        if p['api'] == 'base.slerp':
            p['with_start'] = True
        drive(RUNNERS, ctx, 'quat', p)
    for _ in range(ctx.scale(800, 20000)):
        se = rng.random() < 0.5
        T0 = gen.se2(rng, hi=1e3) if se else gen.so2(rng)
        T1 = gen.se2(rng, hi=1e3) if se else gen.so2(rng)
        if se and rng.random() < 0.2:
            # positions that nearly coincide (a slow approach, turning almost on the spot): 1e-9 .. 1e-4 of their magnitude apart
            T1[:2, 2] = T0[:2, 2] * (1 + gen.sign(rng) * gen.logu(rng, 1e-9, 1e-4)) + rng.normal(size=2) * gen.logu(rng, 1e-9, 1e-5)
        drive(RUNNERS, ctx, '2d', dict(api=['base.trinterp2', 'pose.interp'][rng.integers(2)], T0=T0, T1=T1,
                                       with_start=bool(rng.random() < 0.7), svals=svals(rng)))
    for _ in range(ctx.scale(300, 6000)):
        R0, R1 = pair3(rng)
        k = int(rng.integers(2, 6))
        if rng.random() < 0.05:
            k = [100, 300][rng.integers(2)]        # a long vector of s (a finely sampled trajectory)
        sv = sorted(float(x) for x in rng.random(k))
        r_ = rng.random()
        if r_ < 0.2:        # there and back, dwelling at the ends: repeated values, not monotonic
            sv = [0.0, 0.0] + sv + [1.0, 1.0] + sv[::-1]
        elif r_ < 0.35:     # a saturated ramp
            sv = [float(x) for x in np.clip(np.linspace(-0.5, 1.5, k + 4), 0, 1)]
        elif r_ < 0.5:
            sv = [sv[0]] * 2 + sv[::-1]
        drive(RUNNERS, ctx, 'routes', dict(R0=R0, R1=R1, s=float(rng.random()), svec=sv))
        if rng.random() < 0.25:
            st_ = ['np.float16', 'np.float32', 'np.float64', 'int', 'np.int64'][rng.integers(5)]
            drive(RUNNERS, ctx, 'routes', dict(R0=R0, R1=R1, s=float(rng.integers(0, 2)) if st_.endswith(('int', 'int64')) else float(rng.integers(0, 257)) / 256,
                                               svec=sv, stype=st_))
