"""C02 -- group laws: associativity, identity, inverse, division, integer powers.

Two monitors on executions of the real operators:
 (a) law monitor: both sides of each law are computed by the library on the same operands and
     compared (1e-9 relative to max(1,|t|); unit quaternions up to sign; twists as motions, 1e-7);
 (b) reference-model monitor: every operator application inside random expression trees
     (and inside the law workload) is compared with longdouble group arithmetic on the raw
     arrays of its operands, which names the operator that is wrong rather than the law.
"""
import math

import numpy as np

from .. import core, ctors, gen, ref, trees
from ..core import drive

PROP = 'C02'
SHARDS = {'quick': 4, 'thorough': 16}
TOL, TOL_TW = 1e-9, 1e-7
RULE = ('law cases: operand triples over the whole group (rotation angle mixture incl. 0, pi and 1e-12 from both; '
        'translations 1e-6..1e6) x laws {assoc, identity L/R, inverse L/R, anti-homomorphism, division, powers |n|<=8, '
        'structured inverse} x classes {SO2,SE2,SO3,SE3,UnitQuaternion,Twist2,Twist3}; tree cases: random trees depth<=5 '
        'over {*,/,inv,**}; distinct = (class, law/op, operand values rounded to 6 digits); non-trivial = operands '
        'pairwise different by > 1e-6 and none the identity')
ASSUMPTIONS = ['twists: / and ** are not defined by the library and are not judged; twists are compared through a '
               'longdouble closed-form reference exponential (validated against mpmath at 50 digits)', 'operands of a judged operator are valid to 1e-12']
MIN_EVALS = {'law': {'quick': 5000, 'thorough': 100000}, 'refmodel': {'quick': 5000, 'thorough': 100000}}

POSES = ['SO2', 'SE2', 'SO3', 'SE3']
ALL = POSES + ['UnitQuaternion', 'Twist2', 'Twist3']
LAWS = ['assoc', 'identL', 'identR', 'invL', 'invR', 'antihom', 'div', 'pow', 'pow0', 'powneg', 'structinv', 'divseq', 'powseq', 'prodseq',
        'aug_copy', 'aug_inv', 'aug_index', 'aug_div', 'aug_pow']


def tmag(x):
    x = np.asarray(x, dtype=np.float64)
    if x.ndim == 2 and x.shape[0] in (3, 4) and x.shape == (x.shape[0],) * 2:
        # SE(2) 3x3 / SE(3) 4x4: translation column.  (SO3 3x3 has last row not [0 0 1] in general; callers pass cls)
        return float(np.linalg.norm(x[:-1, -1]))
    return 0.0


def scale_of(clsname, arrays):
    if clsname in ('SE2', 'SE3'):
        return max([1.0] + [tmag(a) for a in arrays])
    return 1.0


def mk(clsname, arrs):
    """library object from arrays (validated by the library's own constructor)"""
    C = ctors.cls(clsname)
    arrs = [np.array(a, dtype=np.float64) for a in arrs]
    if clsname in ('Twist2', 'Twist3'):
        return C(arrs) if len(arrs) > 1 else C(arrs[0])
    if clsname == 'UnitQuaternion':
        return C(arrs) if len(arrs) > 1 else C(arrs[0])
    return C(arrs) if len(arrs) > 1 else C(arrs[0])


def operand(rng, clsname):
    r_ = rng.random()
    if clsname == 'Twist3':
        w = gen.unit_axis(rng) * gen.rot_angle(rng)
        if r_ < 0.12:        # a pure translation (irrotational twist): a sequence then mixes kinds
            return np.r_[gen.vec(rng, 3, 1e-3, 1e3), 0, 0, 0]
        if r_ < 0.2:         # a pure rotation about an axis through the origin
            return np.r_[0.0, 0, 0, w]
        return np.r_[gen.transl(rng), w]
    if clsname == 'Twist2':
        if r_ < 0.12:
            return np.r_[gen.vec(rng, 2, 1e-3, 1e3), 0.0]
        return np.r_[gen.transl(rng, 2), gen.sign(rng) * gen.rot_angle(rng)]
    return ctors.ref_leaf(rng, clsname, 1)[0]


def as_motion(clsname, x):
    """array to compare: twists -> reference exponential"""
    if clsname in ('Twist2', 'Twist3'):
        return ref.f64(ref.exp_twist_ld(x))
    return np.asarray(x, dtype=np.float64)


def differ(clsname, a, b):
    """distance between two values of the class (quaternions up to sign)"""
    a, b = np.asarray(a, dtype=np.float64), np.asarray(b, dtype=np.float64)
    if a.shape != b.shape or not (np.all(np.isfinite(a)) and np.all(np.isfinite(b))):
        return math.inf
    if clsname == 'UnitQuaternion':
        return float(min(np.max(np.abs(a - b)), np.max(np.abs(a + b))))
    return float(np.max(np.abs(a - b)))


def ident_arr(clsname):
    return {'SO2': np.eye(2), 'SE2': np.eye(3), 'SO3': np.eye(3), 'SE3': np.eye(4),
            'UnitQuaternion': np.r_[1.0, 0, 0, 0], 'Twist2': np.zeros(3), 'Twist3': np.zeros(6)}[clsname]


def nontriv(clsname, ops):
    I = ident_arr(clsname)
    for i, a in enumerate(ops):
        if differ(clsname, a, I) <= 1e-6:
            return False
        for b in ops[:i]:
            if differ(clsname, a, b) <= 1e-6:
                return False
    return True


# ----------------------------------------------------------------------------- law runner
def run_law(ctx, p):
    c, law, ops, n = p['cls'], p['law'], [np.asarray(a, dtype=np.float64) for a in p['ops']], p.get('n', 0)
    tw = c in ('Twist2', 'Twist3')
    sig = dict(api=c, law=law)
    if law in ('divseq', 'powseq', 'prodseq', 'mulseq', 'antiseq'):
        return run_seq_law(ctx, p)
    try:
        X = mk(c, [ops[0]])
        Y = mk(c, [ops[1]]) if len(ops) > 1 else None
        Z = mk(c, [ops[2]]) if len(ops) > 2 else None
        I = ctors.cls(c)()
        if law == 'assoc':
            lhs, rhs = (X * Y) * Z, X * (Y * Z)
        elif law == 'identL':
            lhs, rhs = I * X, X
        elif law == 'identR':
            lhs, rhs = X * I, X
        elif law == 'invL':
            lhs, rhs = X.inv() * X, I
        elif law == 'invR':
            lhs, rhs = X * X.inv(), I
        elif law == 'antihom':
            lhs, rhs = (X * Y).inv(), Y.inv() * X.inv()
        elif law == 'div':
            if p.get('drift') and not tw:
                # operands that are themselves the result of long computations (hundreds of products' worth of rounding: members
                # to 1e-13, no longer to 100 eps): division is still the product with the inverse
                for _ in range(int(p['drift'])):
                    X, Y = X ** 8, Y ** -8
                lhs, rhs = X / Y, X * Y.inv()
                sig['drifted'] = True
            else:
                lhs, rhs = X / Y, X * Y.inv()
        elif law == 'pow':
            lhs = X ** (np.int64(n) if p.get('npint') else n)      # an integer is an integer, also when it comes out of NumPy
            rhs = X
            for _ in range(n - 1):
                rhs = rhs * X
        elif law == 'pow0':
            lhs, rhs = X ** 0, I
        elif law == 'powneg':
            lhs, rhs = X ** (-n), (X ** n).inv()
        elif law in ('aug_copy', 'aug_inv', 'aug_index', 'aug_div', 'aug_pow'):
            # the augmented operators are the same group operations; they are applied to an object that shares its storage
            # with another one (copy constructor, inverse, indexed element) and the law is evaluated AFTERWARDS on the
            # objects the user still holds
            if law == 'aug_copy':           # L = C(X); L *= Y   ->   L == X*Y  and afterwards (X*Y) still the same
                first = X * Y
                L = type(X)(X)
                L *= Y
                lhs, rhs = L, X * Y
                extra = [(first, X * Y, 'X*Y before and after `L = C(X); L *= Y`')]
            elif law == 'aug_inv':          # Q = X.inv(); Q *= X  ->  identity, and X.inv()*X still the identity afterwards
                Q = X.inv()
                Q *= X
                lhs, rhs = Q, I
                extra = [(X.inv() * X, I, 'X.inv()*X after `Q = X.inv(); Q *= X`')]
            elif law == 'aug_index':        # E = S[1]; E *= Y  ->  S[1] unchanged
                Sq = mk(c, [ops[1], ops[0]])
                E = Sq[1]
                E *= Y
                lhs, rhs = E, X * Y
                extra = [(Sq[1], X, 'S[1] after `E = S[1]; E *= Y`')]
            elif law == 'aug_div':
                L = type(X)(X)
                L /= Y
                lhs, rhs = L, X * Y.inv()
                extra = [(type(X)(X), mk(c, [ops[0]]), 'X after `L = C(X); L /= Y`')]
            else:
                L = type(X)(X)
                L **= n
                lhs, rhs = L, X ** n
                extra = [(type(X)(X), mk(c, [ops[0]]), 'X after `L = C(X); L **= n`')]
            for got, want, what_ in extra:
                dd = differ(c, got.data[0], want.data[0]) if len(got) == 1 and len(want) == 1 else math.inf
                ctx.judge('law', dd <= TOL * scale_of(c, ops + [got.data[0]]), dict(sig, kind='operand_changed_by_augmented_operator'),
                          lambda: '%s: %s differ by %.3g; operands %s' % (c, what_, dd, core.short(ops, 400)))
        elif law == 'structinv':
            return run_structinv(ctx, c, ops[0])
        else:
            raise KeyError(law)
    except Exception as e:
        ctx.bad('law', dict(sig, kind='raised', exc=type(e).__name__, where=_where(e)),
                '%s law %s raised %r on operands %s n=%s' % (c, law, e, core.short(ops, 600), n))
        return
    if type(lhs) is not type(X) or type(rhs) is not type(X) or len(lhs) != 1 or len(rhs) != 1:
        ctx.bad('law', dict(sig, kind='wrong_type'), '%s law %s returned %s / %s' % (c, law, type(lhs).__name__, type(rhs).__name__))
        return
    a, b = lhs.data[0], rhs.data[0]
    if tw:
        try:
            A, B = as_motion(c, a), as_motion(c, b)
        except Exception:
            A, B = np.full((1,), np.nan), np.full((1,), np.nan)
        sc = max([1.0, tmag(A), tmag(B)] + [tmag(as_motion(c, o)) for o in ops])
        d, tol = differ(c, A, B), TOL_TW
    else:
        sc = scale_of(c, ops + [a, b])
        d, tol = differ(c, a, b), TOL
    band = 'finite' if math.isfinite(d) else 'nonfinite'
    ctx.judge('law', d <= tol * sc, dict(sig, kind='mismatch' if band == 'finite' else 'nonfinite'),
              lambda: '%s law %s n=%s: sides differ by %.3g (allowed %.3g): lhs=%s rhs=%s operands=%s' % (
                  c, law, n, d, tol * sc, core.short(a, 200), core.short(b, 200), core.short(ops, 600)))
    ctx.cell('law', c, law)
    if nontriv(c, ops):
        ctx.nontrivial(c, law, n, [np.round(o, 6).tolist() for o in ops])


def run_structinv(ctx, c, T):
    """structured inverses equal the true matrix inverse: T @ X = X @ T = I in longdouble"""
    import spatialmath.base as base
    sig = dict(api=c, law='structinv')
    cands = []
    try:
        if c == 'SE3':
            cands.append(('base.trinv', base.trinv(T)))
        if c == 'SE2':
            cands.append(('base.trinv2', base.trinv2(T)))
        cands.append((c + '.inv', mk(c, [T]).inv().data[0]))
    except Exception as e:
        ctx.bad('law', dict(sig, kind='raised', exc=type(e).__name__), 'inverse of %s raised %r' % (core.short(T), e))
        return
    sc = scale_of(c, [T])
    for name, X in cands:
        I = np.eye(T.shape[0])
        r = max(np.max(np.abs(np.array(ref.mm(T, X), dtype=float) - I)), np.max(np.abs(np.array(ref.mm(X, T), dtype=float) - I)))
        ctx.judge('law', r <= TOL * sc, dict(sig, fn=name, kind='mismatch'),
                  lambda: '%s(T) is not the matrix inverse: residual %.3g (allowed %.3g) T=%s' % (name, r, TOL * sc, core.short(T, 400)))
    ctx.cell('law', c, 'structinv')
    if nontriv(c, [T]):
        ctx.nontrivial(c, 'structinv', np.round(T, 6).tolist())


def run_seq_law(ctx, p):
    """division and power on sequences equal the per-element single-valued operation"""
    c, law, n = p['cls'], p['law'], p.get('n', 0)
    xs = [np.asarray(a, dtype=np.float64) for a in p['ops']]
    ys = [np.asarray(a, dtype=np.float64) for a in p.get('ops2', [])]
    sig = dict(api=c, law=law)
    try:
        X = mk(c, xs)
        if law == 'divseq':
            Y = mk(c, ys)
            got = X / Y
            want = []
            for i in range(max(len(xs), len(ys))):
                xi, yi = xs[i if len(xs) > 1 else 0], ys[i if len(ys) > 1 else 0]
                want.append((mk(c, [xi]) * mk(c, [yi]).inv()).data[0])
        elif law in ('mulseq', 'antiseq'):
            # composition (and the inverse of a composition) of objects holding several values, in the M x M, M x 1 and 1 x M forms:
            # value i is the single-valued law on the i-th values, in this order (the group is not commutative)
            Y = mk(c, ys)
            got = X * Y if law == 'mulseq' else (X * Y).inv()
            want = []
            for i in range(max(len(xs), len(ys))):
                xi, yi = mk(c, [xs[i if len(xs) > 1 else 0]]), mk(c, [ys[i if len(ys) > 1 else 0]])
                want.append((xi * yi).data[0] if law == 'mulseq' else (yi.inv() * xi.inv()).data[0])
            if c in ('Twist2', 'Twist3'):
                if len(got) != len(want):
                    ctx.bad('law', dict(sig, kind='length'), '%s %s: %d results for %d x %d operands' % (c, law, len(got), len(xs), len(ys)))
                    return
                gm, wm = [as_motion(c, g) for g in got.data], [as_motion(c, w) for w in want]
                d_ = max(float(np.max(np.abs(np.asarray(g) - np.asarray(w)))) for g, w in zip(gm, wm))
                sc_ = max([1.0] + [tmag(g) for g in gm + wm] + [tmag(as_motion(c, o)) for o in xs + ys])
                ctx.judge('law', d_ <= TOL_TW * sc_, dict(sig, kind='mismatch', lens='%s,%s' % ('M' if len(xs) > 1 else '1', 'M' if len(ys) > 1 else '1')),
                          lambda: '%s %s on sequences (%d,%d): differs from the per-value law by %.3g (as motions)' % (c, law, len(xs), len(ys), d_))
                ctx.cell('law', c, law, '%dx%d' % (len(xs), len(ys)))
                ctx.nontrivial(c, law, len(xs), [np.round(o, 6).tolist() for o in xs + ys])
                return
        elif law == 'prodseq':
            # sequence product: the elements multiplied in order, left to right (the group is not commutative)
            got = X.prod()
            acc = mk(c, [xs[0]])
            for x in xs[1:]:
                acc = acc * mk(c, [x])
            want = [acc.data[0]]
            if c in ('Twist2', 'Twist3'):      # compare as motions (the twist of a product is not unique past half a turn)
                got_m, want_m = as_motion(c, got.data[0]), as_motion(c, acc.data[0])
                d_ = float(np.max(np.abs(np.asarray(got_m) - np.asarray(want_m)))) if len(got) == 1 else math.inf
                sc_ = max([1.0, tmag(got_m), tmag(want_m)] + [tmag(as_motion(c, o)) for o in xs])
                ctx.judge('law', d_ <= TOL_TW * sc_, dict(sig, kind='mismatch', m=min(len(xs), 4)),       # (twists as motions: 1e-7, as for every other twist law)
                          lambda: '%s.prod() of %d twists differs from the left-to-right product by %.3g' % (c, len(xs), d_))
                ctx.cell('law', c, law, '%d' % len(xs))
                ctx.nontrivial(c, law, len(xs), [np.round(o, 6).tolist() for o in xs])
                return
        else:
            got = X ** n
            want = [(mk(c, [x]) ** n).data[0] for x in xs]
    except Exception as e:
        ctx.bad('law', dict(sig, kind='raised', exc=type(e).__name__, where=_where(e)),
                '%s %s on sequences raised %r' % (c, law, e))
        return
    if len(got) != len(want):
        ctx.bad('law', dict(sig, kind='length'), '%s %s: %d results for %d x %d operands' % (c, law, len(got), len(xs), len(ys)))
        return
    sc = scale_of(c, xs + ys + list(got.data))
    d = max(differ(c, g, w) for g, w in zip(got.data, want))
    ctx.judge('law', d <= TOL * sc, dict(sig, kind='mismatch'),
              lambda: '%s %s on sequences (%d,%d) n=%s: differs from per-element result by %.3g' % (c, law, len(xs), len(ys), n, d))
    ctx.cell('law', c, law, '%dx%d' % (len(xs), len(ys)))
    ctx.nontrivial(c, law, n, [np.round(o, 6).tolist() for o in xs + ys])


def _where(e):
    import traceback
    tb = traceback.extract_tb(e.__traceback__)
    for fr in reversed(tb):
        if 'spatialmath' in fr.filename:
            return '%s:%s' % (fr.filename.split('spatialmath/')[-1], fr.name)
    return tb[-1].name if tb else '?'


# ----------------------------------------------------------------------------- reference model on trees
def valid12(c, objs):
    from .c01_closure import residual, KIND_OF
    for o in objs:
        for x in o.data:
            r = residual(x, KIND_OF[c]) if isinstance(x, np.ndarray) else math.inf
            if r is None or r > 1e-12:
                return False
    return True


def ref_check(ctx, c, op, operands, extra, result):
    """compare one operator application with longdouble reference arithmetic"""
    exc = extra.get('exc')
    if op in ('ref', 'ctor'):
        if exc is not None and op == 'ref':
            raise exc
        return
    if not valid12(c, operands):
        ctx.ood('refmodel')
        return
    lens = 'x'.join('1' if len(o) == 1 else 'M' for o in operands)
    sig = dict(api='%s.%s' % (c, op), lens=lens)
    if exc is not None:
        ctx.bad('refmodel', dict(sig, kind='raised', exc=type(exc).__name__, where=_where(exc)),
                '%s %s raised %r on %s' % (c, op, exc, core.short([o.data for o in operands], 500)))
        return
    if type(result) is not type(operands[0]):
        ctx.bad('refmodel', dict(sig, kind='wrong_type'), '%s %s returned %s' % (c, op, type(result).__name__))
        return
    A = operands[0].data
    B = operands[1].data if len(operands) > 1 else None
    n = max(len(A), len(B)) if B is not None else len(A)
    if len(result) != n:
        ctx.bad('refmodel', dict(sig, kind='length'), '%s %s: %d results for operand lengths %s' % (c, op, len(result), lens))
        return
    worst, wi, wsc = 0.0, 0, 1.0
    q = c == 'UnitQuaternion'
    for i in range(n):
        a = A[i if len(A) > 1 else 0]
        r = result.data[i]
        if B is not None:
            b = B[i if len(B) > 1 else 0]
        if q:
            if op == 'mul':
                want = ref.qmul(a, b)
            elif op == 'div':
                want = ref.qmul(a, ref.qconj(np.asarray(b, dtype=ref.LD)))
            elif op == 'inv':
                want = ref.qconj(np.asarray(a, dtype=ref.LD))
            elif op == 'pow':
                k = extra['n']
                want = np.array([1, 0, 0, 0], dtype=ref.LD)
                for _ in range(abs(k)):
                    want = ref.qmul(want, a)
                if k < 0:
                    want = ref.qconj(want)
            else:
                return
            want = np.array(want, dtype=np.float64)
            d, sc = differ(c, r, want), 1.0
        else:
            I = np.eye(a.shape[0], dtype=ref.LD)
            if op == 'mul':
                resid = np.asarray(r, dtype=ref.LD) - ref.mm(a, b)
            elif op == 'div':   # r = a b^-1  <=>  r b = a
                resid = ref.mm(r, b) - np.asarray(a, dtype=ref.LD)
            elif op == 'inv':
                resid = ref.mm(r, a) - I
            elif op == 'pow':
                k = extra['n']
                P = ref.mpow(a, abs(k))
                resid = (np.asarray(r, dtype=ref.LD) - P) if k >= 0 else (ref.mm(r, P) - I)
            else:
                return
            resid = np.array(resid, dtype=np.float64)
            d = float(np.max(np.abs(resid))) if np.all(np.isfinite(resid)) else math.inf
            sc = scale_of(c, [a, r] + ([b] if B is not None else []))
            if op == 'pow':
                sc = max(sc, scale_of(c, [np.array(ref.mpow(a, abs(extra['n'])), dtype=np.float64)]))
        if d / sc > worst:
            worst, wi, wsc = d / sc, i, sc
    ctx.judge('refmodel', worst <= TOL, dict(sig, kind='mismatch' if math.isfinite(worst) else 'nonfinite'),
              lambda: '%s %s (n=%s) element %d differs from the longdouble reference by %.3g x scale %.3g; operands=%s result=%s' % (
                  c, op, extra.get('n'), wi, worst, wsc, core.short([o.data for o in operands], 500), core.short(result.data[wi], 200)))
    ctx.cell('ref', c, op, lens)
    ctx.nontrivial(c, op, extra.get('n'), [np.round(x, 6).tolist() for o in operands for x in o.data])


def run_tree(ctx, p):
    c, tree = p['cls'], p['tree']
    try:
        trees.evaluate(tree, lambda op, operands, extra, result: ref_check(ctx, c, op, operands, extra, result))
    except trees.Abort:
        pass


# ----------------------------------------------------------------------------- exact integer sub-group
def _oct_group():
    """the 24 rotation matrices with entries in {0, +-1} (octahedral group): every product, inverse and power is exact"""
    import itertools as it
    out = []
    for perm in it.permutations(range(3)):
        for signs in it.product((1, -1), repeat=3):
            M = np.zeros((3, 3), dtype=np.int64)
            for r in range(3):
                M[r, perm[r]] = signs[r]
            if round(float(np.linalg.det(M))) == 1:
                out.append(M)
    return out


_OCT = _oct_group()
_C4 = [np.array(m, dtype=np.int64) for m in ([[1, 0], [0, 1]], [[0, -1], [1, 0]], [[-1, 0], [0, -1]], [[0, 1], [-1, 0]])]


def _imat(c, k, t):
    """integer homogeneous / rotation matrix of element k with integer translation t"""
    d = 2 if c in ('SO2', 'SE2') else 3
    R = (_C4 if d == 2 else _OCT)[k % (4 if d == 2 else 24)]
    if c in ('SO2', 'SO3'):
        return R.copy()
    T = np.eye(d + 1, dtype=np.int64)
    T[:d, :d] = R
    T[:d, d] = np.asarray(t[:d], dtype=np.int64)
    return T


def _iinv(c, M):
    d = 2 if c in ('SO2', 'SE2') else 3
    if c in ('SO2', 'SO3'):
        return M.T.copy()
    X = np.eye(d + 1, dtype=np.int64)
    X[:d, :d] = M[:d, :d].T
    X[:d, d] = -M[:d, :d].T @ M[:d, d]
    return X


def run_exact(ctx, p):
    """elements with integer entries (quarter-turn rotations, integer translations), given as integer or float arrays: every
    group operation has an exactly representable result, which the library must return bit for bit"""
    import spatialmath as sm
    c, ks, ts, dt, n = p['cls'], p['ks'], p['ts'], p['dtype'], int(p['n'])
    C = getattr(sm, c)
    sig = dict(api=c, law='exact_integer_subgroup', dtype=dt)
    Ms = [_imat(c, k, t) for k, t in zip(ks, ts)]
    # ('int8': every element given fits, the results of composing them need not -- the object must not compute in that type)
    give = {'int': lambda M: M.astype(np.int64), 'int8': lambda M: M.astype(np.int8), 'float': lambda M: M.astype(np.float64)}[dt]
    d = 2 if c in ('SO2', 'SE2') else 3

    def ipow(M, e):
        B = M if e >= 0 else _iinv(c, M)
        out = np.eye(M.shape[0], dtype=np.int64)
        for _ in range(abs(e)):
            out = out @ B
        return out
    try:
        X, Y, Z = (C(give(M)) for M in Ms[:3])
        seq = C([give(M) for M in Ms])
        pt = np.asarray(p['pt'][:d], dtype=np.int64)
        wantp = Ms[0][:d, :d] @ pt + (Ms[0][:d, d] if c in ('SE2', 'SE3') else 0)
        cases = [('X*Y', (X * Y).A, Ms[0] @ Ms[1]), ('X/Y', (X / Y).A, Ms[0] @ _iinv(c, Ms[1])), ('X.inv()', X.inv().A, _iinv(c, Ms[0])),
                 ('X**n', (X ** n).A, ipow(Ms[0], n)), ('(X*Y)*Z', ((X * Y) * Z).A, Ms[0] @ Ms[1] @ Ms[2]), ('X*(Y*Z)', (X * (Y * Z)).A, Ms[0] @ Ms[1] @ Ms[2]),
                 ('X*p', np.asarray(X * give(pt)).reshape(-1), wantp)]
        prod = Ms[0]
        for M in Ms[1:]:
            prod = prod @ M
        cases.append(('seq.prod()', seq.prod().A, prod))
        inv_seq = seq.inv()
        cases += [('seq.inv()[%d]' % i, inv_seq.data[i], _iinv(c, M)) for i, M in enumerate(Ms)]
        sy = seq * Y
        cases += [('(seq*Y)[%d]' % i, sy.data[i], M @ Ms[1]) for i, M in enumerate(Ms)]
        ys = Y / seq
        cases += [('(Y/seq)[%d]' % i, ys.data[i], Ms[1] @ _iinv(c, M)) for i, M in enumerate(Ms)]
    except Exception as e:
        ctx.bad('law', dict(sig, kind='raised', exc=type(e).__name__), 'exact sub-group operations raised %r (cls %s, dtype %s, elements %s)' % (e, c, dt, ks))
        return
    for name, got, want in cases:
        got = np.asarray(got)
        ok = got.shape == want.shape and np.array_equal(got.astype(np.float64), want.astype(np.float64))
        ctx.judge('law', ok, dict(sig, kind='not_exact', expr=name.split('[')[0]),
                  lambda: '%s on integer-valued elements (%s arrays) gives %s, the exact result is %s; elements %s translations %s n=%d' % (
                      name, dt, core.short(got, 200), core.short(want, 200), ks, ts, n))
    ctx.cell('exact', c, dt)
    ctx.nontrivial('exact', c, dt, ks, ts, n)


RUNNERS = {'law': run_law, 'tree': run_tree, 'exact': run_exact}


def REACH():
    import spatialmath as sm
    import spatialmath.base as b
    return [sm.super_pose.SMPose.__dict__['_op2'], sm.super_pose.SMPose.__dict__['__pow__'],
            sm.super_pose.SMPose.__dict__['__truediv__'], sm.super_pose.SMPose.__dict__['__mul__'],
            b.trinv, b.trinv2, b.qqmul, b.qpow, b.conj,
            sm.SE3.__dict__['inv'], sm.SO3.__dict__['inv'], sm.SE2.__dict__['inv'], sm.SO2.__dict__['inv'],
            sm.UnitQuaternion.__dict__['inv'], sm.UnitQuaternion.__dict__['__truediv__'],
            sm.twist.SMTwist.__dict__['inv'], sm.Twist3.__dict__['__mul__'], sm.Twist2.__dict__['__mul__']]


# ----------------------------------------------------------------------------- workload
def run(ctx):
    rng = ctx.rng
    # objects holding very many values (trajectories: where a batched / block-wise evaluation would replace the per-value loop)
    k_ = 0
    for c in ALL:
        tw = c in ('Twist2', 'Twist3')
        for law in ['divseq', 'powseq', 'prodseq', 'mulseq', 'antiseq']:
            if (tw and law in ('divseq', 'powseq')) or (c == 'UnitQuaternion' and law == 'prodseq'):
                continue
            for m in ([127, 128, 129, 256, 257] if law != 'prodseq' else [128]) + [int([2000, 2048, 2500][rng.integers(3)])] * ctx.scale(1, 3) + ([4096, 10007, 20011] if ctx.tier == 'thorough' else [17000] if (k_ // 7) % 3 == 0 else []):
                k_ += 1
                if not ctx.mine(k_):
                    continue
                if law == 'prodseq' and m > 300:
                    continue
                shape = int(rng.integers(3))
                xs = [operand(rng, c) for _ in range(m if shape != 1 else 1)]
                ys = [operand(rng, c) for _ in range(m if shape != 2 else 1)]
                drive(RUNNERS, ctx, 'law', dict(cls=c, law=law, ops=xs, ops2=ys, n=int(rng.integers(-3, 4))))
    for _ in range(ctx.scale(9000, 300000)):
        c = ALL[rng.integers(len(ALL))]
        tw = c in ('Twist2', 'Twist3')
        laws = ['assoc', 'identL', 'identR', 'invL', 'invR', 'antihom', 'prodseq', 'mulseq', 'antiseq'] if tw else LAWS + ['mulseq', 'antiseq']
        if c in ('SO2', 'SO3', 'UnitQuaternion'):
            laws = [l for l in laws if l != 'structinv']
        if c == 'UnitQuaternion':
            laws = [l for l in laws if l not in ('structinv', 'prodseq')]      # (UnitQuaternion offers no prod())
        law = laws[rng.integers(len(laws))]
        n = int(rng.integers(1, 9))
        if law in ('divseq', 'powseq', 'prodseq', 'mulseq', 'antiseq'):
            m = int(rng.integers(2, 8))
            if rng.random() < 0.12:         # long sequences (a batch path, a periodic renormalisation would show here)
                m = int([16, 17, 33, 64, 65, 100][rng.integers(6)])
            xs = [operand(rng, c) for _ in range(m)]
            ys = [operand(rng, c) for _ in range(m if rng.random() < 0.5 else 1)]
            if law in ('divseq', 'mulseq', 'antiseq') and rng.random() < 0.3:
                xs = xs[:1]
                ys = [operand(rng, c) for _ in range(m)]
            p = dict(cls=c, law=law, ops=xs, ops2=ys, n=int(rng.integers(-8, 9)))
        elif law == 'prodseq':
            p = dict(cls=c, law=law, ops=[operand(rng, c) for _ in range(int(rng.integers(2, 8)))])
        else:
            k = {'assoc': 3, 'antihom': 2, 'div': 2, 'aug_copy': 2, 'aug_index': 2, 'aug_div': 2}.get(law, 1)
            p = dict(cls=c, law=law, ops=[operand(rng, c) for _ in range(k)], n=n)
            if tw and k >= 2 and rng.random() < 0.3:
                # operands related to one another (two joints of one mechanism): the same axis, a parallel axis, the axis mirrored
                # through the origin (moments of opposite sign), each with its own angle small enough for the sum to stay below pi
                nw = 3 if c == 'Twist3' else 1
                x0 = p['ops'][0]
                if np.linalg.norm(x0[-nw:]) > 1:
                    x0 = np.r_[x0[:-nw], x0[-nw:] / np.linalg.norm(x0[-nw:]) * rng.uniform(0.1, 1.2)]
                    p['ops'][0] = x0
                lam = float(rng.uniform(0.2, 1.2))
                how = rng.integers(3)
                v1 = [x0[:-nw] * lam, -x0[:-nw] * lam, gen.transl(rng, len(x0) - nw, hi=1e2)][how]
                p['ops'][1] = np.r_[v1, x0[-nw:] * lam]
                p['related'] = ['coaxial', 'mirrored', 'parallel'][how]
            if law == 'pow' and rng.random() < 0.3:
                p['npint'] = True
            if law == 'div' and rng.random() < 0.5:
                p['drift'] = int(rng.integers(2, 4))
        drive(RUNNERS, ctx, 'law', p)
        if ctx.ncases % 1499 == 1:
            ctx.sample(dict(kind='law', **p))
    for _ in range(ctx.scale(1200, 30000)):
        c = POSES[rng.integers(4)]
        m = int(rng.integers(3, 6))
        drive(RUNNERS, ctx, 'exact', dict(cls=c, ks=[int(k) for k in rng.integers(0, 24, size=m)], ts=[[int(v) for v in rng.integers(-9, 10, size=3)] for _ in range(m)],
                                          dtype=['int', 'float'][rng.integers(2)], n=int(rng.integers(-5, 6)), pt=[int(v) for v in rng.integers(-9, 10, size=3)]))
        if rng.random() < 0.25:     # translations up to 100 in an int8 array: sums and products leave the type
            drive(RUNNERS, ctx, 'exact', dict(cls=c, ks=[int(k) for k in rng.integers(0, 24, size=m)], ts=[[int(v) for v in rng.integers(-100, 101, size=3)] for _ in range(m)],
                                              dtype='int8', n=int(rng.integers(-3, 4)), pt=[int(v) for v in rng.integers(-100, 101, size=3)]))
    depth = 4 if ctx.tier == 'quick' else 5
    for _ in range(ctx.scale(3000, 80000)):
        c = ['SO2', 'SE2', 'SO3', 'SE3', 'UnitQuaternion'][rng.integers(5)]
        t = trees.build(rng, c, int(rng.integers(1, depth + 1)), ops=('mul', 'div', 'inv', 'pow'))
        drive(RUNNERS, ctx, 'tree', dict(cls=c, tree=t))
        if ctx.ncases % 799 == 1:
            ctx.sample(dict(kind='tree', cls=c, tree=t), limit=8)
