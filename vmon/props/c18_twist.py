"""C18 -- unit twists encode screw geometry.

Boundary monitor on Twist3.Revolute / Prismatic, Twist2.Revolute / Prismatic and their
accessors (exp with scalar / vector theta and both units, pitch, pole, line, theta, isprismatic,
se3/se2, inv, scalar multiples) against the reference screw motion p -> q + Rod(a^, theta)(p - q)
evaluated in longdouble.  1e-9 relative to the data scale.
"""
import math

import numpy as np

from .. import core, gen, ref
from ..core import drive

PROP = 'C18'
SHARDS = {'quick': 4, 'thorough': 16}
TOL = 1e-9
PI = math.pi
RULE = ('axis directions with length 1 or log-uniform 1e-3..1e6 (coordinate, near-degenerate and random), axis points with '
        'coordinates up to 1e3, theta in [-2 pi, 2 pi] incl. 0 and multiples of pi/2, scalar and vector theta, rad and deg, '
        '3-D and 2-D. distinct = (constructor, accessor, inputs rounded to 9 digits); non-trivial = axis not through the origin, '
        'not a coordinate axis and theta != 0')
ASSUMPTIONS = ['scale = max(1, |q|, |test point|); the reference motion is Rodrigues on the normalised axis in longdouble']
MIN_EVALS = {'motion': {'quick': 6000, 'thorough': 100000}, 'accessors': {'quick': 4000, 'thorough': 70000},
             'consistency': {'quick': 3000, 'thorough': 40000}}


def S():
    import spatialmath
    return spatialmath


def thetas(rng):
    r = rng.random()
    if r < 0.35:
        return float([0.0, PI / 2, -PI / 2, PI, -PI, 3 * PI / 2, 2 * PI, -2 * PI][rng.integers(8)])
    if r < 0.5:
        return float(gen.sign(rng) * gen.logu(rng, 1e-9, 1e-2))
    return float(rng.uniform(-2 * PI, 2 * PI))


def md(a, b):
    a, b = np.asarray(a, dtype=np.float64), np.asarray(b, dtype=np.float64)
    if a.shape != b.shape or not np.all(np.isfinite(a)):
        return math.inf
    return float(np.max(np.abs(a - b))) if a.size else 0.0


def screw_ref(a, q, th):
    """4x4 motion: rotation by th about the axis through q with direction a"""
    R = ref.rot_ld(a, th)
    ql = np.asarray(q, dtype=ref.LD)
    t = ql - R @ ql
    return ref.f64(ref.rt2tr(R, t))


def run_rev3(ctx, p):
    sm = S()
    a, q = np.asarray(p['a'], dtype=np.float64), np.asarray(p['q'], dtype=np.float64)
    ths, units = p['thetas'], p['units']
    au = a / np.linalg.norm(a)
    sig = dict(api='Twist3.Revolute')
    sc = max(1.0, float(np.max(np.abs(q))))
    try:
        tw = sm.Twist3.Revolute(a.tolist() if p.get('aslist') else a, q)
        k = 180 / PI if units == 'deg' else 1.0
        arg = [t * k for t in ths] if len(ths) > 1 else ths[0] * k
        # the angle(s) as the object a caller may hold: NumPy scalar, 0-d array, array / tuple of angles
        thform = p.get('thform')
        if thform:
            sig['thform'] = thform
            arg = {'np.float64': np.float64, '0d': np.array, 'ndarray': np.array, 'tuple': tuple, 'readonly': lambda v: gen.layout(np.array(v), 'readonly'),
                   'strided': lambda v: gen.layout(np.array(v), 'strided')}[thform](arg)
        X = tw.exp(arg, units=units) if units == 'deg' else tw.exp(arg)
    except Exception as e:
        if p.get('thform') == '0d' and isinstance(e, (TypeError, ValueError)):
            ctx.ood('motion')       # a 0-d array is refused as an angle in some call forms: not a value, so nothing to compare
            ctx.cell('rev3', '0-d theta refused', units)
            return
        ctx.bad('motion', dict(sig, kind='raised', exc=type(e).__name__, vec=len(ths) > 1, units=units), 'Revolute(%s, %s).exp(%s, %s) raised %r' % (a, q, ths, units, e))
        return
    if type(X) is not sm.SE3 or len(X) != len(ths):
        ctx.bad('motion', dict(sig, kind='wrong_type_or_length', vec=len(ths) > 1), 'exp returned %s of length %d for %d thetas' % (type(X).__name__, len(X), len(ths)))
        return
    lam = np.asarray(p['lam'], dtype=np.float64)
    off = np.asarray(p['off'], dtype=np.float64)
    for th, T in zip(ths, X.data):
        want = screw_ref(a, q, th)
        # points of the axis are fixed
        for l in lam:
            pt = q + l * au
            scp = max(sc, float(np.max(np.abs(pt))))
            moved = md((T @ np.r_[pt, 1.0])[:3], pt)
            ctx.judge('motion', moved <= TOL * scp, dict(sig, kind='axis_point_moves', units=units),
                      lambda: 'Revolute(%s, %s).exp(%r): axis point %s moves by %.3g (allowed %.3g)' % (a, q, th, pt, moved, TOL * scp))
        dR = md(T[:3, :3], want[:3, :3])
        ctx.judge('motion', dR <= TOL, dict(sig, kind='rotation_wrong', units=units),
                  lambda: 'Revolute(%s, %s).exp(%r, %s): rotation differs from Rodrigues(a^, theta) by %.3g' % (a, q, th, units, dR))
        scp = max(sc, float(np.max(np.abs(off))))
        dP = md((T @ np.r_[off, 1.0])[:3], (want @ np.r_[off, 1.0])[:3])
        ctx.judge('motion', dP <= TOL * scp, dict(sig, kind='offaxis_point_wrong', units=units),
                  lambda: 'Revolute(%s, %s).exp(%r): image of %s differs from the screw motion by %.3g' % (a, q, th, off, dP))
    # the same motion from the matrix / vector form of the unit twist handed to the base exponential with an explicit, signed theta
    import spatialmath.base as base
    for th in ths[:2]:
        want = screw_ref(a, q, th)
        for fname, f in (('trexp(S.se3(), theta)', lambda: base.trexp(tw.se3(), th)), ('trexp(S.S, theta)', lambda: base.trexp(tw.S, th)),
                         ('trexp(S.inv().S, -theta)', lambda: base.trexp(tw.inv().S, -th))):
            try:
                T = np.asarray(f(), dtype=np.float64)
            except Exception as e:
                ctx.bad('motion', dict(sig, kind='raised', exc=type(e).__name__, route=fname.split('(')[1][:8]), '%s raised %r for Revolute(%s, %s), theta=%r' % (fname, e, a, q, th))
                continue
            pt = q + lam[1] * au
            scp = max(sc, float(np.max(np.abs(pt))), float(np.max(np.abs(off))))
            moved = md((T @ np.r_[pt, 1.0])[:3], pt)
            dP = md((T @ np.r_[off, 1.0])[:3], (want @ np.r_[off, 1.0])[:3])
            ctx.judge('motion', moved <= TOL * scp and dP <= TOL * scp, dict(sig, kind='base_two_argument_form_wrong', neg=bool(th < 0)),
                      lambda: '%s for Revolute(%s, %s), theta=%r: axis point moves by %.3g, off-axis image off by %.3g (allowed %.3g)' % (fname, a, q, th, moved, dP, TOL * scp))
    accessors3(ctx, tw, a, q, sc, prismatic=False)
    consistency(ctx, tw, 3, ths[0], sc)
    ctx.cell('rev3', units, 'vec' if len(ths) > 1 else 'scalar', core.band(np.linalg.norm(a)))
    if np.linalg.norm(np.cross(au, q)) > 1e-6 and np.sum(np.abs(au) > 1e-6) >= 2 and any(t != 0 for t in ths):
        ctx.nontrivial('rev3', units, len(ths), [float('%.9g' % x) for x in np.r_[a, q, ths]])


def accessors3(ctx, tw, a, q, sc, prismatic):
    sm = S()
    au = np.asarray(a, dtype=np.float64) / np.linalg.norm(a)
    sig = dict(api='Twist3.' + ('Prismatic' if prismatic else 'Revolute'))
    try:
        isp = tw.isprismatic
        ctx.judge('accessors', bool(isp) == prismatic, dict(sig, kind='isprismatic_wrong'), 'isprismatic = %r for a %s twist' % (isp, 'prismatic' if prismatic else 'revolute'))
        Sv = np.asarray(tw.S, dtype=np.float64)
        if prismatic:
            ctx.judge('accessors', md(Sv, np.r_[au, 0, 0, 0]) <= 1e-12, dict(sig, kind='not_unit_direction'), lambda: 'Prismatic(%s).S = %s' % (a, Sv))
            return
        ctx.judge('accessors', md(tw.w, au) <= 1e-12 and md(tw.v, -np.cross(au, q)) <= 1e-12 * sc, dict(sig, kind='v_w_wrong'),
                  lambda: 'Revolute(%s, %s): w=%s v=%s expected w=%s v=%s' % (a, q, tw.w, tw.v, au, -np.cross(au, q)))
        ctx.judge('accessors', abs(float(tw.pitch())) <= TOL * sc, dict(sig, kind='pitch_nonzero'), lambda: 'pitch() = %r for a revolute twist' % tw.pitch())
        ctx.judge('accessors', abs(float(tw.theta()) - 1) <= 1e-12, dict(sig, kind='theta_not_1'), lambda: 'theta() = %r for a unit twist' % tw.theta())
        pole = np.asarray(tw.pole(), dtype=np.float64)
        r = float(np.linalg.norm(np.cross(pole - q, au)))
        ctx.judge('accessors', r <= TOL * sc, dict(sig, kind='pole_off_axis'), lambda: 'pole() = %s is %.3g from the axis through %s along %s' % (pole, r, q, au))
        L = tw.line()
        ok = type(L) is sm.Plucker
        if ok:
            v, w = np.asarray(L.v, float), np.asarray(L.w, float)
            rq = ref.point_line_residual(q, v, w)
            par = float(np.linalg.norm(np.cross(w / np.linalg.norm(w), au)))
            ok = rq <= TOL * sc and par <= 1e-9 and float(np.dot(w, au)) > 0
        ctx.judge('accessors', ok, dict(sig, kind='line_off_axis'), lambda: 'line() = %s does not coincide with the axis through %s along %s' % (getattr(L, 'data', L), q, au))
    except Exception as e:
        ctx.bad('accessors', dict(sig, kind='raised', exc=type(e).__name__, where=_where(e)), 'accessor raised %r for axis %s point %s' % (e, a, q))


def _where(e):
    import traceback
    tb = traceback.extract_tb(e.__traceback__)
    for fr in reversed(tb):
        if 'spatialmath' in fr.filename:
            return '%s:%s' % (fr.filename.split('spatialmath/')[-1], fr.name)
    return tb[-1].name if tb else '?'


def consistency(ctx, tw, dim, k, sc):
    """se(n) matrix form, inverse (negation) and scalar multiples are consistent with exp"""
    import spatialmath.base as b
    sig = dict(api='Twist%d' % dim)
    try:
        Sv = np.asarray(tw.S, dtype=np.float64)
        M = tw.se3() if dim == 3 else tw.se2()
        ctx.judge('consistency', md(M, ref.skewa(Sv)) <= 1e-12 * max(1.0, float(np.max(np.abs(Sv)))), dict(sig, kind='se_matrix_wrong'), lambda: 'se%d() = %s for S = %s' % (dim, M, Sv))
        E = tw.exp(k).A
        Ei = tw.inv().exp(k).A
        I = np.eye(dim + 1)
        r = max(md(ref.f64(ref.mm(E, Ei)), I), md(ref.f64(ref.mm(Ei, E)), I))
        ctx.judge('consistency', r <= TOL * sc, dict(sig, kind='inv_not_inverse_motion'), lambda: 'exp(S.inv()) is not exp(S)^-1 (residual %.3g) for S=%s k=%r' % (r, Sv, k))
        Ek = (tw * k).exp().A
        d = md(Ek, E)
        ctx.judge('consistency', d <= TOL * sc, dict(sig, kind='scalar_multiple_inconsistent'), lambda: '(S*k).exp() differs from S.exp(k) by %.3g for S=%s k=%r' % (d, Sv, k))
        # no theta given: the twist is exponentiated as it stands, whatever unit is named for a theta that is not there
        for kw_ in (dict(units='deg'), dict(theta=None, units='deg'), dict(units='rad')):
            Eu = (tw * k).exp(**kw_).A
            du = md(Eu, Ek)
            ctx.judge('consistency', du <= TOL * sc, dict(sig, kind='units_without_theta_change_the_motion'),
                      lambda: '(S*k).exp(%s) differs from (S*k).exp() by %.3g for S=%s k=%r' % (kw_, du, Sv, k))
        want = ref.f64(ref.exp_twist_ld(Sv * k))
        d2 = md(E, want)
        ctx.judge('consistency', d2 <= TOL * sc, dict(sig, kind='exp_wrong'), lambda: 'S.exp(k) differs from the reference exponential by %.3g for S=%s k=%r' % (d2, Sv, k))
    except Exception as e:
        ctx.bad('consistency', dict(sig, kind='raised', exc=type(e).__name__, where=_where(e)), 'consistency checks raised %r' % e)


def run_pris3(ctx, p):
    sm = S()
    a = np.asarray(p['a'], dtype=np.float64)
    ths = p['thetas']
    au = a / np.linalg.norm(a)
    sig = dict(api='Twist3.Prismatic')
    try:
        tw = sm.Twist3.Prismatic(a)
        X = tw.exp(ths if len(ths) > 1 else ths[0])
    except Exception as e:
        ctx.bad('motion', dict(sig, kind='raised', exc=type(e).__name__), 'Prismatic(%s).exp(%s) raised %r' % (a, ths, e))
        return
    if type(X) is not sm.SE3 or len(X) != len(ths):
        ctx.bad('motion', dict(sig, kind='wrong_type_or_length'), 'exp returned %s of length %d' % (type(X).__name__, len(X)))
        return
    for th, T in zip(ths, X.data):
        want = ref.rt2tr(np.eye(3), th * au)
        d = md(T, want)
        ctx.judge('motion', d <= TOL * max(1.0, abs(th)), dict(sig, kind='not_pure_translation'),
                  lambda: 'Prismatic(%s).exp(%r) = %s, expected translation by theta a^ (diff %.3g)' % (a, th, core.short(T, 300), d))
    accessors3(ctx, tw, a, np.zeros(3), 1.0, prismatic=True)
    consistency(ctx, tw, 3, ths[0], max(1.0, abs(ths[0])))
    ctx.cell('pris3', 'vec' if len(ths) > 1 else 'scalar')
    ctx.nontrivial('pris3', [float('%.9g' % x) for x in np.r_[a, ths]])


def run_2d(ctx, p):
    sm = S()
    which = p['which']
    ths = p['thetas']
    sig = dict(api='Twist2.' + which)
    try:
        if which == 'Revolute':
            q = np.asarray(p['q'], dtype=np.float64)
            tw = sm.Twist2.Revolute(q)
            sc = max(1.0, float(np.max(np.abs(q))))
        else:
            a = np.asarray(p['a'], dtype=np.float64)
            tw = sm.Twist2.Prismatic(a)
            sc = 1.0
        units = p.get('units', 'rad')
        k_ = 180 / PI if units == 'deg' and which == 'Revolute' else 1.0       # (what degrees mean for a prismatic twist is not stated)
        arg = [t * k_ for t in ths] if len(ths) > 1 else ths[0] * k_
        if p.get('asarray') and len(ths) > 1:
            arg = np.array(arg)
        X = tw.exp(arg, units) if (units == 'deg' and which == 'Revolute') else tw.exp(arg)
        sig['units'] = units
    except Exception as e:
        ctx.bad('motion', dict(sig, kind='raised', exc=type(e).__name__), 'Twist2.%s exp(%s) raised %r' % (which, ths, e))
        return
    if type(X) is not sm.SE2 or len(X) != len(ths):
        ctx.bad('motion', dict(sig, kind='wrong_type_or_length'), 'exp returned %s of length %d' % (type(X).__name__, len(X)))
        return
    for th, T in zip(ths, X.data):
        if which == 'Revolute':
            R = ref.rot2_ld(th)
            want = ref.f64(ref.rt2tr(R, np.asarray(q, dtype=ref.LD) - R @ np.asarray(q, dtype=ref.LD)))
            moved = md((T @ np.r_[q, 1.0])[:2], q)
            ctx.judge('motion', moved <= TOL * sc, dict(sig, kind='axis_point_moves'), lambda: 'Twist2.Revolute(%s).exp(%r) moves the centre by %.3g' % (q, th, moved))
        else:
            au = a / np.linalg.norm(a)
            want = ref.rt2tr(np.eye(2), th * au)
        d = md(T, want)
        ctx.judge('motion', d <= TOL * max(sc, abs(th)), dict(sig, kind='motion_wrong'), lambda: 'Twist2.%s exp(%r) = %s expected %s' % (which, th, core.short(T, 200), core.short(want, 200)))
    try:
        isp = tw.isprismatic
        ctx.judge('accessors', bool(isp) == (which == 'Prismatic'), dict(sig, kind='isprismatic_wrong'), 'isprismatic = %r for Twist2.%s' % (isp, which))
    except Exception as e:
        ctx.bad('accessors', dict(sig, kind='raised', exc=type(e).__name__), 'Twist2.%s isprismatic raised %r' % (which, e))
    consistency(ctx, tw, 2, ths[0], max(sc, abs(ths[0])))
    ctx.cell('2d', which, 'vec' if len(ths) > 1 else 'scalar', p.get('units', 'rad'))
    ctx.nontrivial('2d', which, [float('%.9g' % x) for x in np.r_[p.get('q', p.get('a')), ths]])


def run_multi2(ctx, p):
    """several planar unit twists of mixed kinds (revolute about points, prismatic) held by one Twist2, exponentiated with one
    angle or one per twist, in either unit: every revolute value rotates by its theta about its own point (what a prismatic
    value does under degrees is not stated: judged in radians only)"""
    sm = S()
    kinds, data, ths, units, vec = p['kinds'], [np.asarray(d_, dtype=np.float64) for d_ in p['data']], p['thetas'], p['units'], p['vector']
    sig = dict(api='Twist2.multi', units=units, theta='vector' if vec else 'scalar', kinds=''.join(sorted(set(kinds))))
    try:
        tws = [sm.Twist2.Revolute(d_) if kd == 'R' else sm.Twist2.Prismatic(d_) for kd, d_ in zip(kinds, data)]
        T = sm.Twist2(tws)
        k_ = 180 / PI if units == 'deg' else 1.0
        arg = [t * k_ for t in ths] if vec else ths[0] * k_
        X = T.exp(arg, units)
    except Exception as e:
        ctx.bad('motion', dict(sig, kind='raised', exc=type(e).__name__, where=_where(e)), 'Twist2 of kinds %s .exp(%s, %s) raised %r' % (kinds, ths, units, e))
        return
    if type(X) is not sm.SE2 or len(X) != len(kinds):
        ctx.bad('motion', dict(sig, kind='wrong_type_or_length'), 'exp returned %s of length %d for %d twists' % (type(X).__name__, len(X), len(kinds)))
        return
    for i, (kd, d_, M) in enumerate(zip(kinds, data, X.data)):
        th = ths[i] if vec else ths[0]
        if kd == 'R':
            R = ref.rot2_ld(th)
            want = ref.f64(ref.rt2tr(R, np.asarray(d_, dtype=ref.LD) - R @ np.asarray(d_, dtype=ref.LD)))
            sc = max(1.0, float(np.max(np.abs(d_))))
        elif units == 'rad':
            want, sc = ref.rt2tr(np.eye(2), th * d_ / np.linalg.norm(d_)), max(1.0, abs(th))
        else:
            continue
        d = md(M, want)
        ctx.judge('motion', d <= TOL * sc, dict(sig, kind='value_of_sequence_wrong', element=kd),
                  lambda: 'element %d (%s) of Twist2 %s .exp(%s, %s) = %s, expected %s' % (i, kd, kinds, ths, units, core.short(M, 200), core.short(want, 200)))
    # scalar multiples S*k, k*S of the whole sequence (whole-number and real k), value by value
    k = p.get('k', 2)
    try:
        Sv = [np.asarray(t_.S, dtype=np.float64) for t_ in tws]
        for side, Tk in (('right', T * k), ('left', k * T)):
            okk = type(Tk) is sm.Twist2 and len(Tk) == len(Sv) and all(md(Tk.data[i], Sv[i] * k) <= 1e-12 * max(1.0, float(np.max(np.abs(Sv[i] * k)))) for i in range(len(Sv)))
            ctx.judge('consistency', okk, dict(sig, kind='scalar_multiple_wrong', side=side, ktype=type(k).__name__),
                      lambda: 'Twist2(%d values) scaled by %r on the %s holds %s, expected %s' % (len(Sv), k, side, core.short(getattr(Tk, 'data', Tk), 300), core.short([v * k for v in Sv], 300)))
    except Exception as e:
        ctx.bad('consistency', dict(sig, kind='raised', exc=type(e).__name__, where=_where(e)), 'Twist2 of kinds %s scaled by %r raised %r' % (kinds, k, e))
    # the reported kinds, value by value ("a prismatic twist is reported as prismatic and a revolute one is not, also for planar twists")
    try:
        pr, rv = T.isprismatic, T.isrevolute
        if len(kinds) > 1:
            okr = isinstance(pr, (list, np.ndarray)) and len(pr) == len(kinds) and all(bool(x) == (kd == 'P') for x, kd in zip(pr, kinds))
            # (isrevolute is "zero translational part": true for a rotation about the origin only; a prismatic value never is)
            okv = isinstance(rv, (list, np.ndarray)) and len(rv) == len(kinds) and all(not bool(x) for x, kd in zip(rv, kinds) if kd == 'P')
        else:
            okr, okv = bool(pr) == (kinds[0] == 'P'), True
        ctx.judge('accessors', okr and okv, dict(sig, kind='per_value_report_wrong'), lambda: 'isprismatic=%s isrevolute=%s for planar unit twists of kinds %s' % (pr, rv, kinds))
    except Exception as e:
        ctx.bad('accessors', dict(sig, kind='raised', exc=type(e).__name__, where=_where(e)), 'isprismatic / isrevolute of a Twist2 of kinds %s raised %r' % (kinds, e))
    ctx.cell('multi2', sig['kinds'], units, sig['theta'])
    ctx.nontrivial('multi2', kinds, units, vec, [float('%.9g' % t) for d_ in data for t in d_])


def run_multi3(ctx, p):
    """several unit twists (revolute about axes through points, or prismatic) held by one Twist3: scalar multiples, exp with a
    scalar, with one theta per twist and with no argument, and the reported pitch / theta / prismatic flags, value by value"""
    sm = S()
    kinds, axes, pts, k, ths = p['kinds'], [np.asarray(a, float) for a in p['axes']], [np.asarray(q, float) for q in p['pts']], p['k'], p['thetas']
    sig = dict(api='Twist3.multi')
    try:
        tws = [sm.Twist3.Revolute(a, q) if kd == 'R' else sm.Twist3.Prismatic(a) for kd, a, q in zip(kinds, axes, pts)]
        T = sm.Twist3(tws)
        n = len(tws)
        Sv = [np.asarray(t.S, dtype=np.float64) for t in tws]
        sc = max(1.0, max(float(np.max(np.abs(q))) for q in pts)) * max(1.0, abs(k), max(abs(t) for t in ths))
        Tk = T * k
        ok = type(Tk) is sm.Twist3 and len(Tk) == n and all(md(Tk.data[i], Sv[i] * k) <= 1e-12 * max(1.0, float(np.max(np.abs(Sv[i] * k)))) for i in range(n))
        ctx.judge('consistency', ok, dict(sig, kind='scalar_multiple_wrong'), lambda: 'Twist3(%d values) * %r holds %s, expected %s' % (n, k, core.short(getattr(Tk, 'data', Tk), 300), core.short([v * k for v in Sv], 300)))
        kT = k * T
        ok = type(kT) is sm.Twist3 and len(kT) == n and all(md(kT.data[i], Sv[i] * k) <= 1e-12 * max(1.0, float(np.max(np.abs(Sv[i] * k)))) for i in range(n))
        ctx.judge('consistency', ok, dict(sig, kind='scalar_multiple_wrong', side='left'), lambda: '%r * Twist3(%d values) holds %s' % (k, n, core.short(getattr(kT, 'data', kT), 300)))
        allrev = all(kd == 'R' for kd in kinds)      # (what a prismatic value does under degrees is not stated: degrees for revolute sequences only)
        DEG = 180 / PI
        calls = [('(S*k).exp()', Tk.exp(), [ref.f64(ref.exp_twist_ld(v * k)) for v in Sv]),
                 ('S.exp(k)', T.exp(k), [ref.f64(ref.exp_twist_ld(v * k)) for v in Sv]),
                 ('S.exp([theta_i])', T.exp(list(ths)), [ref.f64(ref.exp_twist_ld(v * t)) for v, t in zip(Sv, ths)]),
                 ('S.exp()', T.exp(), [ref.f64(ref.exp_twist_ld(v)) for v in Sv])]
        if allrev:
            calls += [("S.exp(k, 'deg')", T.exp(k * DEG, 'deg'), [ref.f64(ref.exp_twist_ld(v * k)) for v in Sv]),
                      ("S.exp([theta_i], units='deg')", T.exp([t * DEG for t in ths], units='deg'), [ref.f64(ref.exp_twist_ld(v * t)) for v, t in zip(Sv, ths)]),
                      ("S.exp(array(theta_i), 'deg')", T.exp(np.array([t * DEG for t in ths]), 'deg'), [ref.f64(ref.exp_twist_ld(v * t)) for v, t in zip(Sv, ths)]),
                      ("S[0].exp([theta_i], 'deg')", T[0].exp([t * DEG for t in ths], 'deg') if n > 1 else T.exp([ths[0] * DEG], 'deg'),
                       [ref.f64(ref.exp_twist_ld(Sv[0] * t)) for t in (ths if n > 1 else ths[:1])])]
        for name, got, want in calls:
            ok = type(got) is sm.SE3 and len(got) == len(want)
            d = max(md(got.data[i], want[i]) for i in range(len(want))) if ok else math.inf
            ctx.judge('motion', d <= TOL * sc, dict(sig, kind='exp_of_sequence_wrong', call=name),
                      lambda: '%s on %d unit twists differs from the per-value exponential by %.3g (k=%r thetas=%s kinds=%s)' % (name, n, d, k, ths, kinds))
        if n > 1:
            poles = T.pole()
            okq = len(poles) == n and all(float(np.linalg.norm(np.cross(np.asarray(pl, dtype=np.float64) - q, a / np.linalg.norm(a)))) <= TOL * max(1.0, float(np.max(np.abs(q))))
                                          for pl, kd, a, q in zip(poles, kinds, axes, pts) if kd == 'R')
            ctx.judge('accessors', okq, dict(sig, kind='per_value_pole_off_axis'), lambda: 'pole() of %d twists (kinds %s) = %s; axes through %s along %s' % (n, kinds, core.short(poles, 300), pts, axes))
        pit, th, pr = T.pitch(), T.theta(), T.isprismatic
        if n > 1:
            okp = len(pit) == n and all(abs(float(x)) <= 1e-9 * sc for x, kd in zip(pit, kinds) if kd == 'R')
            okt = len(th) == n and all(abs(float(x) - (1.0 if kd == 'R' else 0.0)) <= 1e-12 for x, kd in zip(th, kinds))
            okr = len(pr) == n and all(bool(x) == (kd == 'P') for x, kd in zip(pr, kinds))
            ctx.judge('accessors', okp and okt and okr, dict(sig, kind='per_value_report_wrong'),
                      lambda: 'pitch=%s theta=%s isprismatic=%s for unit twists of kinds %s' % (pit, th, pr, kinds))
    except Exception as e:
        ctx.bad('consistency', dict(sig, kind='raised', exc=type(e).__name__, where=_where(e)), 'multi-valued twist checks raised %r' % e)
        return
    ctx.cell('multi3', len(kinds), ''.join(sorted(set(kinds))), type(k).__name__)
    ctx.nontrivial('multi3', kinds, [float('%.9g' % x) for a in axes for x in a], k)


def run_zero(ctx, p):
    """exp(0 S) is the null motion for every S -- also after the caller has written into the array of an earlier zero-motion
    result (results belong to the caller; the library must not hand out one shared array)"""
    sm = S()
    dim = p['dim']
    sig = dict(api='Twist%d.exp' % dim, theta='0')
    a1, a2 = np.asarray(p['S1'], dtype=np.float64), np.asarray(p['S2'], dtype=np.float64)
    C = sm.Twist3 if dim == 3 else sm.Twist2
    I = np.eye(dim + 1)
    try:
        first = [C(a1).exp(0), C(a1).exp([0.0, 0.3]), (C(a1) * 0).exp(), C(a1).exp(0, 'deg')]
        for X in first:
            X.data[0][:dim, dim] += 7.0        # the caller edits its own result in place
        later = [('S2.exp(0)', C(a2).exp(0)), ('S2.exp([0.5, 0])[1]', C(a2).exp([0.5, 0.0])[1]), ('(S2*0).exp()', (C(a2) * 0).exp()), ('S1.exp(0) again', C(a1).exp(0)),
                 ('S2.inv().exp(0)', C(a2).inv().exp(0))]
    except Exception as e:
        ctx.bad('motion', dict(sig, kind='raised', exc=type(e).__name__, where=_where(e)), 'zero-motion exponentials raised %r' % e)
        return
    for name, X in later:
        d = md(X.data[0], I)
        ctx.judge('motion', d <= 1e-12, dict(sig, kind='zero_motion_not_identity'), lambda: '%s = %s is not the null motion' % (name, core.short(X.data[0], 200)))
    ctx.cell('zero', dim)
    ctx.nontrivial('zero', dim, [float('%.9g' % v) for v in np.r_[a1, a2]])


RUNNERS = {'multi2': run_multi2, 'zero': run_zero, 'multi3': run_multi3, 'rev3': run_rev3, 'pris3': run_pris3, '2d': run_2d}


def REACH():
    sm = S()
    T3, T2, ST = sm.Twist3.__dict__, sm.Twist2.__dict__, sm.twist.SMTwist.__dict__
    return [T3['Revolute'].__func__, T3['Prismatic'].__func__, T2['Revolute'].__func__, T2['Prismatic'].__func__, T3['exp'], T2['exp'],
            T3['pitch'], T3['pole'], T3['line'], T3['theta'], ST['isprismatic'].fget, ST['inv'], T3['se3'], T2['se2'], T3['__mul__'], T2['__mul__']]


REQUIRED_REACH = {'Twist3.exp': ['return SE3([base.trexp(self.S * t) for t in theta])', 'return SE3(base.trexp(self.S * theta))']}


def run(ctx):
    rng = ctx.rng
    for _ in range(ctx.scale(1200, 30000)):
        a = gen.axis(rng)
        q = gen.vec(rng, 3, 1e-3, 1e3) if rng.random() < 0.85 else np.zeros(3)
        nv = 1 if rng.random() < 0.7 else int(rng.integers(2, 8))
        p = dict(a=a, q=q, thetas=[thetas(rng) for _ in range(nv)], units=['rad', 'deg'][rng.integers(2)],
                 lam=[0.0, float(rng.uniform(-5, 5)), float(gen.sign(rng) * gen.logu(rng, 1e-3, 1e3))], off=gen.vec(rng, 3, 1e-3, 1e3),
                 aslist=bool(rng.integers(2)))
        if rng.random() < 0.12:
            # a sweep: evenly spaced angles, exactly or nearly so (one spacing off by 1e-9 .. 1e-5 of itself), 3 .. 40 of them;
            # also a constant and a decreasing vector
            nv = int(rng.integers(3, 41)) if rng.random() < 0.5 else int(rng.integers(3, 7))
            t0, d_ = float(rng.uniform(-3, 3)), float(gen.sign(rng) * gen.logu(rng, 1e-2, 1.0))
            ths_ = [t0 + k_ * d_ for k_ in range(nv)]
            r_ = rng.random()
            if r_ < 0.5:
                ths_[int(rng.integers(1, nv))] += d_ * gen.sign(rng) * gen.logu(rng, 1e-9, 1e-5)
            elif r_ < 0.6:
                ths_ = [t0] * nv
            p['thetas'] = ths_
        if rng.random() < 0.4:
            p['thform'] = (['np.float64', '0d', '0d'] if nv == 1 else ['ndarray', 'tuple', 'readonly', 'strided'])[rng.integers(3 if nv == 1 else 4)]
        drive(RUNNERS, ctx, 'rev3', p)
        if ctx.ncases % 499 == 1:
            ctx.sample(dict(case='rev3', **p), limit=4)
    for _ in range(ctx.scale(400, 8000)):
        n = int(rng.integers(1, 8))
        if rng.random() < 0.1:
            n = int([8, 9, 16, 17, 32, 33, 40, 64, 100][rng.integers(9)])        # many values (a batch path would show here)
        k = [2, 3, -1, -2][rng.integers(4)] if rng.random() < 0.4 else float(thetas(rng))
        drive(RUNNERS, ctx, 'multi3', dict(kinds=['R' if rng.random() < 0.75 else 'P' for _ in range(n)], axes=[gen.axis(rng) for _ in range(n)],
                                            pts=[gen.vec(rng, 3, 1e-3, 1e3) for _ in range(n)], k=k, thetas=[float(thetas(rng)) for _ in range(n)]))
    for _ in range(ctx.scale(300, 6000)):
        n = int(rng.integers(2, 8))
        if rng.random() < 0.1:
            n = int([8, 9, 16, 17, 32, 33, 40, 64, 100][rng.integers(9)])        # many values (a batch path would show here)
        kinds = ['R' if rng.random() < 0.65 else 'P' for _ in range(n)]
        def pdir():        # a planar direction of non-zero length (the z axis of the 3D generator projects to nothing)
            d_ = gen.axis(rng)[:2]
            return d_ if np.linalg.norm(d_) > 1e-6 else np.array([1e-3, 0.0])
        data = [gen.vec(rng, 2, 1e-3, 1e3) if kd == 'R' else pdir() for kd in kinds]
        drive(RUNNERS, ctx, 'multi2', dict(kinds=kinds, data=data, thetas=[float(thetas(rng)) for _ in range(n)], units=['rad', 'deg'][rng.integers(2)], vector=bool(rng.integers(2)),
                                           k=[2, 3, -1, -2, 0, 1][rng.integers(6)] if rng.random() < 0.6 else float(thetas(rng))))
    for _ in range(ctx.scale(150, 2500)):
        dim = int(rng.integers(2, 4))
        n = 6 if dim == 3 else 3
        drive(RUNNERS, ctx, 'zero', dict(dim=dim, S1=gen.vec(rng, n, 1e-2, 1e2), S2=gen.vec(rng, n, 1e-2, 1e2)))
    for _ in range(ctx.scale(500, 10000)):
        nv = 1 if rng.random() < 0.7 else int(rng.integers(2, 8))
        drive(RUNNERS, ctx, 'pris3', dict(a=gen.axis(rng), thetas=[thetas(rng) for _ in range(nv)]))
    for _ in range(ctx.scale(900, 20000)):
        nv = 1 if rng.random() < 0.7 else int(rng.integers(2, 8))
        if rng.random() < 0.6:
            drive(RUNNERS, ctx, '2d', dict(which='Revolute', q=gen.vec(rng, 2, 1e-3, 1e3), thetas=[thetas(rng) for _ in range(nv)],
                                           units=['rad', 'deg'][rng.integers(2)], asarray=bool(rng.integers(2))))
        else:
            a2_ = gen.axis(rng)[:2]
            if np.linalg.norm(a2_) <= 1e-6:         # (the z axis of the 3D generator projects to nothing)
                a2_ = np.array([1e-3, 0.0])
            drive(RUNNERS, ctx, '2d', dict(which='Prismatic', a=a2_, thetas=[thetas(rng) for _ in range(nv)]))
