"""C10 -- list behaviour matches a Python list of the element values.

History + executable model: the object under test and a plain Python `list` of its element
arrays are driven in lock-step through operation sequences; after every step the length and
every stored element are compared with the model, every read-out (index, negative index,
iteration, pop result, slice) must be an object of the same class with the model's values, and
exceptions must agree (IndexError exactly when the list raises; {ValueError, TypeError} for
wrong-class / multi-valued arguments, leaving the object unchanged).
The complete slice grid start, stop in {None, -7..7} x step in {None, +-1, +-2, +-3} on lengths
0..5 is enumerated on every run.
"""
import itertools
import math

import numpy as np

from .. import core, gen, ref
from ..core import drive

PROP = 'C10'
SHARDS = {'quick': 4, 'thorough': 16}
EXHAUSTIVE = True
RULE = ('(a) complete slice grid (1792 slices x lengths 0..5 x classes); (b) every operation sequence of length <= 2 (quick, plus every third of length 3 for SE3; <= 3 '
        'thorough, 4 for one class) over a 24-operation alphabet from every start length 0..4, full state comparison after every '
        'step; (c) random sequences up to length 60. distinct = (class, start length, operation sequence) / (class, length, slice); '
        'non-trivial = sequence of length >= 2 containing a mutator, or a slice of a non-empty object')
ASSUMPTIONS = ['model = Python list of the arrays held by the operand objects; stored elements are compared bit for bit, '
               'read-outs of UnitQuaternion to 1e-14 (re-normalisation on construction)',
               'argument errors may be ValueError or TypeError; index errors must be IndexError exactly when list raises']
MIN_EVALS = {'state': {'quick': 20000, 'thorough': 300000}, 'slice': {'quick': 40000, 'thorough': 80000},
             'readout': {'quick': 20000, 'thorough': 300000}, 'errors': {'quick': 3000, 'thorough': 50000}}

CLASSES = ['SO2', 'SE2', 'SO3', 'SE3', 'Quaternion', 'UnitQuaternion', 'Twist2', 'Twist3']
EXTRA = ['Plucker', 'SpatialVelocity', 'SpatialForce']      # overridden __getitem__ / append
OTHER = {'SO2': 'SE2', 'SE2': 'SO2', 'SO3': 'SE3', 'SE3': 'SO3', 'Quaternion': 'UnitQuaternion', 'UnitQuaternion': 'Quaternion',
         'Twist2': 'Twist3', 'Twist3': 'Twist2', 'Plucker': 'Twist3', 'SpatialVelocity': 'SpatialForce', 'SpatialForce': 'SpatialVelocity'}


def S():
    import spatialmath
    return spatialmath


def element(rng, c):
    from .c09_broadcast import element as e9
    if c in CLASSES:
        return e9(rng, c)
    if c == 'Plucker':
        return np.r_[np.cross(v := gen.vec(rng, 3, 1e-1, 1e1), w := gen.vec(rng, 3, 1e-1, 1e1)), w] * 1.0
    return gen.vec(rng, 6, 1e-2, 1e2)


def single(c, a):
    """single-valued library object holding array a; returns (obj, stored array)"""
    sm = S()
    C = getattr(sm, c)
    a = np.array(a, dtype=np.float64)
    if c == 'Plucker':
        o = C(a[:3], a[3:])
    elif c in ('Quaternion',):
        o = C(a)
    elif c in EXTRA:
        o = C(a)
    else:
        o = C(a, check=False)
    return o, np.array(o.data[0], copy=True)


def from_list(c, arrs):
    """object holding the given arrays, built from single-valued objects by the documented list constructor / Empty + append"""
    sm = S()
    C = getattr(sm, c)
    if len(arrs) == 0:
        return C.Empty()
    objs = [single(c, a)[0] for a in arrs]
    if c in EXTRA:
        x = C.Empty()
        for o in objs:
            x.append(o)
        return x
    return C(objs) if len(objs) > 1 else objs[0]


def eq_arr(c, a, b, readout=False):
    a, b = np.asarray(a), np.asarray(b)
    if a.shape != b.shape:
        return False
    if readout and c == 'UnitQuaternion':
        return bool(np.allclose(a, b, rtol=1e-14, atol=1e-300))
    return bool(np.array_equal(a, b))


def state_ok(ctx, c, x, model, sig, what):
    """len and stored elements equal the model; no None; then read-outs"""
    d = getattr(x, 'data', None)
    ok = isinstance(d, list) and len(x) == len(model) and len(d) == len(model) and \
        all(isinstance(v, np.ndarray) and eq_arr(c, v, m) for v, m in zip(d, model))
    ctx.judge('state', ok, dict(sig, kind='state_differs_from_model'),
              lambda: '%s: object holds %s, the list model holds %s' % (what(), core.short(d, 400), core.short(model, 400)))
    return ok


def readouts(ctx, c, x, model, sig, what, full=True):
    C = getattr(S(), c)
    n = len(model)
    rng_i = range(-n - 2, n + 2) if full else [0, -1, n, -n - 1]
    for i in rng_i:
        try:
            want = model[i]
            werr = None
        except IndexError as e:
            want, werr = None, e
        try:
            got = x[i]
            gerr = None
        except Exception as e:
            got, gerr = None, e
        if werr is not None:
            ctx.judge('errors', isinstance(gerr, IndexError), dict(sig, kind='index_error_expected', op='getitem', got=type(gerr).__name__ if gerr else 'returned'),
                      lambda: '%s: x[%d] on %d elements: list raises IndexError, object %s' % (what(), i, n, repr(gerr) if gerr else 'returned ' + core.short(getattr(got, 'data', got), 200)))
        else:
            ok = gerr is None and type(got) is C and len(got) == 1 and eq_arr(c, got.data[0], want, readout=True)
            ctx.judge('readout', ok, dict(sig, kind='index_wrong', op='getitem'),
                      lambda: '%s: x[%d] gives %s, the model gives %s' % (what(), i, repr(gerr) if gerr else '%s %s' % (type(got).__name__, core.short(getattr(got, 'data', got), 200)), core.short(want, 200)))
        # the same integer as NumPy hands it out (np.argmin, np.arange, an element of an index array): a list takes any object
        # with __index__
        ityps = (np.int64, np.intp, np.int32) + ((np.uint8,) if 0 <= i <= 255 else ())
        if n > 100:      # long objects: the narrow types too, whose own arithmetic (i + n, i + 1) leaves their range
            ityps = ityps[(i + n) % 2::2] + ((np.int8,) if -128 <= i <= 127 else ()) + ((np.uint8,) if 0 <= i <= 255 else ()) + (np.int16,)
        else:
            ityps = ityps[(i + n) % 2::2]
        for ityp in ityps:
            j = ityp(i)
            try:
                wantj, werrj = model[j], None
            except IndexError as e:
                wantj, werrj = None, e
            try:
                gotj, gerrj = x[j], None
            except Exception as e:
                gotj, gerrj = None, e
            if werrj is not None:
                okj = isinstance(gerrj, IndexError)
            else:
                okj = gerrj is None and type(gotj) is C and len(gotj) == 1 and eq_arr(c, gotj.data[0], wantj, readout=True)
            ctx.judge('readout', okj, dict(sig, kind='numpy_integer_index_wrong', op='getitem', itype=ityp.__name__),
                      lambda: '%s: x[%s(%d)] on %d elements gives %s, a list gives %s' % (what(), ityp.__name__, i, n, repr(gerrj) if gerrj else '%s holding %s' % (
                          type(gotj).__name__, core.short(getattr(gotj, 'data', gotj), 200)), repr(werrj) if werrj else core.short(wantj, 200)))
    # iteration
    try:
        its = [e for e in x]
        ok = len(its) == n and all(type(e) is C and len(e) == 1 and eq_arr(c, e.data[0], m, readout=True) for e, m in zip(its, model))
        detail = [getattr(e, 'data', e) for e in its]
    except Exception as e:
        ok, detail = False, repr(e)
    ctx.judge('readout', ok, dict(sig, kind='iteration_wrong', op='iter'),
              lambda: '%s: iteration yields %s, the model holds %s' % (what(), core.short(detail, 300), core.short(model, 300)))
    # iterations that overlap in time are independent, as for a list: zip(x, x), a nested loop, two iterators advanced in turn
    if n <= 6:
        try:
            pairs = [(a_, b_) for a_, b_ in zip(x, x)]
            nested = sum(1 for _a in x for _b in x)
            i1, i2 = iter(x), iter(x)
            turn = []
            for _ in range(n):
                turn.append(next(i1))
                turn.append(next(i2))
            inner = []
            for _a in x:
                inner.append(len(list(x)))
            ok = len(pairs) == n and all(eq_arr(c, a_.data[0], m, readout=True) and eq_arr(c, b_.data[0], m, readout=True) for (a_, b_), m in zip(pairs, model)) \
                and nested == n * n and len(turn) == 2 * n and all(eq_arr(c, turn[2 * j].data[0], model[j], readout=True) and eq_arr(c, turn[2 * j + 1].data[0], model[j], readout=True) for j in range(n)) \
                and inner == [n] * n
            detail = 'zip pairs %d, nested count %d (expected %d), alternating iterators %d items, list(x) inside a loop over x: %s' % (len(pairs), nested, n * n, len(turn), inner)
        except Exception as e:
            ok, detail = False, repr(e)
        ctx.judge('readout', ok, dict(sig, kind='overlapping_iterations_interfere', op='iter'), lambda: '%s: %s' % (what(), detail))


# ----------------------------------------------------------------------------- operations
def OPS():
    """name -> (mutates, fn(c, x, model, pool) -> new x) ; fn applies to both object and model and judges itself"""
    return ['append', 'append_multi', 'append_other', 'extend_multi', 'extend_single', 'extend_other', 'insert0', 'insert_neg',
            'insert_far', 'insert_other', 'set_other', 'pop', 'pop0', 'pop_far', 'del0', 'del_neg', 'del_far', 'set0', 'set_neg', 'set_far', 'set_multi',
            'reverse', 'clear', 'copy', 'append_empty', 'insert_empty', 'set_empty', 'extend_empty', 'insert_multi',
            'setslice_single', 'setslice_multi', 'setslice_step', 'setslice_rev', 'setslice_neg2', 'setslice_negstop']


MUTATORS = set(OPS()) - {'copy'}


def apply_op(ctx, c, x, model, name, pool, k, sig, what):
    """apply operation `name` to object x and the model; returns possibly new x.  pool: element arrays; k: counter"""
    C = getattr(S(), c)
    a = pool[k % len(pool)]
    b = pool[(k + 3) % len(pool)]
    before = [np.array(m, copy=True) for m in model]

    def expect_arg_error(f, opname):
        try:
            f()
            err = None
        except Exception as e:
            err = e
        unchanged = len(x.data) == len(before) and all(isinstance(v, np.ndarray) and eq_arr(c, v, m) for v, m in zip(x.data, before))
        ctx.judge('errors', isinstance(err, (ValueError, TypeError)) and unchanged,
                  dict(sig, kind='bad_argument_accepted' if err is None else ('object_changed' if not unchanged else 'wrong_exception'), op=opname,
                       got=type(err).__name__ if err else 'accepted'),
                  lambda: '%s: %s must raise and leave the object unchanged; got %s, data now %s' % (what(), opname, repr(err) if err else 'no exception', core.short(x.data, 300)))

    def both(fobj, fmodel, opname, index_op=False, returns=False):
        """run on model first; same exception class required for index errors"""
        m2 = list(model)
        try:
            wr = fmodel(m2)
            werr = None
        except IndexError as e:
            wr, werr = None, e
        try:
            gr = fobj()
            gerr = None
        except Exception as e:
            gr, gerr = None, e
        if werr is not None:
            unchanged = len(x.data) == len(before) and all(eq_arr(c, v, m) for v, m in zip(x.data, before))
            ctx.judge('errors', isinstance(gerr, IndexError) and unchanged,
                      dict(sig, kind='index_error_expected', op=opname, got=type(gerr).__name__ if gerr else 'returned'),
                      lambda: '%s: %s: list raises IndexError, object %s (data %s)' % (what(), opname, repr(gerr) if gerr else 'did not raise', core.short(x.data, 300)))
            return None
        if gerr is not None:
            ctx.bad('errors', dict(sig, kind='raised_where_list_does_not', op=opname, exc=type(gerr).__name__),
                    '%s: %s raised %r, a list does not' % (what(), opname, gerr))
            return None
        model[:] = m2
        if returns:
            ok = type(gr) is C and len(gr) == 1 and eq_arr(c, gr.data[0], wr, readout=True)
            ctx.judge('readout', ok, dict(sig, kind='returned_value_wrong', op=opname),
                      lambda: '%s: %s returned %s %s, the list returns %s' % (what(), opname, type(gr).__name__, core.short(getattr(gr, 'data', gr), 200), core.short(wr, 200)))
        return gr

    if name == 'append':
        o, v = single(c, a)
        both(lambda: x.append(o), lambda m: m.append(v), 'append')
    elif name == 'append_multi':
        y = from_list(c, [a, b])
        expect_arg_error(lambda: x.append(y), 'append(multi-valued)')
    elif name == 'append_other':
        oc = OTHER[c]
        y = single(oc, element(np.random.default_rng(k), oc))[0]
        expect_arg_error(lambda: x.append(y), 'append(other class)')
    elif name == 'extend_multi':
        y = from_list(c, [a, b])
        vs = [np.array(v, copy=True) for v in y.data]
        both(lambda: x.extend(y), lambda m: m.extend(vs), 'extend(multi)')
    elif name == 'extend_single':
        o, v = single(c, a)
        both(lambda: x.extend(o), lambda m: m.extend([v]), 'extend(single)')
    elif name == 'extend_other':
        oc = OTHER[c]
        y = single(oc, element(np.random.default_rng(k), oc))[0]
        expect_arg_error(lambda: x.extend(y), 'extend(other class)')
    elif name == 'insert_other':
        oc = OTHER[c]
        y = single(oc, element(np.random.default_rng(k), oc))[0]
        expect_arg_error(lambda: x.insert(0, y), 'insert(other class)')
    elif name == 'set_other':
        if len(model) > 0:
            oc = OTHER[c]
            y = single(oc, element(np.random.default_rng(k), oc))[0]

            def so3():
                x[0] = y
            expect_arg_error(so3, 'setitem(other class)')
    elif name in ('insert0', 'insert_neg', 'insert_far'):
        i = {'insert0': 0, 'insert_neg': -1, 'insert_far': 99}[name]
        o, v = single(c, a)
        both(lambda: x.insert(i, o), lambda m: m.insert(i, v), 'insert(%d)' % i)
    elif name in ('pop', 'pop0', 'pop_far'):
        if name == 'pop':
            both(lambda: x.pop(), lambda m: m.pop(), 'pop()', returns=True)
        else:
            i = 0 if name == 'pop0' else 7
            both(lambda: x.pop(i), lambda m: m.pop(i), 'pop(%d)' % i, returns=True)
    elif name in ('del0', 'del_neg', 'del_far'):
        i = {'del0': 0, 'del_neg': -1, 'del_far': 7}[name]

        def dm(m):
            del m[i]

        def do():
            del x[i]
        both(do, dm, 'del[%d]' % i)
    elif name in ('set0', 'set_neg', 'set_far'):
        i = {'set0': 0, 'set_neg': -1, 'set_far': 5}[name]
        o, v = single(c, a)

        def sm_(m):
            m[i] = v

        def so():
            x[i] = o
        both(so, sm_, 'setitem[%d]' % i)
    elif name == 'set_multi':
        if len(model) > 0:
            y = from_list(c, [a, b])

            def so2():
                x[0] = y
            expect_arg_error(so2, 'setitem(multi-valued)')
    elif name in ('append_empty', 'insert_empty', 'set_empty'):
        # an object holding no value is not a single value either: nothing a list element could be
        y = C.Empty()
        if name == 'append_empty':
            expect_arg_error(lambda: x.append(y), 'append(Empty())')
        elif name == 'insert_empty':
            expect_arg_error(lambda: x.insert(0, y), 'insert(0, Empty())')
        elif len(model) > 0:
            def soe():
                x[0] = y
            expect_arg_error(soe, 'setitem(Empty())')
    elif name == 'extend_empty':
        y = C.Empty()
        both(lambda: x.extend(y), lambda m: m.extend([]), 'extend(Empty())')
    elif name == 'insert_multi':
        y = from_list(c, [a, b])
        expect_arg_error(lambda: x.insert(0, y), 'insert(multi-valued)')
    elif name in ('setslice_rev', 'setslice_neg2', 'setslice_negstop'):
        # extended slices with a negative step: a list assigns when the lengths agree
        sl = {'setslice_rev': slice(None, None, -1), 'setslice_neg2': slice(None, None, -2), 'setslice_negstop': slice(2, -9, -1)}[name]
        nsel = len(range(*sl.indices(len(model))))
        y = from_list(c, [pool[(k + j) % len(pool)] for j in range(nsel)])
        vals = [np.array(v, copy=True) for v in y.data]
        m2 = list(model)
        m2[sl] = vals
        try:
            x[sl] = y
            gerr = None
        except Exception as e:
            gerr = e
        unchanged = len(x.data) == len(before) and all(isinstance(v, np.ndarray) and eq_arr(c, v, m) for v, m in zip(x.data, before))
        aslist = len(x.data) == len(m2) and all(isinstance(v, np.ndarray) and eq_arr(c, v, m) for v, m in zip(x.data, m2))
        ok = (gerr is None and aslist) or (gerr is not None and unchanged and not isinstance(gerr, ValueError))
        # (a clean refusal of slice assignment as such is tolerated -- the docstring says slices are not supported -- but the
        #  list's own "wrong size" ValueError for a slice of the RIGHT size is not a refusal, it is a wrong answer)
        ctx.judge('errors', ok, dict(sig, kind='extended_slice_assignment_wrong', op=name, got=type(gerr).__name__ if gerr else 'accepted'),
                  lambda: '%s: x[%s] = <%d value(s)> on %d elements: a list assigns; got %s, data now %s' % (
                      what(), sl, nsel, len(before), repr(gerr) if gerr else 'no exception', core.short(x.data, 300)))
        if gerr is None and aslist:
            model[:] = m2
        elif not unchanged:
            model[:] = [np.array(v, copy=True) if isinstance(v, np.ndarray) else v for v in x.data]
    elif name in ('setslice_single', 'setslice_multi', 'setslice_step'):
        # x[a:b] = Y: either what a list does with Y's values, or a refusal that leaves the object as it was
        # (the docstring says slices are not supported); never a half-way state
        y = from_list(c, [a] if name == 'setslice_single' else [a, b])
        vals = [np.array(v, copy=True) for v in y.data]
        sl = slice(0, 2) if name != 'setslice_step' else slice(0, None, 2)
        m2 = list(model)
        try:
            m2[sl] = vals
            werr = None
        except ValueError as e:
            werr = e
        try:
            x[sl] = y
            gerr = None
        except Exception as e:
            gerr = e
        unchanged = len(x.data) == len(before) and all(isinstance(v, np.ndarray) and eq_arr(c, v, m) for v, m in zip(x.data, before))
        aslist = werr is None and len(x.data) == len(m2) and all(isinstance(v, np.ndarray) and eq_arr(c, v, m) for v, m in zip(x.data, m2))
        ok = (gerr is not None and unchanged) or (gerr is None and aslist)
        ctx.judge('errors', ok, dict(sig, kind='slice_assignment_corrupts', op=name, got=type(gerr).__name__ if gerr else 'accepted'),
                  lambda: '%s: x[%s] = <%d value(s)>: neither the list result nor a clean refusal; %s; data now %s' % (
                      what(), sl, len(vals), repr(gerr) if gerr else 'no exception', core.short(x.data, 300)))
        if gerr is None and aslist:
            model[:] = m2
        elif not unchanged:
            model[:] = [np.array(v, copy=True) if isinstance(v, np.ndarray) else v for v in x.data]   # resynchronise after the reported corruption
    elif name == 'reverse':
        both(lambda: x.reverse(), lambda m: m.reverse(), 'reverse')
    elif name == 'clear':
        both(lambda: x.clear(), lambda m: m.clear(), 'clear')
    elif name == 'copy':
        if True:
            try:
                y = C(x)
                ok = type(y) is C and len(y.data) == len(model) and all(eq_arr(c, v, m, readout=True) for v, m in zip(y.data, model)) and y.data is not x.data
                ctx.judge('readout', ok, dict(sig, kind='copy_construct_wrong', op='copy'),
                          lambda: '%s: %s(x) holds %s, x holds %s' % (what(), c, core.short(y.data, 300), core.short(model, 300)))
                if ok:
                    model[:] = [np.array(v, copy=True) for v in y.data]   # (UnitQuaternion re-normalises: 1 ulp)
                    return y       # continue the history on the copy; the original must not change (checked by aliasing below)
            except Exception as e:
                if len(model) > 0:
                    ctx.bad('readout', dict(sig, kind='copy_construct_raised', op='copy', exc=type(e).__name__), '%s: %s(x) raised %r' % (what(), c, e))
    else:
        raise KeyError(name)
    return x


def run_history(ctx, p):
    c, start, ops = p['cls'], p['start'], p['ops']
    pool = [np.asarray(a, dtype=np.float64) for a in p['pool']]
    sig = dict(api=c)
    model = []
    try:
        x = from_list(c, pool[:start] if start <= len(pool) else [pool[j_ % len(pool)] for j_ in range(start)])
        model = [np.array(v, copy=True) for v in x.data]
    except Exception as e:
        ctx.bad('state', dict(sig, kind='construct_raised', exc=type(e).__name__, n=start), 'building %s with %d elements raised %r' % (c, start, e))
        return
    done = []
    what = lambda: '%s start=%d after %s' % (c, start, done)
    if not state_ok(ctx, c, x, model, dict(sig, op='construct'), what):
        return
    readouts(ctx, c, x, model, dict(sig, op='construct'), what, full=len(ops) <= 3)
    kept = []       # results handed out earlier (x[i], x[a:b], an iterated item) with the values they had: a list's items do not
    #                 change when the list is mutated afterwards, and mutating a result does not change the list

    def keep(k):
        n = len(model)
        try:
            if k % 3 == 0:
                i = -1 if k % 2 else 0
                kept.append((x[i], [np.array(model[i], copy=True)], 'x[%d] taken after step %d (length %d)' % (i, k, n)))
            elif k % 3 == 1:
                kept.append((x[0:2], [np.array(m, copy=True) for m in model[0:2]], 'x[0:2] taken after step %d (length %d)' % (k, n)))
            else:
                kept.append((next(iter(x)), [np.array(model[0], copy=True)], 'first iterated item taken after step %d (length %d)' % (k, n)))
        except (IndexError, StopIteration):
            pass

    def kept_ok(opname):
        for g, exp, desc in kept:
            ok = len(g.data) == len(exp) and all(isinstance(v, np.ndarray) and eq_arr(c, v, m, readout=True) for v, m in zip(g.data, exp))
            ctx.judge('state', ok, dict(sig, kind='earlier_result_changed', op=opname),
                      lambda: '%s: %s held %s, now holds %s' % (what(), desc, core.short(exp, 200), core.short(g.data, 200)))
            if not ok:
                return False
        return True

    keep(0)
    for k, name in enumerate(ops):
        done.append(name)
        x = apply_op(ctx, c, x, model, name, pool, start + k, dict(sig, op=name), what)
        if not state_ok(ctx, c, x, model, dict(sig, op=name), what):
            return
        if not kept_ok(name):
            return
        if len(kept) < 8:
            keep(k + 1)
        if len(ops) <= 3 or k == len(ops) - 1 or k % 7 == 0:
            readouts(ctx, c, x, model, dict(sig, op=name), what, full=len(ops) <= 3)
    # mutating the results handed out must leave the object as it is
    for g, exp, desc in kept:
        try:
            g.append(single(c, pool[0])[0])
            g.reverse()
            if len(g) > 1:
                g.pop()
        except Exception as e:
            ctx.bad('state', dict(sig, kind='result_not_a_list', exc=type(e).__name__), '%s: %s: append / reverse / pop on the result raised %r' % (what(), desc, e))
            return
    if kept and not state_ok(ctx, c, x, model, dict(sig, op='mutate_results'), what):
        return
    # a loop over the object that changes it on the way (a list re-reads its length at every step: appended items are visited,
    # a shrinking list simply ends the loop)
    if 1 <= len(model) <= 6 and (len(ops) + start) % 3 == 0:
        for how in ('append', 'pop', 'del0', 'clear', 'insert0'):
            try:
                xc = from_list(c, [np.array(m, copy=True) for m in model])
            except Exception:
                break
            mc = [np.array(v, copy=True) for v in xc.data]       # (what the object holds: a unit quaternion is normalised again on construction)
            o_, v_ = single(c, pool[(start + len(ops)) % len(pool)])

            def mutate(obj, item):
                if how == 'append':
                    obj.append(item)
                elif how == 'pop':
                    obj.pop()
                elif how == 'del0':
                    del obj[0]
                elif how == 'clear':
                    obj.clear()
                else:
                    obj.insert(0, item)

            def walk(obj, item):
                seen_ = 0
                try:
                    for _e in obj:
                        seen_ += 1
                        if seen_ >= 12:
                            break
                        if seen_ <= 3:
                            mutate(obj, item)
                    return seen_, None
                except Exception as ex:
                    return seen_, ex
            want_, werr_ = walk(mc, v_)
            got_, gerr_ = walk(xc, o_)
            ok = got_ == want_ and type(gerr_) is type(werr_) and len(xc.data) == len(mc) and all(eq_arr(c, v, m) for v, m in zip(xc.data, mc))
            ctx.judge('readout', ok, dict(sig, kind='iteration_while_mutating_differs', op='iter+' + how),
                      lambda: '%s: a loop that does %s during its first three steps visits %d items%s and leaves %d; a list visits %d%s and leaves %d' % (
                          what(), how, got_, ' then raises %r' % gerr_ if gerr_ else '', len(xc.data), want_, ' then raises %r' % werr_ if werr_ else '', len(mc)))
    ctx.cell('kept_results', c, min(len(kept), 8), min(len(m_[1]) for m_ in kept) if kept else 0)
    ctx.cell('history', c, start, len(ops))
    if len(ops) >= 2 and any(o in MUTATORS for o in ops):
        ctx.nontrivial('history', c, start, ops)


def run_slices(ctx, p):
    """complete slice grid on one object"""
    c, n = p['cls'], p['n']
    pool = [np.asarray(a, dtype=np.float64) for a in p['pool']]
    C = getattr(S(), c)
    sig = dict(api=c, op='slice')
    try:
        x = from_list(c, pool[:n])
        model = [np.array(v, copy=True) for v in x.data]
    except Exception as e:
        ctx.bad('slice', dict(sig, kind='construct_raised', exc=type(e).__name__), 'building %s with %d elements raised %r' % (c, n, e))
        return
    B = [None] + list(range(-7, 8))
    ST = [None, 1, -1, 2, -2, 3, -3]
    for a in B:
        for b in B:
            for st in ST:
                sl = slice(a, b, st)
                want = model[sl]
                try:
                    got = x[sl]
                    err = None
                except Exception as e:
                    got, err = None, e
                ok = err is None and type(got) is C and isinstance(got.data, list) and len(got.data) == len(want) and \
                    all(isinstance(v, np.ndarray) and eq_arr(c, v, w, readout=True) for v, w in zip(got.data, want))
                cls_ = ('neg_step' if (st or 1) < 0 else 'pos_step') + ('/empty_result' if len(want) == 0 else '')
                ctx.judge('slice', ok, dict(sig, kind='slice_wrong', shape=cls_, exc=type(err).__name__ if err else None),
                          lambda: '%s with %d elements: x[%s:%s:%s] gives %s, a list gives %d elements %s' % (
                              c, n, a, b, st, repr(err) if err else core.short(getattr(got, 'data', got), 200), len(want), core.short(want, 200)))
                if n > 0:
                    ctx.nontrivial('slice', c, n, a, b, st)
    ctx.cell('slices', c, n)
    # the object must be unchanged by slicing
    state_ok(ctx, c, x, model, dict(sig, op='after_slicing'), lambda: '%s after slicing' % c)


def run_ctor(ctx, p):
    """Empty, Alloc(n), construction from a list of objects (incl. wrong class inside)"""
    c, n = p['cls'], p['n']
    C = getattr(S(), c)
    sig = dict(api=c)
    try:
        e = C.Empty()
        ctx.judge('state', type(e) is C and len(e) == 0 and e.data == [], dict(sig, kind='Empty_wrong', op='Empty'), 'Empty() gives %r' % (e.data,))
        a = C.Alloc(n)
        ident = C().data[0]
        ok = type(a) is C and len(a) == n and all(np.array_equal(v, ident) for v in a.data) and len({id(v) for v in a.data}) == n
        ctx.judge('state', ok, dict(sig, kind='Alloc_wrong', op='Alloc'), lambda: 'Alloc(%d) gives %s' % (n, core.short(a.data, 300)))
    except Exception as ex:
        ctx.bad('state', dict(sig, kind='ctor_raised', op='Empty/Alloc', exc=type(ex).__name__), '%s Empty/Alloc(%d) raised %r' % (c, n, ex))
    ctx.cell('ctor', c, n)


def run_ctorlist(ctx, p):
    """construction from a list of objects: pattern letters O = own-class single value, F = single value of another class,
    M = own-class object holding two values, E = own-class Empty(). Only all-O lists may be accepted (and must then equal the
    list of the element values); everything else must raise.  UnitQuaternion documents conversion from SO3/SE3 (also in lists):
    such lists must give unit quaternions of the same rotations instead."""
    c, d, pat = p['cls'], p['other'], p['pat']
    pool = [np.asarray(a, dtype=np.float64) for a in p['pool']]
    opool = [np.asarray(a, dtype=np.float64) for a in p['opool']]
    C = getattr(S(), c)
    sig = dict(api=c, op='construct_from_list', item='multi-valued' if 'M' in pat else 'empty' if 'E' in pat else 'other class' if 'F' in pat else 'own')
    items, model = [], []
    for k, ch in enumerate(pat):
        if ch == 'O':
            o, v = single(c, pool[k])
            items.append(o)
            model.append(v)
        elif ch == 'R':       # the very same object once more (a list may hold one object several times)
            items.append(items[-1])
            model.append(model[-1])
        elif ch == 'A':       # an own-class value as a bare array (the documented "list of arrays" form)
            o, v = single(c, pool[k])
            items.append(np.array(v, copy=True))
            model.append(v)
        elif ch == 'F':
            items.append(single(d, opool[k])[0])
        elif ch == 'M':
            items.append(from_list(c, [pool[k], pool[k + 3]]))
        else:
            items.append(C.Empty())
    snap = [[np.array(v, copy=True) for v in it.data] if not isinstance(it, np.ndarray) else [np.array(it, copy=True)] for it in items]
    kw = {'check': False} if p.get('nocheck') else {}
    if kw:
        sig['check'] = False
    try:
        x = C(list(items), **kw)
        err = None
    except Exception as e:
        x, err = None, e
    what = lambda: '%s([%s]) (F = %s)' % (c, ', '.join(pat), d)
    if c == 'UnitQuaternion' and d in ('SO3', 'SE3') and 'F' in pat and set(pat) <= {'O', 'F'}:
        # documented conversion; if accepted, every element must be the unit quaternion of the corresponding rotation
        if err is None:
            ok = type(x) is C and len(x.data) == len(items) and all(
                isinstance(v, np.ndarray) and v.shape == (4,) and abs(np.linalg.norm(v) - 1) < 1e-12 and
                np.allclose(S().base.q2r(v), np.asarray(it.R), atol=1e-12) for v, it in zip(x.data, items))
            ctx.judge('state', ok, dict(sig, kind='conversion_list_wrong'), lambda: '%s holds %s' % (what(), core.short(x.data, 300)))
        else:
            ctx.ok('errors')
    elif set(pat) <= {'O', 'R'}:
        if err is not None:
            ctx.bad('state', dict(sig, kind='construct_raised', exc=type(err).__name__), '%s raised %r' % (what(), err))
        else:
            ctx.judge('state', type(x) is C, dict(sig, kind='wrong_class'), lambda: '%s gives a %s' % (what(), type(x).__name__))
            # (UnitQuaternion re-normalises on construction: 1 ulp, as for the copy constructor)
            d_ = getattr(x, 'data', None)
            ok = isinstance(d_, list) and len(d_) == len(model) and all(isinstance(v, np.ndarray) and eq_arr(c, v, m, readout=True) for v, m in zip(d_, model))
            ctx.judge('state', ok, dict(sig, kind='state_differs_from_model'),
                      lambda: '%s: object holds %s, the list model holds %s' % (what(), core.short(d_, 400), core.short(model, 400)))
            if ok and 'R' in pat:
                # the slots are separate although they were filled from one object: assigning to one leaves the others
                o_, v_ = single(c, pool[len(pat) + 1])
                x[0] = o_
                model[0] = v_
                ok2 = len(x.data) == len(model) and all(eq_arr(c, v, m, readout=True) for v, m in zip(x.data, model))
                ctx.judge('state', ok2, dict(sig, kind='repeated_item_slots_linked'), lambda: '%s then x[0] = other: object holds %s, a list holds %s' % (what(), core.short(x.data, 400), core.short(model, 400)))
    else:
        d_ = getattr(x, 'data', None)
        ctx.judge('errors', err is not None, dict(sig, kind='bad_list_accepted'),
                  lambda: '%s must raise; it returned a %s of length %s holding elements of shape %s' % (
                      what(), type(x).__name__, len(d_) if isinstance(d_, list) else '?', [np.shape(v) for v in d_] if isinstance(d_, list) else d_))
    same = all((len(it.data) == len(sn) and all(np.array_equal(a, b) for a, b in zip(it.data, sn))) if not isinstance(it, np.ndarray) else np.array_equal(it, sn[0]) for it, sn in zip(items, snap))
    ctx.judge('errors', same, dict(sig, kind='list_items_modified'), lambda: '%s modified the objects in the list' % what())
    ctx.cell('ctorlist', c, pat, d if 'F' in pat else '-')
    ctx.nontrivial('ctorlist', c, d if 'F' in pat else '-', pat)


def run_ctorempty(ctx, p):
    c = p['cls']
    C = getattr(S(), c)
    sig = dict(api=c, op='construct_from_list', item='none')
    arg = [] if p['form'] == 'list' else ()
    try:
        x = C(arg)
        err = None
    except Exception as e:
        x, err = None, e
    if err is None:
        ok = type(x) is C and isinstance(x.data, list) and len(x.data) == 0 and len(x) == 0
        ctx.judge('state', ok, dict(sig, kind='empty_list_not_empty'), lambda: '%s(%r) holds %s' % (c, arg, core.short(getattr(x, 'data', x), 200)))
    else:
        ctx.judge('errors', not isinstance(err, IndexError), dict(sig, kind='empty_list_raises_IndexError'),
                  lambda: '%s(%r) raised %r' % (c, arg, err))
    ctx.cell('ctorempty', c, p['form'])
    ctx.nontrivial('ctorempty', c, p['form'])


def run_copies(ctx, p):
    """a copy (copy constructor, .copy(), copy.copy, copy.deepcopy, pickle round trip) holds the values of the original and is a
    list of its own: list operations on either leave the other as it was"""
    import copy as cp
    import pickle
    c, n, how = p['cls'], p['n'], p['how']
    pool = [np.asarray(a, dtype=np.float64) for a in p['pool']]
    C = getattr(S(), c)
    sig = dict(api=c, op='copy:' + how)
    try:
        x = from_list(c, pool[:n])
        model = [np.array(v, copy=True) for v in x.data]
        y = {'ctor': lambda: C(x), 'method': lambda: x.copy(), 'copy.copy': lambda: cp.copy(x), 'deepcopy': lambda: cp.deepcopy(x),
             'pickle': lambda: pickle.loads(pickle.dumps(x))}[how]()
    except Exception as e:
        if n == 0 and how == 'ctor':
            ctx.ood('state')        # C(Empty()): refusing an empty argument is the constructor's documented choice
            return
        ctx.bad('state', dict(sig, kind='copy_raised', exc=type(e).__name__), '%s of %s holding %d value(s) raised %r' % (how, c, n, e))
        return
    what = lambda: '%s copy of %s holding %d value(s)' % (how, c, n)
    ok = type(y) is C and isinstance(getattr(y, 'data', None), list) and len(y.data) == n and all(isinstance(v, np.ndarray) and eq_arr(c, v, m, readout=True) for v, m in zip(y.data, model))
    ctx.judge('state', ok, dict(sig, kind='copy_differs'), lambda: '%s holds %s %s, the original holds %s' % (what(), type(y).__name__, core.short(getattr(y, 'data', y), 300), core.short(model, 300)))
    if not ok:
        return
    ymodel = [np.array(v, copy=True) for v in y.data]
    try:
        # list operations on the copy ...
        o1, v1 = single(c, pool[(n + 1) % len(pool)])
        y.append(o1)
        ymodel.append(v1)
        y.reverse()
        ymodel.reverse()
        if len(ymodel) > 1:
            y.pop(0)
            ymodel.pop(0)
            o2, v2 = single(c, pool[(n + 2) % len(pool)])
            y[0] = o2
            ymodel[0] = v2
        state_ok(ctx, c, x, model, dict(sig, op='copy:' + how, after='operations on the copy'), lambda: what() + ': the ORIGINAL after append / reverse / pop / setitem on the copy')
        state_ok(ctx, c, y, ymodel, dict(sig, op='copy:' + how, after='operations on the copy (copy itself)'), lambda: what() + ': the copy after its own operations')
        # ... and on the original
        o3, v3 = single(c, pool[(n + 3) % len(pool)])
        x.insert(0, o3)
        model.insert(0, v3)
        if len(model) > 1:
            del x[-1]
            del model[-1]
        state_ok(ctx, c, y, ymodel, dict(sig, op='copy:' + how, after='operations on the original'), lambda: what() + ': the COPY after insert / del on the original')
        state_ok(ctx, c, x, model, dict(sig, op='copy:' + how, after='operations on the original (original itself)'), lambda: what() + ': the original after its own operations')
    except Exception as e:
        ctx.bad('state', dict(sig, kind='raised_after_copy', exc=type(e).__name__), '%s: list operations raised %r' % (what(), e))
        return
    ctx.cell('copies', c, how, n)
    if n > 0:
        ctx.nontrivial('copies', c, how, n)


RUNNERS = {'copies': run_copies, 'ctorempty': run_ctorempty, 'history': run_history, 'slices': run_slices, 'ctor': run_ctor, 'ctorlist': run_ctorlist}


def REACH():
    sm = S()
    U = sm.smuserlist.SMUserList.__dict__
    return [U['__getitem__'], U['__setitem__'], U['append'], U['extend'], U['insert'], U['pop'], U['Empty'].__func__, U['Alloc'].__func__,
            U['arghandler'], sm.Plucker.__dict__.get('__getitem__'), sm.Plucker.__dict__.get('append'),
            sm.spatialvector.SpatialVector.__dict__.get('__getitem__')]


# ----------------------------------------------------------------------------- workload
def run(ctx):
    rng = ctx.rng
    i = 0
    pools = {c: gen.distinct(rng, lambda r, c=c: element(r, c), 10) for c in CLASSES + EXTRA}
    # (a) slice grid
    for c in CLASSES + EXTRA:
        for n in range(0, 6):
            i += 1
            if ctx.mine(i):
                drive(RUNNERS, ctx, 'slices', dict(cls=c, n=n, pool=pools[c]))
                if n <= 4:
                    for how in ('ctor', 'method', 'copy.copy', 'deepcopy', 'pickle'):
                        drive(RUNNERS, ctx, 'copies', dict(cls=c, n=n, how=how, pool=pools[c]))
                drive(RUNNERS, ctx, 'ctor', dict(cls=c, n=n))
    # (a') constructor from every list pattern of length <= 3 over own / foreign / multi-valued / empty objects
    allc = CLASSES + EXTRA
    for c in allc:
        pats = [''.join(t) for L in (1, 2, 3) for t in itertools.product('OF', repeat=L)]
        for d in allc:
            if d == c:
                continue
            for pat in pats:
                if 'F' not in pat:
                    continue
                i += 1
                if ctx.mine(i):
                    drive(RUNNERS, ctx, 'ctorlist', dict(cls=c, other=d, pat=pat, pool=pools[c], opool=pools[d]))
        # an empty list / tuple of objects: a list of nothing has length 0 (a refusal is tolerated, but IndexError is what an
        # out-of-range index raises, not what a constructor argument raises)
        for form in ('list', 'tuple'):
            i += 1
            if ctx.mine(i):
                drive(RUNNERS, ctx, 'ctorempty', dict(cls=c, form=form))
        for pat in [''.join(t) for L in (1, 2, 3) for t in itertools.product('OME', repeat=L)] + ['OR', 'ORR', 'ORO', 'OOR']:
            i += 1
            if ctx.mine(i):
                drive(RUNNERS, ctx, 'ctorlist', dict(cls=c, other=OTHER[c], pat=pat, pool=pools[c], opool=pools[OTHER[c]]))
        # a list that starts with a bare array and goes on with an object of another class / an object holding several values /
        # an empty object: refused like the all-object lists, with and without value checking (check=False skips the test of
        # the VALUES, it does not make an object a value)
        if c in ('SO2', 'SE2', 'SO3', 'SE3', 'Twist2', 'Twist3', 'UnitQuaternion'):
            for pat in ('AF', 'AM', 'AE', 'AAF', 'AAM', 'AFA', 'M', 'OM', 'MO', 'OMO', 'E', 'OE', 'EO', 'OEO', 'OF', 'FO', 'OOM'):
                for nocheck in ((False, True) if pat[0] == 'A' else (True,)):
                    i += 1
                    if ctx.mine(i):
                        drive(RUNNERS, ctx, 'ctorlist', dict(cls=c, other=OTHER[c], pat=pat, pool=pools[c], opool=pools[OTHER[c]], nocheck=nocheck))
    # (b) exhaustive short histories
    ops = OPS()
    maxlen = {c: 2 for c in CLASSES + EXTRA}
    if ctx.tier == 'thorough':
        maxlen = {c: 3 for c in CLASSES + EXTRA}
        maxlen['SE3'] = 4
    else:
        maxlen['SE3'] = 3
    for c in CLASSES + EXTRA:
        alphabet = list(ops)
        for L in range(1, maxlen[c] + 1):
            for start in range(0, 5):
                for seq in itertools.product(alphabet, repeat=L):
                    i += 1
                    if L == 3 and ctx.tier == 'quick' and i % 3:
                        continue            # quick tier: every third length-3 history (all of them in the thorough tier)
                    if not ctx.mine(i):
                        continue
                    drive(RUNNERS, ctx, 'history', dict(cls=c, start=start, ops=list(seq), pool=pools[c]))
                    if i % 9973 == 0:
                        ctx.sample(dict(case='history', cls=c, start=start, ops=list(seq)), limit=8)
    # objects of 127 .. 257 values (the limits of the 8-bit index types; block sizes), short histories on them
    for c in CLASSES + EXTRA:
        for start in (127, 128, 129, 255, 256, 257):
            i += 1
            if not ctx.mine(i):
                continue
            for _ in range(ctx.scale(1, 12)):
                alphabet = list(ops)
                seq = [alphabet[rng.integers(len(alphabet))] for _ in range(int(rng.integers(1, 4)))]
                drive(RUNNERS, ctx, 'history', dict(cls=c, start=start, ops=seq, pool=pools[c]))
    # (c) random long histories
    for _ in range(ctx.scale(600, 20000)):
        c = (CLASSES + EXTRA)[rng.integers(len(CLASSES) + len(EXTRA))]
        alphabet = list(ops)
        L = int(rng.integers(4, 61))
        seq = [alphabet[rng.integers(len(alphabet))] for _ in range(L)]
        pool = pools[c]
        if c in ('SO2', 'SE2', 'SO3', 'SE3') and rng.random() < 0.3:
            # members that have drifted by ~1e-12 (hundreds of unnormalised products): still valid to 1e-9, and a list does not care
            d = pool[0].shape[0]
            pool = [a + 1e-12 * rng.normal(size=a.shape) * (np.arange(d)[:, None] < (d if c in ('SO2', 'SO3') else d - 1)) for a in pool]
        drive(RUNNERS, ctx, 'history', dict(cls=c, start=int(rng.integers(0, 5)), ops=seq, pool=pool))
    ctx.extra['configurations_enumerated'] = i
