"""C17 -- functions and operators never modify their arguments.

Boundary snapshotter: a deep, byte-level snapshot of everything reachable from the arguments /
operands / receiver is taken before each call and compared after it (also when the call raises).
(i) every catalogued callable of spatialmath.base and of the classes, arguments in list and
ndarray form; the call is evaluated twice and the two outputs must be equal;
(ii) every public method / property / operator of every class, enumerated by reflection, on
single- and multi-valued receivers (documented list mutators may change their receiver only);
(iii) history pool: live values (arrays, views returned by the library, objects) are fed to
random calls whose results join the pool; after every call ALL pool members are verified, so
a result that shares storage with an input and is later written to is seen.
"""
import inspect
import math
import operator

import sys

import numpy as np

from .. import catalogue as cat
from .. import core, gen, ref
from ..compare import same
from ..core import drive
from ..instrument import snapshot

PROP = 'C17'
SHARDS = {'quick': 4, 'thorough': 16}
RULE = ('(i) catalogue sweep (C15 catalogue + matrix-valued functions) with list and ndarray arguments, each call twice; '
        '(ii) reflection over every public member and operator dunder of the 16 classes with single- and multi-valued receivers; '
        '(iii) random histories of 150 calls over a pool of live values incl. views. distinct = (callable, argument form, receiver '
        'length) / history seed; non-trivial = the arguments contain at least one ndarray or library object')
ASSUMPTIONS = ['documented list mutators (append, extend, insert, pop, clear, reverse, sort, remove, __setitem__, __delitem__, '
               '__iadd__ of UserList) may change their receiver; graphics and printing-to-stdout entry points are not driven',
               'random constructors are exempt from the equal-outputs clause']
MIN_EVALS = {'args_unchanged': {'quick': 4000, 'thorough': 45000}, 'deterministic': {'quick': 1500, 'thorough': 16000},
             'pool_intact': {'quick': 200000, 'thorough': 6000000}}
MUTATORS = {'append', 'extend', 'insert', 'pop', 'clear', 'reverse', 'sort', 'remove', '__setitem__', '__delitem__', '__iadd__', '__imul__'}
SKIP = {'plot', 'animate', 'printline', 'Rand', 'Alloc', 'Empty', 'arghandler', 'binop', 'unop', 'copy', 'count', 'index',
        'isvalid', 'mro', 'data', 'intersect_volume', 'P3', 'qvmul'}
CLS = ['SO2', 'SE2', 'SO3', 'SE3', 'Quaternion', 'UnitQuaternion', 'Twist2', 'Twist3', 'Plucker', 'SpatialVelocity',
       'SpatialAcceleration', 'SpatialForce', 'SpatialMomentum', 'SpatialInertia', 'DualQuaternion', 'UnitDualQuaternion', 'Plane']

EXTRA_BASE = [   # matrix-valued functions not in the C15 catalogue
    cat.E('base.t2r', [('T3',)]), cat.E('base.r2t', [('R3',)]), cat.E('base.tr2rt', [('T3',)]), cat.E('base.tr2rt', [('T2',)]),
    cat.E('base.trinv', [('T3',)]), cat.E('base.trinv2', [('T2',)]), cat.E('base.trnorm', [('T3',)]), cat.E('base.trnorm', [('R3',)]),
    cat.E('base.trlog', [('T3',)]), cat.E('base.trlog', [('R3',)]), cat.E('base.trlog2', [('T2',)]), cat.E('base.r2q', [('R3',)]),
    cat.E('base.trinterp', [('T3',), ('T3',), ('S01',)]), cat.E('base.trinterp', [('NONE',), ('T3',), ('S01',)]),
    cat.E('base.trinterp2', [('T2',), ('T2',), ('S01',)]), cat.E('base.trinterp2', [('NONE',), ('T2',), ('S01',)]),
    cat.E('base.tr2delta', [('T3',)]), cat.E('base.tr2delta', [('T3',), ('T3',)]), cat.E('base.tr2jac', [('T3',)]),
    cat.E('base.adjoint', [('T3',)]), cat.E('base.vex', [('SK3',)]), cat.E('base.vexa', [('SKA3',)]),
    cat.E('base.h2e', [('P4N',)]), cat.E('base.e2h', [('P3N',)]), cat.E('base.homtrans', [('T3',), ('P3N',)]),
    cat.E('base.ishom', [('T3',)], {'check': ('FLAG',)}), cat.E('base.isrot', [('R3',)], {'check': ('FLAG',)}), cat.E('base.isR', [('R3',)]),
    cat.E('base.isskew', [('SK3',)]), cat.E('base.isskewa', [('SKA3',)]), cat.E('base.iseye', [('R3',)]),
    cat.E('base.trexp', [('SK3',)]), cat.E('base.trexp', [('SKA3',)]), cat.E('base.transl', [('T3',)]), cat.E('base.transl2', [('T2',)]),
    cat.E('base.trprint', [('T3',)], {'file': ('NONE',)}), cat.E('base.trprint2', [('T2',)], {'file': ('NONE',)}),
    cat.E('m:SE3.printline', [], {'file': ('NONE',)}, recv=('OBJM', 'SE3')), cat.E('m:SE2.printline', [], {'file': ('NONE',)}, recv=('OBJM', 'SE2')),
    cat.E('m:SE3.printline', [], {'file': ('NONE',), 'orient': ('LIT', 'eul')}, recv=('OBJ', 'SE3')),
    cat.E('base.angdiff', [cat.V(None)]), cat.E('base.angdiff', [cat.V(3), cat.V(3)]), cat.E('base.removesmall', [('T3',)]),
    cat.E('base.det', [('R3',)]),
    # planar counterparts and the matrix assemblers
    cat.E('base.t2r', [('T2',)]), cat.E('base.r2t', [('R2',)]), cat.E('base.rt2tr', [('R3',), cat.V(3)]), cat.E('base.rt2tr', [('R2',), cat.V(2)]),
    cat.E('base.Ab2M', [('R3',), cat.V(3)]), cat.E('base.Ab2M', [('R2',), cat.V(2)]), cat.E('base.trexp2', [cat.V((1, 3))]),
    cat.E('base.getmatrix', [cat.V(6), ('LIT', (2, 3))]), cat.E('base.h2e', [cat.V(4)]), cat.E('base.e2h', [cat.V(3)]),
    cat.E('m:Plucker.intersect_volume', [('BOUNDS',)], recv=('OBJ', 'Plucker')),
    # graphics (Agg backend, figures closed around each call): options given as lists
    cat.E('base.trplot', [('T3',)], {'dims': ('PLIST', 2)}, tags={'plot'}), cat.E('base.trplot', [('T3',)], {'dims': ('PLIST', 6)}, tags={'plot'}),
    cat.E('base.trplot2', [('T2',)], {'dims': ('PLIST', 2)}, tags={'plot'}), cat.E('base.trplot2', [('T2',)], {'dims': ('PLIST', 4)}, tags={'plot'}),
    cat.E('m:SE3.plot', [], {'dims': ('PLIST', 2)}, recv=('OBJ', 'SE3'), tags={'plot'}), cat.E('m:SO3.plot', [], {'dims': ('PLIST', 2)}, recv=('OBJ', 'SO3'), tags={'plot'}),
    cat.E('m:SE2.plot', [], {'dims': ('PLIST', 2)}, recv=('OBJ', 'SE2'), tags={'plot'}), cat.E('m:SO2.plot', [], {'dims': ('PLIST', 2)}, recv=('OBJ', 'SO2'), tags={'plot'}),
]
ENTRIES = cat.BASE + cat.CLASSES + EXTRA_BASE


def S():
    import spatialmath
    return spatialmath


def gen_extra(rng, spec):
    k = spec[0]
    if k == 'SK3':
        return ref.skew(gen.vec(rng, 3, 1e-2, 3))
    if k == 'SKA3':
        return ref.skewa(gen.vec(rng, 6, 1e-2, 3))
    if k == 'P3N':
        return gen.vec(rng, 12, 1e-2, 1e2).reshape(3, 4)
    if k == 'P4N':
        P = gen.vec(rng, 16, 1e-2, 1e2).reshape(4, 4)
        return P
    if k == 'BOUNDS':      # axis limits of a plot volume as an array: [x0, x1, y0, y1, z0, z1], each pair in either order
        b_ = np.array([float(rng.integers(3, 9)) * s_ for s_ in (-1, 1, -1, 1, -1, 1)])
        for j_ in range(3):
            if rng.random() < 0.5:
                b_[2 * j_], b_[2 * j_ + 1] = b_[2 * j_ + 1], b_[2 * j_]
        return b_
    if k == 'PLIST':       # plot limits [lo, hi] * (n / 2), as a list the caller keeps and may reuse
        a = float(rng.integers(2, 9))
        return [-a, a] * (spec[1] // 2)
    return cat.gen_value(rng, spec)


def build(rng, e, form, null=False, long=False):
    if long:
        cat.FORCE_LONG = True
        try:
            return build(rng, e, form, null)
        finally:
            cat.FORCE_LONG = False
    """arguments for entry e; vector arguments in `form` ('array' or 'list'); null: every argument at its neutral value (zero
    vector, identity matrix, zero angle: where shortcuts that hand out a ready-made result live)"""
    def val(spec):
        v = gen_extra(rng, spec)
        if null == 'over1' and spec[0] in ('R3', 'T3') and isinstance(v, np.ndarray):
            # a quarter-turn frame (signed permutation: the singular configuration of every angle order) whose +-1 entries exceed 1
            # by two ulp, as products of rotations leave them: still a member by every test of the library
            P = gen.exact_so3(rng)
            P = P * (1 + 2 * np.finfo(float).eps)
            v = np.array(v, dtype=np.float64)
            v[:3, :3] = P
        elif null:
            k = spec[0]
            if k in ('V', 'VSMALL3', 'UNIT3', 'VTINY6', 'AN3') and isinstance(v, np.ndarray):
                v = np.zeros_like(v)
            elif k == 'Q':
                v = np.r_[1.0, 0, 0, 0]
            elif k in ('R3', 'T3', 'R2', 'T2') and isinstance(v, np.ndarray):
                v = np.eye(v.shape[0])
            elif k in ('A', 'S', 'S01', 'SPOS'):
                v = 0.0
            elif k == 'I':
                v = 0
        if spec[0] in ('V', 'VSMALL3', 'Q', 'UNIT3', 'VTINY6') and form == 'list':
            return np.asarray(v).tolist()
        return v
    args = [val(s) for s in e['args']]
    kwargs = {k: val(s) for k, s in e['kwargs'].items()}
    recv = cat.gen_value(rng, e['recv']) if e['recv'] else None
    if 's01' in e['tags']:
        args = [np.sort(rng.random(len(a))) if isinstance(a, (np.ndarray, list)) else a for a in args]
    return args, kwargs, recv


def clone(x):
    """independent copy of an argument tree (so the two evaluations get equal but separate inputs)"""
    if isinstance(x, np.ndarray):
        return np.array(x, copy=True)
    if isinstance(x, list):
        return [clone(v) for v in x]
    if isinstance(x, tuple):
        return tuple(clone(v) for v in x)
    if isinstance(x, dict):
        return {k: clone(v) for k, v in x.items()}
    d = getattr(x, 'data', None)
    if isinstance(d, list) and type(x).__module__.startswith('spatialmath'):
        y = type(x).__new__(type(x))
        y.__dict__.update({k: v for k, v in x.__dict__.items() if k != 'data'})
        y.data = [np.array(v, copy=True) for v in d]
        return y
    if type(x).__module__.startswith('spatialmath') and hasattr(x, '__dict__'):
        y = type(x).__new__(type(x))
        y.__dict__.update({k: clone(v) for k, v in x.__dict__.items()})
        return y
    return x


def has_payload(args, kwargs, recv):
    def p(x):
        return isinstance(x, np.ndarray) or (isinstance(x, (list, tuple)) and len(x) > 0) or hasattr(x, 'data') or hasattr(x, '__dict__') and type(x).__module__.startswith('spatialmath')
    return any(p(a) for a in list(args) + list(kwargs.values()) + [recv])


def diff_where(before, after, path='arg'):
    """first difference between two snapshots"""
    if before == after:
        return None
    if type(before) is tuple and type(after) is tuple and len(before) == len(after):
        for i, (b, a) in enumerate(zip(before, after)):
            d = diff_where(b, a, path + '.%d' % i)
            if d:
                return d
    return path


# ----------------------------------------------------------------------------- (i) catalogue sweep
def scribble(x, depth=0):
    """write into every writable numeric array of a result (what a caller may do with a value it owns); returns the count"""
    n = 0
    if isinstance(x, np.ndarray):
        if x.flags.writeable and x.dtype.kind in 'fiu' and x.size:
            x[...] = 7.25 if x.dtype.kind == 'f' else 7
            n += 1
    elif isinstance(x, (list, tuple)) and depth < 3:
        for v in x:
            n += scribble(v, depth + 1)
    elif isinstance(getattr(x, 'data', None), list) and depth < 3:
        for v in x.data:
            n += scribble(v, depth + 1)
    return n


def run_call(ctx, p):
    e = ENTRIES[p['entry']]
    args, kwargs, form = p['args'], p['kwargs'], p['form']
    recv = None
    if p.get('recv') is not None:
        c, arrs = p['recv']
        recv = cat.make_obj(np.random.default_rng(0), c, 1)
        C = getattr(S(), c)
        recv = (C([np.asarray(a, float) for a in arrs]) if len(arrs) > 1 else C(np.asarray(arrs[0], float))) if c != 'Plucker' else C(np.asarray(arrs[0], float)[:3], np.asarray(arrs[0], float)[3:])
    f = cat.resolve(e['target'])
    sig = dict(api=e['name'], form=form)
    a2, k2, r2 = clone(args), clone(kwargs), clone(recv)
    before = snapshot((args, kwargs, recv))

    def do(a, k, r):
        if '_seed' in k:
            k = dict(k)
            np.random.seed(k.pop('_seed'))
        if 'plot' in e['tags']:
            import matplotlib.pyplot as plt
            plt.close('all')
        try:
            return ('ok', f(r, *a, **k) if e['target'].startswith('m:') else f(*a, **k))
        except Exception as ex:
            return ('exc', ex)
        finally:
            if 'plot' in e['tags']:
                plt.close('all')
    o1 = do(args, kwargs, recv)
    after = snapshot((args, kwargs, recv))
    w = diff_where(before, after)
    ctx.judge('args_unchanged', w is None, dict(sig, kind='argument_modified', raised=o1[0] == 'exc'),
              lambda: '%s(%s, %s) on %s modified its input at %s (call %s)' % (e['name'], core.short(core.J(args), 300), kwargs, type(recv).__name__, w, 'raised %r' % o1[1] if o1[0] == 'exc' else 'returned'))
    # what the first call returned belongs to the caller: a later call (with other values) must not reach back into it
    if o1[0] == 'ok' and p.get('alt_args') is not None:
        try:
            snap1 = snapshot(o1[1])
        except Exception:
            snap1 = None
        if snap1 is not None:
            do(clone(p['alt_args']), clone(p['alt_kwargs']), clone(recv))
            ctx.judge('deterministic', snapshot(o1[1]) == snap1, dict(sig, kind='earlier_result_changed_by_later_call'),
                      lambda: '%s: the value returned by one call changed when the function was called again with other arguments' % e['name'])
    o2 = do(a2, k2, r2)
    if 'plot' in e['tags']:
        pass        # the value returned is a handle of the graphics library (a new Axes each time): not a value to compare
    elif o1[0] == 'ok' and o2[0] == 'ok':
        ctx.judge('deterministic', same(o1[1], o2[1]), dict(sig, kind='second_evaluation_differs'),
                  lambda: '%s: two evaluations on equal inputs give %s and %s' % (e['name'], core.short(o1[1].data if isinstance(getattr(o1[1], 'data', None), list) else o1[1], 200),
                                                                                 core.short(o2[1].data if isinstance(getattr(o2[1], 'data', None), list) else o2[1], 200)))
    elif o1[0] != o2[0]:
        ctx.bad('deterministic', dict(sig, kind='second_evaluation_differs'), '%s: first evaluation %s, second %s' % (e['name'], core.short(o1[1], 100), core.short(o2[1], 100)))
    if o1[0] == 'ok' and o2[0] == 'ok' and 'plot' not in e['tags'] and 'random' not in e['tags'] and '_seed' not in kwargs:
        # a result belongs to the caller, who may write into it: a third evaluation on equal inputs is not affected by that
        # (a function that hands out one module-level array -- "the identity, built once" -- would be)
        try:
            a3, k3, r3 = clone(a2), clone(k2), clone(r2)
            keep = clone(o2[1])
            if scribble(o1[1]):
                o3 = do(a3, k3, r3)
                ctx.judge('deterministic', o3[0] == 'ok' and same(o3[1], keep), dict(sig, kind='result_shared_between_calls'),
                          lambda: '%s: after the caller wrote into the first result, the same call returns %s (before: %s)' % (e['name'], core.short(o3[1], 200), core.short(keep, 200)))
        except Exception:
            pass
    ctx.cell('call', e['name'], form)
    if has_payload(args, kwargs, recv):
        ctx.nontrivial('call', e['name'], form)


# ----------------------------------------------------------------------------- (ii) reflection over class members
DUNDERS = ['__mul__', '__rmul__', '__truediv__', '__add__', '__radd__', '__sub__', '__rsub__', '__pow__', '__matmul__', '__eq__', '__ne__',
           '__neg__', '__xor__', '__or__', '__getitem__', '__len__', '__str__', '__repr__', '__iter__', '__imul__', '__itruediv__',
           '__iadd__', '__isub__', '__ipow__']


def make_recv(rng, c, m):
    sm = S()
    if c == 'Plane':
        return sm.Plane(gen.vec(rng, 4, 1e-1, 1e1))
    if c == 'SpatialInertia':
        A = rng.normal(size=(3, 3))
        return sm.SpatialInertia(m=float(rng.uniform(0.5, 5)), r=gen.vec(rng, 3, 1e-1, 1e1), I=A @ A.T + np.eye(3))
    if c == 'DualQuaternion':
        return sm.DualQuaternion(sm.Quaternion(gen.vec(rng, 4, 1e-1, 1e1)), sm.Quaternion(gen.vec(rng, 4, 1e-1, 1e1)))
    if c == 'UnitDualQuaternion':
        return sm.UnitDualQuaternion(sm.SE3(gen.se3(rng, hi=1e2)))
    if c == 'Plucker':
        objs = [sm.Plucker.PQ(gen.vec(rng, 3, 1e-1, 1e1), gen.vec(rng, 3, 1e-1, 1e1)) for _ in range(m)]
        x = objs[0]
        for o in objs[1:]:
            x.append(o)
        return x
    if c.startswith('Spatial'):
        C = getattr(sm, c)
        return C(gen.vec(rng, 6, 1e-1, 1e1)) if m == 1 else C(gen.vec(rng, 6 * m, 1e-1, 1e1).reshape(6, m))
    return cat.make_obj(rng, c, m)


def operand_for(rng, c, name):
    """right operand(s) to try for a binary dunder / method of class c"""
    sm = S()
    outs = []
    if name in ('__pow__', '__ipow__'):
        return [2, -1, 0]
    if name == '__getitem__':
        return [0, -1, slice(0, 1)]
    outs.append(make_recv(rng, c, 1))
    outs.append(2.5)
    if hasattr(getattr(sm, c), 'Empty'):
        outs.append(getattr(sm, c).Empty())        # an operand holding no value (what an accumulator starts as)
    if c in ('SO3', 'SE3', 'UnitQuaternion'):
        outs += [gen.vec(rng, 3, 1e-1, 1e1), gen.vec(rng, 9, 1e-1, 1e1).reshape(3, 3)]
    if c in ('SO2', 'SE2'):
        outs += [gen.vec(rng, 2, 1e-1, 1e1), gen.vec(rng, 6, 1e-1, 1e1).reshape(2, 3)]
    if c == 'SE3':
        outs += [sm.Plucker.PQ([1, 2, 3], [3, -1, 2]), sm.SpatialVelocity(gen.vec(rng, 6, 1e-1, 1e1)), sm.SpatialForce(gen.vec(rng, 6, 1e-1, 1e1))]
    if c in ('Twist3',):
        outs += [sm.SE3(gen.se3(rng, hi=1e2))]
    if c in ('Twist2',):
        outs += [sm.SE2(gen.se2(rng, hi=1e2))]
    if c == 'SpatialInertia':
        outs += [sm.SpatialAcceleration(gen.vec(rng, 6, 1e-1, 1e1)), sm.SpatialVelocity(gen.vec(rng, 6, 1e-1, 1e1))]
    if c == 'SpatialVelocity':
        outs += [sm.SpatialForce(gen.vec(rng, 6, 1e-1, 1e1)), sm.SpatialVelocity(gen.vec(rng, 6, 1e-1, 1e1))]
    if c == 'Quaternion':
        outs += [sm.UnitQuaternion(gen.unit_quat(rng))]
    if c == 'UnitQuaternion':
        outs += [sm.Quaternion(gen.vec(rng, 4, 1e-1, 1e1))]
    if c in ('DualQuaternion', 'UnitDualQuaternion'):
        outs += [gen.vec(rng, 3, 1e-1, 1e1)]
    return outs


def parallel_lines(rng, x):
    """lines parallel to the first line of x, of the same and of the opposite sense (and the line itself reversed)"""
    sm = S()
    try:
        w = np.asarray(x.data[0][3:6], dtype=np.float64)
        return [(sm.Plucker.PointDir(gen.vec(rng, 3, 1e-1, 1e1), w * 1.5),), (sm.Plucker.PointDir(gen.vec(rng, 3, 1e-1, 1e1), -w),),
                (sm.Plucker.PointDir(gen.vec(rng, 3, 1e-1, 1e1), -2.0 * w),)]
    except Exception:
        return []


METHOD_ARGS = {   # methods that need arguments: name -> list of argument tuples builders
    'interp': lambda rng, c, x: [(0.3,)] + ([(0.4, make_recv(rng, c, 1))] if c == 'UnitQuaternion' else []),
    'delta': lambda rng, c, x: [(make_recv(rng, c, 1),)],
    'inner': lambda rng, c, x: [(make_recv(rng, c, 1),)],
    'angle': lambda rng, c, x: [(make_recv(rng, c, 1),)],
    'dot': lambda rng, c, x: [(gen.vec(rng, 3 if c == 'UnitQuaternion' else 6, 1e-1, 1e1),)],
    'dotb': lambda rng, c, x: [(gen.vec(rng, 3, 1e-1, 1e1),)],
    'exp': lambda rng, c, x: [(), (0.5,), ([0.1, 0.2],)] if c.startswith('Twist') else [()],
    'cross': lambda rng, c, x: [(make_recv(rng, 'SpatialVelocity', 1),), (make_recv(rng, 'SpatialForce', 1),)],
    'closest': lambda rng, c, x: [(gen.vec(rng, 3, 1e-1, 1e1),)], 'contains': lambda rng, c, x: [(gen.vec(rng, 3, 1e-1, 1e1),), (gen.vec(rng, 12, 1e-1, 1e1).reshape(3, 4),), (np.asfortranarray(gen.vec(rng, 15, 1e-1, 1e1).reshape(3, 5)),)],
    'point': lambda rng, c, x: [(0.5,), ([0.1, 0.2, 0.3],)],
    'isparallel': lambda rng, c, x: [(make_recv(rng, c, 1),)] + parallel_lines(rng, x), 'distance': lambda rng, c, x: [(make_recv(rng, c, 1),)] + parallel_lines(rng, x),
    'commonperp': lambda rng, c, x: [(make_recv(rng, c, 1),)], 'intersects': lambda rng, c, x: [(make_recv(rng, c, 1),)],
    'intersect_plane': lambda rng, c, x: [(gen.vec(rng, 4, 1e-1, 1e1),), (S().Plane(gen.vec(rng, 4, 1e-1, 1e1)),)],
    'SE3': lambda rng, c, x: [()] if c != 'SE2' else [(), (1.5,)],
}


def members(c):
    """public members + operator dunders defined by the library (not plain UserList) for class c"""
    C = getattr(S(), c)
    out = []
    for n in dir(C):
        if n in SKIP or (n.startswith('_') and n not in DUNDERS) or n in MUTATORS and n not in ('__imul__', '__iadd__'):
            continue
        owner = next((K for K in C.__mro__ if n in K.__dict__), None)
        if owner is None or not owner.__module__.startswith('spatialmath'):
            continue
        raw = owner.__dict__[n]
        if isinstance(raw, (classmethod, staticmethod)):
            continue           # constructors are covered by the catalogue
        out.append((n, 'property' if isinstance(raw, property) else 'method'))
    return out


_DEFAULT_PRINT = None


def _restore_state(ps0):
    if _DEFAULT_PRINT is not None:
        np.set_printoptions(**_DEFAULT_PRINT)


def process_state():
    """process-wide settings a library call has no business changing: they alter what later, unrelated calls return"""
    import warnings
    po = np.get_printoptions()
    return (tuple(sorted((k, repr(v)) for k, v in po.items())), tuple(sorted(np.geterr().items())), len(warnings.filters), sys.getrecursionlimit())


def run_member(ctx, p):
    c, name, kind, m = p['cls'], p['name'], p['kind'], p['m']
    rng = np.random.default_rng(p['seed'])
    try:
        x = make_recv(rng, c, m)
    except Exception as e:
        ctx.ood('args_unchanged')
        return
    sig = dict(api='%s.%s' % (c, name), m='1' if m == 1 else 'M' if m <= 3 else 'L')
    calls = []
    if kind == 'property':
        calls.append(((), lambda: getattr(x, name)))
    elif name.startswith('__') and name in DUNDERS:
        f = getattr(type(x), name)
        if name in ('__len__', '__str__', '__repr__', '__neg__', '__iter__'):
            calls.append(((), (lambda: list(f(x))) if name == '__iter__' else (lambda: f(x))))
        else:
            for o in operand_for(rng, c, name):
                calls.append(((o,), lambda o=o: f(x, o)))
    else:
        f = getattr(x, name)
        argsets = METHOD_ARGS[name](rng, c, x) if name in METHOD_ARGS else None
        if argsets is None:
            try:
                sg = inspect.signature(f)
                need = [q for q in sg.parameters.values() if q.default is inspect._empty and q.kind in (q.POSITIONAL_ONLY, q.POSITIONAL_OR_KEYWORD)]
            except (TypeError, ValueError):
                need = []
            if need:
                ctx.cell('member_not_driven', c, name)
                ctx.ood('args_unchanged')
                return
            argsets = [()]
        for a in argsets:
            calls.append((a, lambda a=a: f(*a)))
    x_twin = clone(x)          # equal but separate receiver for the second evaluation
    po0 = dict(np.get_printoptions())
    if p['seed'] % 2:
        # the user's own (non-default) NumPy print settings: a call that sets and "restores" them to the defaults shows here only
        np.set_printoptions(linewidth=163, precision=11)
    try:
        _run_member_calls(ctx, p, c, name, kind, m, x, x_twin, calls, sig)
    finally:
        np.set_printoptions(**po0)


def _run_member_calls(ctx, p, c, name, kind, m, x, x_twin, calls, sig):
    for a, thunk in calls:
        before = snapshot((x, a))
        ps0 = process_state()
        try:
            out1 = thunk()
            raised = None
        except Exception as e:
            out1, raised = None, e
        after = snapshot((x, a))
        ps1 = process_state()
        ctx.judge('deterministic', ps1 == ps0, dict(sig, kind='process_state_changed'),
                  lambda: '%s.%s changed process-wide state (NumPy print options / error state / warning filters): %s -> %s' % (
                      c, name, [u for u in ps0 if u not in ps1], [u for u in ps1 if u not in ps0]))
        if ps1 != ps0:
            _restore_state(ps0)
            if p['seed'] % 2:
                np.set_printoptions(linewidth=163, precision=11)
        if raised is None and name not in ('__iter__',):
            # same call on equal inputs must give an equal output
            try:
                a2 = clone(a)
                if kind == 'property':
                    out2 = getattr(x_twin, name)
                elif name.startswith('__') and name in DUNDERS:
                    g = getattr(type(x_twin), name)
                    out2 = g(x_twin, *a2)
                else:
                    out2 = getattr(x_twin, name)(*a2)
                ctx.judge('deterministic', same(out1, out2), dict(sig, kind='second_evaluation_differs'),
                          lambda: '%s.%s: two evaluations on equal inputs give %s and %s' % (
                              c, name, core.short(out1.data if isinstance(getattr(out1, 'data', None), list) else out1, 200),
                              core.short(out2.data if isinstance(getattr(out2, 'data', None), list) else out2, 200)))
            except Exception as e2:
                ctx.bad('deterministic', dict(sig, kind='second_evaluation_raised', exc=type(e2).__name__), '%s.%s second evaluation raised %r' % (c, name, e2))
        if raised is None and name not in ('__iter__',) and isinstance(getattr(x, 'data', None), list) and len(x.data) >= 1 and hasattr(x, 'clear') \
                and not (name.startswith('__i') and name in DUNDERS):
            # equal inputs reached by another history: an object that held OTHER values when the member was first evaluated on it and
            # was then given x's values through the documented list interface answers as x does (nothing remembered from before)
            try:
                y = make_recv(np.random.default_rng(p['seed'] + 1), c, m)
                call_y = (lambda: getattr(y, name)) if kind == 'property' else \
                    (lambda: getattr(type(y), name)(y, *clone(a))) if (name.startswith('__') and name in DUNDERS) else (lambda: getattr(y, name)(*clone(a)))
                try:
                    call_y()
                except Exception:
                    pass
                route = p['seed'] % 4
                src = clone(x_twin)
                if route == 3:
                    # the values written into the object's own arrays through .A (what `X.A[:3, 3] = p` does): the arrays are the same
                    # objects as before, what they hold is not
                    ya = y.A if hasattr(y, 'A') else None
                    ya = ya if isinstance(ya, list) else [ya]
                    if len(ya) == len(src.data) and all(isinstance(a_, np.ndarray) and a_.flags.writeable and a_.shape == b_.shape and a_ is d_
                                                         for a_, b_, d_ in zip(ya, src.data, y.data)):
                        for a_, b_ in zip(ya, src.data):
                            a_[...] = b_
                    else:
                        route = 1
                if route == 3:
                    pass
                elif route == 0 and len(y.data) == len(src.data):
                    for i_ in range(len(src.data)):
                        y[i_] = src[i_]
                elif route == 1:
                    y.clear()
                    y.extend(src)
                else:
                    n0 = len(y.data)
                    y.extend(src)
                    for _ in range(n0):
                        y.pop(0)
                    y.reverse()
                    y.reverse()
                out3 = call_y()
                ctx.judge('deterministic', same(out1, out3), dict(sig, kind='answer_depends_on_history', route=['setitem', 'clear+extend', 'extend+pop', 'written through .A'][route]),
                          lambda: '%s.%s: an object given the same values through %s answers %s, a fresh one %s' % (
                              c, name, ['item assignment', 'clear() and extend()', 'extend() and pop(0)', 'writing into its arrays (.A)'][route],
                              core.short(out3.data if isinstance(getattr(out3, 'data', None), list) else out3, 200),
                              core.short(out1.data if isinstance(getattr(out1, 'data', None), list) else out1, 200)))
            except Exception as e3:
                ctx.cell('history_twin_not_built', c, name, type(e3).__name__)
        w = diff_where(before, after)
        opd = type(a[0]).__name__ if a else '-'
        ctx.judge('args_unchanged', w is None, dict(sig, kind='receiver_or_operand_modified', operand=opd, where=(w or '').split('.')[1] if w else None),
                  lambda: '%s.%s(%s) on a %d-valued receiver modified %s (%s)' % (c, name, core.short(a, 200), m, w, 'raised %r' % raised if raised else 'returned'))
        # a result that is a NEW list-like object belongs to the caller: a documented list mutation of it acts "on its receiver"
        # only, so the receiver and operands of the call that produced it must still be unchanged afterwards
        # (a call that hands back the receiver or an operand itself is a different matter and is not judged here)
        if w is None and raised is None and isinstance(getattr(out1, 'data', None), list) and hasattr(out1, 'clear') \
                and out1 is not x and not any(out1 is o for o in a):
            n1 = len(out1.data)
            try:
                out1.reverse()
                out1.clear()
                w2 = diff_where(before, snapshot((x, a)))
            except Exception as e3:
                w2 = 'list mutation of the result raised %r' % e3
            ctx.judge('args_unchanged', w2 is None, dict(sig, kind='operand_modified_through_result', operand=opd),
                      lambda: '%s.%s(%s) returned a new %s of %d value(s); reverse() / clear() on that result modified %s' % (
                          c, name, core.short(a, 200), type(out1).__name__, n1, w2))
            ctx.cell('result_isolated', c, name, min(n1, 2))
    ctx.cell('member', c, name, m)
    ctx.nontrivial('member', c, name, m)


# ----------------------------------------------------------------------------- (iii) history pool
def pool_ops():
    """(name, input kinds, fn) -- results are classified and join the pool"""
    import spatialmath.base as b
    sm = S()
    return [
        ('t2r', ['T3'], b.t2r), ('tr2rt', ['T3'], b.tr2rt), ('transl(T)', ['T3'], b.transl), ('r2t', ['R3'], b.r2t),
        ('rt2tr', ['R3', 'v3'], b.rt2tr), ('trinv', ['T3'], b.trinv), ('trnorm', ['T3'], b.trnorm), ('trnormR', ['R3'], b.trnorm),
        ('trlog', ['T3'], lambda T: b.trlog(T, check=False)), ('trexp6', ['v6'], lambda v: b.trexp(v * 0.01)), ('trexp3', ['v3'], lambda v: b.trexp(v * 0.1)),
        ('r2q', ['R3'], lambda R: b.r2q(R)), ('q2r', ['q'], lambda q: b.q2r(b.unit(q))), ('unit', ['q'], b.unit), ('qqmul', ['q', 'q'], b.qqmul),
        ('conj', ['q'], b.conj), ('qvmul', ['q', 'v3'], lambda q, v: b.qvmul(b.unit(q), v)), ('skew', ['v3'], b.skew), ('skewa', ['v6'], b.skewa),
        ('unitvec', ['v3'], b.unitvec), ('cross', ['v3', 'v3'], b.cross), ('homtrans', ['T3', 'v3'], lambda T, v: b.homtrans(T, v.reshape(3, 1))),
        ('tr2rpy', ['R3'], b.tr2rpy), ('tr2eul', ['T3'], b.tr2eul), ('tr2angvec', ['R3'], lambda R: b.tr2angvec(R)[1]), ('adjoint', ['T3'], b.adjoint),
        ('tr2delta', ['T3', 'T3'], b.tr2delta), ('trinterp', ['T3', 'T3'], lambda A, B: b.trinterp(A, B, 0.3)), ('angvec2r', ['v3'], lambda v: b.angvec2r(0.3, v)),
        ('oa2r', ['v3', 'v3'], b.oa2r), ('getvector', ['v3'], b.getvector), ('colvec', ['v3'], b.colvec), ('transl(v)', ['v3'], b.transl),
        ('matmul', ['T3', 'T3'], lambda A, B: A @ B),
        ('SE3(T)', ['T3'], lambda T: sm.SE3(T, check=False)), ('SO3(R)', ['R3'], lambda R: sm.SO3(R, check=False)), ('SE3.A', ['SE3'], lambda X: X.A),
        ('SE3.R', ['SE3'], lambda X: X.R), ('SE3.t', ['SE3'], lambda X: X.t), ('SE3.inv', ['SE3'], lambda X: X.inv()), ('SE3*SE3', ['SE3', 'SE3'], operator.mul),
        ('SE3/SE3', ['SE3', 'SE3'], operator.truediv), ('SE3*v', ['SE3', 'v3'], operator.mul), ('SE3+SE3', ['SE3', 'SE3'], operator.add),
        ('SE3**2', ['SE3'], lambda X: X ** 2), ('SE3.log', ['SE3'], lambda X: X.log(twist=True)), ('SE3.Twist3', ['SE3'], lambda X: X.Twist3()),
        ('SE3.interp', ['SE3'], lambda X: X.interp(0.4)), ('SE3.norm', ['SE3'], lambda X: X.norm()), ('SE3.Ad', ['SE3'], lambda X: X.Ad()),
        ('SE3()', [], lambda: sm.SE3()), ('SO3()', [], lambda: sm.SO3()), ('SE3.Alloc', [], lambda: sm.SE3.Alloc(2)),
        ('SE3.prod', ['SE3'], lambda X: X.prod()), ('SO3.prod', ['SO3'], lambda X: X.prod()), ('UQ()', [], lambda: sm.UnitQuaternion()),
        ('SE3[0]', ['SE3'], lambda X: X[0]), ('SE3(SE3)', ['SE3'], lambda X: sm.SE3(X)), ('SE3([X,Y])', ['SE3', 'SE3'], lambda X, Y: sm.SE3([sm.SE3(X.data[0], check=False), sm.SE3(Y.data[0], check=False)])),
        ('SE3 *= SE3', ['SE3', 'SE3'], lambda X, Y: operator.imul(X, Y)), ('SE3.rpy', ['SE3'], lambda X: X.rpy()),
        ('SO3.R', ['SO3'], lambda X: X.R), ('SO3.inv', ['SO3'], lambda X: X.inv()), ('SO3*SO3', ['SO3', 'SO3'], operator.mul), ('SO3*v', ['SO3', 'v3'], operator.mul),
        ('UQ(SO3)', ['SO3'], lambda X: sm.UnitQuaternion(X)), ('UQ.R', ['UQ'], lambda q: q.R), ('UQ*UQ', ['UQ', 'UQ'], operator.mul), ('UQ.inv', ['UQ'], lambda q: q.inv()),
        ('UQ*v', ['UQ', 'v3'], operator.mul), ('UQ.vec', ['UQ'], lambda q: q.vec), ('UQ.SO3', ['UQ'], lambda q: q.SO3()), ('UQ.interp', ['UQ', 'UQ'], lambda a, c: a.interp(0.3, dest=c, shortest=True)),
        ('Twist3(v6)', ['v6'], lambda v: sm.Twist3(v * 0.05)), ('Twist3.S', ['Twist3'], lambda t: t.S), ('Twist3.exp', ['Twist3'], lambda t: t.exp(0.5)),
        ('Twist3.SE3', ['Twist3'], lambda t: t.SE3()), ('Twist3*Twist3', ['Twist3', 'Twist3'], operator.mul), ('Twist3.inv', ['Twist3'], lambda t: t.inv()),
        ('Twist3.unit', ['Twist3'], lambda t: t.unit), ('Twist3.ad', ['Twist3'], lambda t: t.ad()), ('Twist3*SE3', ['Twist3', 'SE3'], operator.mul),
        ('Plucker.PQ', ['v3', 'v3'], lambda p, q: sm.Plucker.PQ(p, q)), ('Plucker.vec', ['Plucker'], lambda L: L.vec), ('SE3*Plucker', ['SE3', 'Plucker'], operator.mul),
        ('Plucker.pp', ['Plucker'], lambda L: L.pp), ('Plucker.closest', ['Plucker', 'v3'], lambda L, v: L.closest(v).p),
        ('SVel(v6)', ['v6'], lambda v: sm.SpatialVelocity(v)), ('SFor(v6)', ['v6'], lambda v: sm.SpatialForce(v)), ('SVel(SVel)', ['SVel'], lambda a: sm.SpatialVelocity(a)),
        ('SVel.copy', ['SVel'], lambda a: a.copy()), ('SAcc(SVel)', ['SVel'], lambda a: sm.SpatialAcceleration(a)), ('SVel+SVel', ['SVel', 'SVel'], lambda a, c: a + c if len(a) == len(c) else None),
        ('SE3*SVel', ['SE3', 'SVel'], lambda X, a: X * a if len(X) == 1 else None), ('SVel.cross(SFor)', ['SVel', 'SFor'], lambda a, f: a.cross(f) if len(a) in (1, len(f)) or len(f) == 1 else None),
        ('SE3(SE3).copy', ['SE3'], lambda X: X.copy()), ('UQ(UQ)', ['UQ'], lambda q: sm.UnitQuaternion(q)), ('Twist3(Twist3)', ['Twist3'], lambda t: sm.Twist3(t)),
        ('Plucker(Plucker)', ['Plucker'], lambda L: sm.Plucker(L)),
        ('!SVappend', ['SVel', 'SVel'], lambda X, Y: X.append(sm.SpatialVelocity(Y.data[0]))), ('!SVreverse', ['SVel'], lambda X: X.reverse()),
        ('!SVpop', ['SVel'], lambda X: X.pop() if len(X) > 1 else None), ('!Tw3append', ['Twist3', 'Twist3'], lambda X, Y: X.append(sm.Twist3(Y.data[0]))),
        ('!Plappend', ['Plucker', 'Plucker'], lambda X, Y: X.append(sm.Plucker(Y.data[0])) if len(Y) >= 1 else None),
        # documented mutators: only the receiver (first operand) may change
        ('!append', ['SE3', 'SE3'], lambda X, Y: X.append(sm.SE3(Y.data[0], check=False))), ('!extend', ['SE3', 'SE3'], lambda X, Y: X.extend(Y)),
        ('!insert', ['SE3', 'SE3'], lambda X, Y: X.insert(0, sm.SE3(Y.data[0], check=False))), ('!pop', ['SE3'], lambda X: X.pop() if len(X) > 1 else None),
        ('!setitem', ['SE3', 'SE3'], lambda X, Y: X.__setitem__(0, sm.SE3(Y.data[0], check=False))), ('!reverse', ['SE3'], lambda X: X.reverse()),
        ('!UQappend', ['UQ', 'UQ'], lambda X, Y: X.append(sm.UnitQuaternion(Y.data[0]))),
    ]


def classify(v):
    if isinstance(v, np.ndarray) and v.dtype != object:
        if v.shape == (4, 4):
            return 'T3'
        if v.shape == (3, 3):
            return 'R3'
        if v.shape == (3,):
            return 'v3'
        if v.shape == (6,):
            return 'v6'
        if v.shape == (4,):
            return 'q'
        return None
    n = type(v).__name__
    if n in ('SE3', 'SO3', 'Twist3', 'Plucker'):
        return n
    if n in ('SpatialVelocity', 'SpatialForce'):
        return {'SpatialVelocity': 'SVel', 'SpatialForce': 'SFor'}[n]
    if n == 'UnitQuaternion':
        return 'UQ'
    return None


def run_history(ctx, p):
    sm = S()
    rng = np.random.default_rng(p['seed'])
    steps = p['steps']
    ops = pool_ops()
    pool = {k: [] for k in ['T3', 'R3', 'v3', 'v6', 'q', 'SE3', 'SO3', 'UQ', 'Twist3', 'Plucker', 'SVel', 'SFor']}

    def seedpool():
        for _ in range(3):
            pool['T3'].append(gen.se3(rng, hi=1e2))
            pool['R3'].append(gen.so3(rng))
            pool['v3'].append(gen.vec(rng, 3, 1e-1, 1e1))
            pool['v6'].append(gen.vec(rng, 6, 1e-1, 1e1))
            pool['q'].append(gen.unit_quat(rng))
            pool['SE3'].append(sm.SE3(gen.se3(rng, hi=1e2)))
            pool['SO3'].append(sm.SO3(gen.so3(rng)))
            pool['UQ'].append(sm.UnitQuaternion(gen.unit_quat(rng)))
            pool['Twist3'].append(sm.Twist3(gen.vec(rng, 6, 1e-2, 1)))
            pool['Plucker'].append(sm.Plucker.PQ(gen.vec(rng, 3, 1e-1, 1e1), gen.vec(rng, 3, 1e-1, 1e1)))
            pool['SVel'].append(sm.SpatialVelocity(gen.vec(rng, 6, 1e-1, 1e1)))
            pool['SFor'].append(sm.SpatialForce(gen.vec(rng, 6, 1e-1, 1e1)))
        pool['SE3'].append(sm.SE3([gen.se3(rng, hi=1e2) for _ in range(3)]))
    seedpool()
    members_ = lambda: [(k, i, v) for k, L in pool.items() for i, v in enumerate(L)]
    snaps = {(k, i): snapshot(v) for k, i, v in members_()}
    done = []
    for step in range(steps):
        name, kinds, fn = ops[rng.integers(len(ops))]
        idx = [(k, int(rng.integers(len(pool[k])))) for k in kinds]
        argv = [pool[k][i] for k, i in idx]
        try:
            res = fn(*argv)
        except Exception:
            res = None
        done.append(name)
        allowed = {idx[0]} if name.startswith('!') and idx else set()
        for (k, i, v) in members_():
            s2 = snapshot(v)
            if s2 != snaps[(k, i)]:
                if (k, i) in allowed:
                    snaps[(k, i)] = s2
                    continue
                was_arg = (k, i) in idx
                ctx.bad('pool_intact', dict(api=name, kind='argument_modified' if was_arg else 'unrelated_live_value_modified', victim=k),
                        'history seed %d step %d: after %s on %s the pool member %s[%d] changed (%s); last calls %s' % (
                            p['seed'], step, name, idx, k, i, 'argument' if was_arg else 'not an argument of this call', done[-6:]))
                snaps[(k, i)] = s2
            else:
                ctx.ok('pool_intact')
        # results join the pool (views included)
        outs = res if isinstance(res, (list, tuple)) and not hasattr(res, '_fields') else [res]
        for r in outs:
            k = classify(r)
            if k is not None and len(pool[k]) < 12:
                pool[k].append(r)
                snaps[(k, len(pool[k]) - 1)] = snapshot(r)
    ctx.cell('history', steps)
    ctx.nontrivial('history', p['seed'])


def run_threads(ctx, p):
    """the same calls from four threads at once (interpreter switch interval 1e-6 s): every result equals the one obtained
    alone -- a function that keeps an intermediate value in module-level storage gives itself away here.  (Pure functions of
    their arguments have no schedule to depend on; this is the "for every schedule" part of the same-inputs-same-outputs clause.)"""
    import threading
    rng = np.random.default_rng(p['seed'])
    cases = []
    for ei in p['entries']:
        e = ENTRIES[ei]
        if 'plot' in e['tags'] or 'random' in e['tags'] or e['kwargs'].get('_seed') is not None:
            continue
        try:
            args, kwargs, recv = build(rng, e, 'array')
        except Exception:
            continue
        if '_seed' in kwargs:
            continue
        f = cat.resolve(e['target'])

        def call(f=f, e=e, args=args, kwargs=kwargs, recv=recv):
            a, k, r = clone(args), clone(kwargs), clone(recv)
            return f(r, *a, **k) if e['target'].startswith('m:') else f(*a, **k)
        try:
            refv = call()
        except Exception:
            continue
        cases.append((e['name'], call, refv))
    if len(cases) < 4:
        ctx.ood('deterministic')
        return
    bad = []
    old = sys.getswitchinterval()
    sys.setswitchinterval(1e-6)
    # what the schedule actually did: calls made, and calls that began while a call of another thread was under way
    lock = threading.Lock()
    seen = dict(calls=0, overlapped=0, active=0)

    gate = threading.Barrier(4)

    def worker(k):
        order = np.random.default_rng(p['seed'] + k).permutation(len(cases))
        try:
            gate.wait(timeout=30)
        except Exception:
            pass
        for _ in range(p['rounds']):
            for j in order:
                name, call, refv = cases[j]
                with lock:
                    seen['calls'] += 1
                    seen['overlapped'] += seen['active'] > 0
                    seen['active'] += 1
                try:
                    try:
                        out = call()
                    finally:
                        with lock:
                            seen['active'] -= 1
                    if not same(out, refv):
                        bad.append((name, core.short(out, 120), core.short(refv, 120)))
                except Exception as ex:
                    bad.append((name, repr(ex), core.short(refv, 120)))
                if len(bad) > 5:
                    return
    try:
        ths = [threading.Thread(target=worker, args=(k,)) for k in range(4)]
        for t in ths:
            t.start()
        for t in ths:
            t.join()
    finally:
        sys.setswitchinterval(old)
    names = sorted(set(b[0] for b in bad))
    ctx.judge('deterministic', not bad, dict(api=names[0] if names else 'threads', kind='result_depends_on_concurrent_calls'),
              lambda: 'run from 4 threads, %s returned %s; alone it returns %s (%d mismatches in %s)' % (bad[0][0], bad[0][1], bad[0][2], len(bad), names))
    ctx.extra['thread_calls'] = ctx.extra.get('thread_calls', 0) + seen['calls']
    ctx.extra['thread_calls_overlapping_another_threads_call'] = ctx.extra.get('thread_calls_overlapping_another_threads_call', 0) + seen['overlapped']
    # (how much interleaving took place is reported in the evidence, it is not a verdict: on a loaded machine a block of calls can
    #  run almost sequentially; the barrier below makes the four threads start together)
    ctx.cell('threads', len(cases))
    ctx.nontrivial('threads', p['seed'])


def run_mutator(ctx, p):
    """the documented list-mutation methods act on their receiver only: after acc.extend(a) (append, insert, acc[i] = a, acc += a)
    the argument is unchanged -- and stays unchanged when acc is mutated further (the receiver took the values, not the list)"""
    c, how, m0, m1 = p['cls'], p['how'], p['m0'], p['m1']
    rng = np.random.default_rng(p['seed'])
    sm = S()
    C = getattr(sm, c)
    sig = dict(api='%s.%s' % (c, how), m='%d<-%d' % (m0, m1))
    try:
        acc = C.Empty() if m0 == 0 else make_recv(rng, c, m0)
        a = make_recv(rng, c, m1)
    except Exception:
        ctx.ood('args_unchanged')
        return
    before = snapshot((a,))
    try:
        if how == 'extend':
            acc.extend(a)
        elif how == 'append':
            acc.append(a)
        elif how == 'insert':
            acc.insert(0, a)
        elif how == 'setitem':
            acc[0] = a
        elif how == 'iadd':
            acc += a
        elif how == 'ctor':
            acc = C(a)
        elif how == 'ctorlist':
            acc = C([a])
        raised = None
    except Exception as e:
        raised = e
    w = diff_where(before, snapshot((a,)))
    ctx.judge('args_unchanged', w is None, dict(sig, kind='argument_modified'), lambda: '%s(%s) with a receiver of %d value(s) modified its argument at %s' % (how, c, m0, w))
    if raised is None and w is None and hasattr(acc, 'data') and isinstance(acc.data, list):
        try:
            acc.reverse()
            if len(acc) > 0:
                acc.pop()
            acc.clear()
            w2 = diff_where(before, snapshot((a,)))
        except Exception as e:
            w2 = 'later list mutation of the receiver raised %r' % e
        ctx.judge('args_unchanged', w2 is None, dict(sig, kind='argument_modified_through_receiver'),
                  lambda: 'after x.%s(a) on a receiver of %d value(s), reverse() / pop() / clear() on x modified a (%d values) at %s' % (how, m0, m1, w2))
    ctx.cell('mutator', c, how, m0, m1)
    ctx.nontrivial('mutator', c, how, m0, m1)


RUNNERS = {'call': run_call, 'member': run_member, 'history': run_history, 'mutator': run_mutator, 'threads': run_threads}


def setup(ctx):
    global _DEFAULT_PRINT
    _DEFAULT_PRINT = dict(np.get_printoptions())


# ----------------------------------------------------------------------------- workload
def run(ctx):
    rng = ctx.rng
    reps = 8 if ctx.tier == 'quick' else 320
    i = 0
    for ei, e in enumerate(ENTRIES):
        for form in ('array', 'list'):
            for _ in range(reps if 'plot' not in e['tags'] else max(2, reps // 16)):
                i += 1
                if not ctx.mine(i):
                    continue
                args, kwargs, recv = build(rng, e, form)
                rd = None if recv is None else [type(recv).__name__, [np.array(v) for v in recv.data]]
                alt = build(rng, e, form)
                drive(RUNNERS, ctx, 'call', dict(entry=ei, args=args, kwargs=kwargs, recv=rd, form=form, alt_args=alt[0], alt_kwargs=alt[1]))
                if _ < max(1, reps // 8) and (('V', None) in list(e['args']) + list(e['kwargs'].values()) or (e['recv'] or ('',))[0] == 'OBJM'):
                    # sequences / receivers of 64 values and more (where block-wise or in-place bulk paths start)
                    largs, lkw, lrecv = build(rng, e, form, long=True)
                    lrd = None if lrecv is None else [type(lrecv).__name__, [np.array(v) for v in lrecv.data]]
                    drive(RUNNERS, ctx, 'call', dict(entry=ei, args=largs, kwargs=lkw, recv=lrd, form=form + ':long', alt_args=None, alt_kwargs=None))
                if form == 'array' and recv is None and _ < max(2, reps // 4) and any(s_[0] in ('R3', 'T3') for s_ in list(e['args']) + list(e['kwargs'].values())):
                    oargs, okw, _r = build(rng, e, form, null='over1')
                    drive(RUNNERS, ctx, 'call', dict(entry=ei, args=oargs, kwargs=okw, recv=None, form='over1', alt_args=alt[0], alt_kwargs=alt[1]))
                if form == 'array' and recv is None:
                    nargs, nkw, _ = build(rng, e, form, null=True)
                    drive(RUNNERS, ctx, 'call', dict(entry=ei, args=nargs, kwargs=nkw, recv=None, form='null', alt_args=alt[0], alt_kwargs=alt[1]))
    for blk in range(0, len(ENTRIES), 12):
        i += 1
        if ctx.mine(i):
            drive(RUNNERS, ctx, 'threads', dict(entries=list(range(blk, min(blk + 12, len(ENTRIES)))), seed=int(rng.integers(1 << 30)), rounds=20 if ctx.tier == 'quick' else 200))
    for c in sorted(cat_multi()):
        if not hasattr(getattr(S(), c), 'Empty'):
            continue
        for how in ('extend', 'append', 'insert', 'setitem', 'iadd', 'ctor', 'ctorlist'):
            for m0, m1 in ((0, 1), (0, 3), (1, 1), (1, 3), (3, 1), (3, 3)):
                i += 1
                if ctx.mine(i):
                    drive(RUNNERS, ctx, 'mutator', dict(cls=c, how=how, m0=m0, m1=m1, seed=int(rng.integers(1 << 30))))
    # random constructors: unchanged arguments only (kwargs carry the numpy seed)
    driven, skipped = 0, []
    for c in CLS:
        for name, kind in members(c):
            for m in ((1, 3, 66, 130) if c in cat_multi() else (1,)):
                i += 1
                if not ctx.mine(i):
                    continue
                for _ in range(max(1, reps // 2) if m <= 3 else max(1, reps // 16)):
                    drive(RUNNERS, ctx, 'member', dict(cls=c, name=name, kind=kind, m=m, seed=int(rng.integers(1 << 30))))
                driven += 1
    if ctx.shard == 0:
        ctx.extra['members_enumerated_by_reflection'] = {c: len(members(c)) for c in CLS}
    for _ in range(ctx.scale(60, 2000)):
        p = dict(seed=int(rng.integers(1 << 30)), steps=150)
        drive(RUNNERS, ctx, 'history', p)
        if ctx.ncases % 50 == 1:
            ctx.sample(dict(case='history', **p), limit=4)
    ctx.extra['catalogue_entries'] = len(ENTRIES)


def cat_multi():
    return {'SO2', 'SE2', 'SO3', 'SE3', 'Quaternion', 'UnitQuaternion', 'Twist2', 'Twist3', 'Plucker', 'SpatialVelocity',
            'SpatialAcceleration', 'SpatialForce', 'SpatialMomentum'}
