"""vmon.pytest_plugin -- audit (not a deciding check): run the repository's own tests with the
contract monitors of C01, C03, C05, C06, C07 and C14 attached.  The tests are executions the
maintainers consider correct usage, so a monitor that fires here is either too strict or has
found a defect the tests do not assert.  Usage:  tools/audit.sh"""
import json
import os

from .core import Ctx

CTXS = {}


def pytest_configure(config):
    import importlib
    from .cli import PROPS
    for p in os.environ.get('VMON_AUDIT', 'C01,C03,C05,C06,C07,C14').split(','):
        mod = importlib.import_module('vmon.props.' + PROPS[p])
        ctx = Ctx(p, replay=True)
        mod.setup(ctx)
        CTXS[p] = ctx


def pytest_terminal_summary(terminalreporter, exitstatus, config):
    tr = terminalreporter
    tr.write_sep('=', 'vmon audit: contract monitors during the repository test-suite')
    total = 0
    for p, ctx in CTXS.items():
        ev = {k: (v['evals'], v['out_of_domain'], v['violated']) for k, v in ctx.mon.items()}
        tr.write_line('%s monitors (in-domain evaluations, out-of-domain, violations): %s' % (p, ev))
        for k, v in ctx.viol.items():
            total += 1
            tr.write_line('   AUDIT-VIOLATION %s' % json.dumps(v['sig'], sort_keys=True, default=str))
            tr.write_line('      %s' % v['detail'][:400])
    tr.write_line('vmon audit: %d distinct violation signatures' % total)
