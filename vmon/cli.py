"""vmon.cli -- ./check Cxx [--tier quick|thorough] [--replay file] [--shards n]

exit 0: property held on everything observed (KNOWN-FINDING lines allowed)
exit 1: `VIOLATION property=<id> replay=<path>` printed for every unlisted violation
exit 2: `INCONCLUSIVE property=<id> ...` (a deciding monitor was never reached, a shard
        died or hit the watchdog, harness error) -- never folded into the other two.
"""
import argparse
import importlib
import json
import os
import subprocess
import sys
import time

from . import core
from .core import Ctx, HOME

PROPS = {
    'C01': 'c01_closure', 'C02': 'c02_grouplaws', 'C03': 'c03_explog', 'C04': 'c04_repr',
    'C05': 'c05_angles', 'C06': 'c06_points', 'C07': 'c07_reject', 'C08': 'c08_optypes',
    'C09': 'c09_broadcast', 'C10': 'c10_list', 'C11': 'c11_interp', 'C12': 'c12_quat',
    'C13': 'c13_lie', 'C14': 'c14_norm', 'C15': 'c15_forms', 'C16': 'c16_symbolic',
    'C17': 'c17_immutable', 'C18': 'c18_twist', 'C19': 'c19_plucker', 'C20': 'c20_spatial',
}


def load(prop):
    from . import target
    target.assert_target()
    return importlib.import_module('vmon.props.' + PROPS[prop])


def run_shard(mod, ctx):
    """Run this shard's part of the workload in-process."""
    reach = None
    if hasattr(mod, 'setup'):
        mod.setup(ctx)
    if getattr(mod, 'REACH', None):
        from .instrument import Reach
        reach = Reach()
        for fn in mod.REACH():
            if fn is not None:
                reach.add(fn)
        reach.start()
    try:
        mod.run(ctx)
    except Exception:
        ctx.harness_errors.append(core.fmt_tb())
    finally:
        if reach:
            reach.stop()
            ctx.extra['reach'] = reach.report()
    from .instrument import COUNTS
    ctx.extra['hook_calls'] = dict(COUNTS)
    return ctx.dump()


def replay_case(mod, prop, case, seed=0, tier='quick'):
    ctx = Ctx(prop, tier=tier, seed=seed, replay=True)
    if hasattr(mod, 'setup'):
        mod.setup(ctx)
    core.drive(mod.RUNNERS, ctx, case['kind'], core.U(case['params']))
    return ctx


def main(argv=None):
    ap = argparse.ArgumentParser()
    ap.add_argument('prop')
    ap.add_argument('--tier', default=os.environ.get('VERIF_TIER', 'quick'), choices=['quick', 'thorough'])
    ap.add_argument('--replay')
    ap.add_argument('--shards', type=int, default=None)
    ap.add_argument('--shard', default=None, help='internal: i/n')
    ap.add_argument('--out', default=None)
    a = ap.parse_args(argv)
    prop = a.prop
    seed = int(os.environ.get('VERIF_SEED', '0') or 0)
    if prop not in PROPS:
        print('unknown property', prop)
        return 2
    t0 = time.time()
    mod = load(prop)

    # ---------------------------------------------------------------- internal: one shard
    if a.shard:
        i, n = map(int, a.shard.split('/'))
        ctx = Ctx(prop, a.tier, seed, i, n)
        d = run_shard(mod, ctx)
        import numpy as np
        np.save(a.out + '.nt.npy', np.array(d.pop('nt'), dtype=np.uint64))
        d['nt'] = []
        with open(a.out, 'w') as f:
            json.dump(d, f)
        return 0

    # ---------------------------------------------------------------- replay of a witness
    if a.replay:
        with open(a.replay) as f:
            rec = json.load(f)
        if rec.get('config') == 'python -O' and not sys.flags.optimize:
            return subprocess.call([sys.executable, '-O', '-W', 'ignore', '-m', 'vmon.cli', prop, '--replay', a.replay])
        ctx = replay_case(mod, prop, rec['case'], seed=rec.get('seed', 0), tier=rec.get('tier', 'quick'))
        if ctx.harness_errors:
            print('INCONCLUSIVE property=%s harness error during replay\n%s' % (prop, ctx.harness_errors[0]))
            return 2
        if ctx.viol:
            for k, v in ctx.viol.items():
                print('replayed violation:', json.dumps(v['sig'], sort_keys=True))
                print('   ', v['detail'])
            print('VIOLATION property=%s replay=%s' % (prop, a.replay))
            return 1
        print('replay: property %s held on this case (%d monitor evaluations)' %
              (prop, sum(m['evals'] for m in ctx.mon.values())))
        return 0

    # ---------------------------------------------------------------- full run
    nsh = a.shards or getattr(mod, 'SHARDS', {}).get(a.tier, 4 if a.tier == 'quick' else 16)
    nsh = max(1, min(nsh, os.cpu_count() or 1))
    dumps, dead = [], []
    configs = {'default': 1}
    if nsh == 1:
        dumps.append(run_shard(mod, Ctx(prop, a.tier, seed, 0, 1)))
    else:
        sdir = os.path.join(HOME, '.shards')
        os.makedirs(sdir, exist_ok=True)
        procs = []
        # configurations: every shard in the default interpreter configuration; the same shards again under `python -O`
        # (assert statements stripped) -- all of them in the quick tier, a quarter of them in the thorough tier
        nopt = nsh if a.tier == 'quick' else max(1, nsh // 4)
        if os.environ.get('VERIF_NO_OPT'):
            nopt = 0
        for cfg, idxs in (('default', range(nsh)), ('python -O', range(nopt))):
            for i in idxs:
                out = os.path.join(sdir, '%s-%s-%d-%d%s.json' % (prop, a.tier, os.getpid(), i, 'O' if cfg != 'default' else ''))
                p = subprocess.Popen([sys.executable] + (['-O'] if cfg != 'default' else []) + ['-W', 'ignore', '-m', 'vmon.cli', prop, '--tier', a.tier,
                                      '--shard', '%d/%d' % (i, nsh), '--out', out],
                                     stdout=subprocess.PIPE, stderr=subprocess.STDOUT)
                procs.append(('%d%s' % (i, ' (python -O)' if cfg != 'default' else ''), p, out))
        configs = {'default': nsh, 'python -O': nopt}
        watchdog = getattr(mod, 'WATCHDOG', {}).get(a.tier, 900 if a.tier == 'quick' else 5400)
        for i, p, out in procs:
            try:
                so, _ = p.communicate(timeout=max(1, watchdog - (time.time() - t0)))
            except subprocess.TimeoutExpired:
                p.kill()
                p.communicate()
                dead.append('shard %s: watchdog after %ds' % (i, watchdog))
                continue
            if p.returncode != 0 or not os.path.exists(out):
                dead.append('shard %s: exit %s: %s' % (i, p.returncode, (so or b'').decode(errors='replace')[-1500:]))
                continue
            with open(out) as f:
                dd = json.load(f)
            try:
                import numpy as np
                dd['nt'] = np.load(out + '.nt.npy')
                os.unlink(out + '.nt.npy')
            except OSError:
                pass
            dumps.append(dd)
            os.unlink(out)
    res = core.merge(dumps) if dumps else core.merge([Ctx(prop).dump()])

    # ---------------------------------------------------------------- known findings
    findings = core.load_findings(prop)
    lines, known_seen, unlisted = [], {}, []
    for e in findings:
        w = e.get('witness')
        if not w:
            continue
        if e.get('config') == 'python -O':
            # the witness is a case under `python -O`: replay it in such an interpreter
            wf = os.path.join(HOME, '.shards', 'witness-%s-%d.json' % (e['id'], os.getpid()))
            os.makedirs(os.path.dirname(wf), exist_ok=True)
            with open(wf, 'w') as f:
                json.dump(dict(property=prop, case=w, config='python -O'), f)
            rc = subprocess.run([sys.executable, '-O', '-W', 'ignore', '-m', 'vmon.cli', prop, '--replay', wf], capture_output=True, text=True)
            os.unlink(wf)
            fails = [dict(sig=dict(property=prop, kind='witness_fails', config='python -O'), detail=rc.stdout[-1200:], case=w)] if rc.returncode == 1 else []
            if rc.returncode not in (0, 1):
                dead.append('witness replay of %s under python -O: exit %s %s' % (e['id'], rc.returncode, rc.stdout[-300:]))
            c = None
        else:
            c = replay_case(mod, prop, w)
            fails = [v for v in c.viol.values()]
        if c is not None and c.harness_errors:
            dead.append('witness replay of %s: %s' % (e['id'], c.harness_errors[0]))
        if e.get('status') == 'open':
            if fails:
                known_seen.setdefault(e['id'], 0)
                lines.append('KNOWN-FINDING: property=%s %s [%s]' % (prop, e['what'], e['id']))
            else:
                lines.append('NOTE: known finding %s no longer reproduces on this tree (witness passes)' % e['id'])
        else:  # fixed: must pass now
            for v in fails:
                v = dict(v)
                v['regression_of'] = e['id']
                unlisted.append(v)
    for key, v in res['viol'].items():
        e = core.match_finding(v['sig'], findings)
        v['count'] = res['viol_count'].get(key, 1)
        if e is not None:
            known_seen[e['id']] = known_seen.get(e['id'], 0) + v['count']
        else:
            unlisted.append(v)

    # ---------------------------------------------------------------- verdict
    inconclusive = list(dead)
    if res['harness_errors']:
        inconclusive.append('harness errors: %d, first: %s' % (len(res['harness_errors']), res['harness_errors'][0]))
    floors = getattr(mod, 'MIN_EVALS', {})
    for mid, floor in floors.items():
        fl = floor[a.tier] if isinstance(floor, dict) else floor
        have = res['mon'].get(mid, {}).get('evals', 0)
        if have < fl:
            inconclusive.append('monitor %s: %d in-domain evaluations < floor %d' % (mid, have, fl))
    reach_summary = None
    if 'reach' in res['extra']:
        from .instrument import source_line
        reach_summary = {}
        req = getattr(mod, 'REQUIRED_REACH', {})
        for lab, r in res['extra']['reach'].items():
            missed = [l for l in r['lines'] if l not in set(r['hit'])]
            reach_summary[lab] = dict(executable=len(r['lines']), executed=len(r['hit']),
                                      missed=[[l, source_line(r['file'], l)[:70]] for l in missed][:40])
            for snippet in req.get(lab.split(':')[-1], []):
                cand = [l for l in r['lines'] if snippet in source_line(r['file'], l)]
                if cand and not any(l in set(r['hit']) for l in cand):
                    inconclusive.append('required line never reached in %s: %r' % (lab, snippet))
    nviol = len(unlisted)
    total_evals = sum(m['evals'] for m in res['mon'].values())

    # replay files
    rdir = os.path.join(HOME, 'replays')
    os.makedirs(rdir, exist_ok=True)
    for old in os.listdir(rdir):
        if old.startswith(prop + '-'):
            os.unlink(os.path.join(rdir, old))
    for v in unlisted:
        name = '%s-%016x.json' % (prop, core.hkey(json.dumps(v['sig'], sort_keys=True, default=str), v.get('regression_of')))
        path = os.path.join(rdir, name)
        rec = dict(property=prop, sig=v['sig'], detail=v['detail'], case=v['case'], seed=v.get('seed', seed),
                   tier=v.get('tier', a.tier), count=v.get('count', 1), config=v.get('config', 'default'),
                   replay_cmd='./check %s --replay %s' % (prop, path))
        if 'regression_of' in v:
            rec['regression_of'] = v['regression_of']
        with open(path, 'w') as f:
            json.dump(rec, f, indent=1, default=str)
        lines.append('VIOLATION property=%s replay=%s' % (prop, path))
        lines.append('    sig=%s' % json.dumps(v['sig'], sort_keys=True, default=str))
        lines.append('    %s' % core.short(v['detail'], 400))

    # ---------------------------------------------------------------- evidence
    cov = dict(
        evaluations=int(total_evals),
        distinct_nontrivial=len(res['nt']),
        rule=getattr(mod, 'RULE', ''),
        samples=res['samples'][:8] or ['(no sample recorded)'],
        cases_driven=res['ncases'],
        monitors=res['mon'],
        cells_covered=len(res['cells']),
        cell_histogram=dict(sorted(res['cells'].items(), key=lambda kv: -kv[1])[:400]),
        exhaustive=bool(getattr(mod, 'EXHAUSTIVE', False)),
        known_findings_observed=known_seen,
        unlisted_violation_signatures=[v['sig'] for v in unlisted][:50],
        inconclusive_reasons=inconclusive,
        shards=nsh,
        interpreter_configurations=configs,
        hook_calls=res['extra'].get('hook_calls', {}),
    )
    for k, v in res['extra'].items():
        if k not in ('reach', 'hook_calls'):
            cov[k] = v
    if reach_summary is not None:
        cov['line_reach'] = reach_summary
    from . import target
    ev = dict(property_id=prop, tier=a.tier, seed=seed, level='exploration', coverage=cov,
              assumptions=list(getattr(mod, 'ASSUMPTIONS', [])) + [
                  'held = held on the executions observed; nothing is claimed about inputs no workload produced',
                  'reference models (mpmath 50-digit expm, longdouble group arithmetic, NumPy geometry) are trusted'],
              wall_s=round(time.time() - t0, 2), violations=nviol, tree=target.fingerprint(),
              verdict='violated' if nviol else ('inconclusive' if inconclusive else 'held_on_observed'))
    os.makedirs(os.path.join(HOME, 'evidence'), exist_ok=True)
    try:
        import jsonschema
        with open('/root/.vp/EVIDENCE.schema.json') as f:
            jsonschema.validate(ev, json.load(f))
    except FileNotFoundError:
        pass
    except ImportError:
        pass
    except Exception as e:  # schema violation: say so, still write
        inconclusive.append('evidence does not validate: %s' % core.short(str(e), 300))
    with open(os.path.join(HOME, 'evidence', prop + '.json'), 'w') as f:
        json.dump(ev, f, indent=1, default=str)

    for l in lines:
        print(l)
    print('%s %s seed=%d: %d cases, %d judged evaluations, %d distinct non-trivial, %d cells, %d monitors, '
          '%d unlisted violations, %d known findings seen, %.1fs' %
          (prop, a.tier, seed, res['ncases'], total_evals, len(res['nt']), len(res['cells']), len(res['mon']),
           nviol, len(known_seen), time.time() - t0))
    if nviol:
        return 1
    if inconclusive:
        for r in inconclusive:
            print('INCONCLUSIVE property=%s %s' % (prop, core.short(r, 2000)))
        return 2
    return 0


if __name__ == '__main__':
    sys.exit(main())
